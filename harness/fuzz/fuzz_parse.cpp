// libFuzzer target for C03: bytes -> (12 option bytes taken from the end) + document; the semantic oracle of
// common/c03_oracle.hpp runs inside the target.  A failure prints the reason and traps, so libFuzzer saves the input.
#include "../common/c03_oracle.hpp"
#include <cstdio>
#include <cstdlib>

static bool g_init = false;
static void init() {
    g_init = true;
    vh::harness_init_globals();
    cif_tp *w = nullptr; if (cif_create(&w) == CIF_OK) (void) cif_destroy(w);
    if (const char *p = getenv("VERIF_FUZZ_STATS")) { vh::set_stats_path(p, "fuzz_parse", getenv("VERIF_FUZZ_ID") ? getenv("VERIF_FUZZ_ID") : "0"); atexit([]() { vh::flush_stats("pass"); }); }
}

extern "C" int LLVMFuzzerTestOneInput(const uint8_t *data, size_t size) {
    if (!g_init) init();
    c03::Opts o; std::string doc;
    if (size >= 12) { o = c03::Opts::decode(data + size - 12, 12); doc.assign((const char *) data, size - 12); }
    else doc.assign((const char *) data, size);
    vh::count_eval();
    std::string m = c03::check_input(doc, o);
    if (!m.empty()) {
        fprintf(stderr, "\nC03-ORACLE-FAILURE: %s\noptions: %s\n", m.c_str(), o.str().c_str());
        vh::flush_stats("fail");
        __builtin_trap();
    }
    // non-trivial: at least one error was reported and the parse went on (the oracle labels first:<code>)
    return 0;
}
