// C08: parse results are independent of line-terminator style and of where things fall relative to the parser's buffers.
// Metamorphic: observe(x) = (dump of the stored CIF, sequence of (error code, line)).  For an LF-terminated base document x
// (well-formed, or mutated so that it contains errors) and a variant T(x) -- all LF -> CR LF, all -> CR, a generated mixture,
// re-encoding as UTF-16, short reads, and padding comments that move a chosen construct to a chosen offset relative to the
// 4096-byte read buffer -- the observations must be identical.
#include "../common/docgen.hpp"
#include "../common/parsehelp.hpp"
#include <sstream>
using namespace vh;
using cm::Doc;

struct Obs { std::string dump; std::vector<std::pair<int, size_t>> errs; int rc; };

// a FILE that returns short reads of the given chunk sizes (cycled)
struct Chunked { const std::string *data; size_t pos; std::vector<int> chunks; size_t ci; };
static ssize_t ck_read(void *c, char *buf, size_t n) {
    Chunked *k = (Chunked *) c;
    size_t want = k->chunks.empty() ? n : (size_t) std::max(1, k->chunks[k->ci++ % k->chunks.size()]);
    size_t m = std::min(std::min(n, want), k->data->size() - k->pos);
    memcpy(buf, k->data->data() + k->pos, m); k->pos += m;
    return (ssize_t) m;
}
static int ck_close(void *) { return 0; }

static Obs observe(const std::string &bytes, const std::vector<int> *chunks, bool drop_wrong_encoding) {
    Obs o; o.rc = -1;
    struct cif_parse_opts_s *po = nullptr; cif_tp *cif = nullptr; ph::ErrLog log;
    if (cif_parse_options_create(&po) != CIF_OK) return o;
    po->error_callback = ph::log_cb; po->user_data = &log; po->max_frame_depth = 1;
    FILE *f;
    Chunked ck{&bytes, 0, chunks ? *chunks : std::vector<int>(), 0};
    if (chunks) { cookie_io_functions_t io = {ck_read, nullptr, nullptr, ck_close}; f = fopencookie(&ck, "rb", io); setvbuf(f, nullptr, _IONBF, 0); }
    else f = ph::mem_file(bytes);
    o.rc = cif_parse(f, po, &cif);
    fclose(f);
    cm::ufree(po);
    for (auto &e : log.errs) { if (drop_wrong_encoding && e.code == CIF_WRONG_ENCODING) continue; o.errs.push_back({e.code, e.line}); }
    if (cif) { Doc d; int rc = cm::dump(cif, d); o.dump = rc == CIF_OK ? cm::ser(d) : std::string("<dump failed: ") + cm::code_name(rc) + ">"; (void) cif_destroy(cif); }
    return o;
}
static std::string obs_diff(const Obs &a, const Obs &b) {
    if (a.rc != b.rc) return std::string("cif_parse returned ") + cm::code_name(a.rc) + " for the LF document and " + cm::code_name(b.rc) + " for the variant";
    if (a.errs.size() != b.errs.size()) {
        std::string s = "the LF document reports " + std::to_string(a.errs.size()) + " errors, the variant " + std::to_string(b.errs.size()) + ": LF [";
        // show the lists from just before the first difference
        size_t d = 0; while (d < a.errs.size() && d < b.errs.size() && a.errs[d] == b.errs[d]) d++;
        size_t from = d > 2 ? d - 2 : 0;
        for (size_t i = from; i < a.errs.size() && i < from + 8; i++) s += std::string(cm::code_name(a.errs[i].first)) + "@" + std::to_string(a.errs[i].second) + " ";
        s += "] variant [";
        for (size_t i = from; i < b.errs.size() && i < from + 8; i++) s += std::string(cm::code_name(b.errs[i].first)) + "@" + std::to_string(b.errs[i].second) + " ";
        return s + "] (lists shown from error #" + std::to_string(from + 1) + ")";
    }
    for (size_t i = 0; i < a.errs.size(); i++) if (a.errs[i] != b.errs[i])
        return "error #" + std::to_string(i + 1) + " is " + cm::code_name(a.errs[i].first) + " at line " + std::to_string(a.errs[i].second) + " for the LF document but " + cm::code_name(b.errs[i].first) + " at line " + std::to_string(b.errs[i].second) + " for the variant";
    if (a.dump != b.dump) {
        size_t i = 0; while (i < a.dump.size() && i < b.dump.size() && a.dump[i] == b.dump[i]) i++;
        size_t from = i > 300 ? i - 300 : 0;
        return "stored content differs at offset " + std::to_string(i) + " of the canonical dump (" + std::to_string(a.dump.size()) + " vs " + std::to_string(b.dump.size()) + " bytes)\n--- LF document\n" +
               a.dump.substr(from, 700) + "\n--- variant\n" + b.dump.substr(from, 700);
    }
    return "";
}

static bool valid_utf8(const std::string &b) {
    size_t i = 0, n = b.size();
    while (i < n) {
        unsigned char c = b[i]; uint32_t cp; int len;
        if (c < 0x80) { i++; continue; }
        else if (c >= 0xC2 && c <= 0xDF) { cp = c & 0x1F; len = 2; }
        else if (c >= 0xE0 && c <= 0xEF) { cp = c & 0x0F; len = 3; }
        else if (c >= 0xF0 && c <= 0xF4) { cp = c & 0x07; len = 4; }
        else return false;
        if (i + len > n) return false;
        for (int k = 1; k < len; k++) { unsigned char d = b[i + k]; if ((d & 0xC0) != 0x80) return false; cp = (cp << 6) | (d & 0x3F); }
        if ((len == 3 && cp < 0x800) || (len == 4 && cp < 0x10000) || cp > 0x10FFFF || (cp >= 0xD800 && cp <= 0xDFFF)) return false;
        i += len;
    }
    return true;
}

static bool decode_error_expected(const std::string &b) {
    if (!valid_utf8(b)) return true;
    if (b.compare(0, 10, "#\\#CIF_2.0") == 0) return false;
    for (unsigned char ch : b) if (ch >= 0x80) return true;
    return false;
}

// variant construction ---------------------------------------------------------------------------------------------------------
enum { V_CRLF = 1, V_CR = 2, V_MIXED = 3, V_LF = 0 };
static std::string eol_variant(const std::string &lf, int kind, const std::vector<int> &mix) {
    std::string o; size_t k = 0;
    for (char ch : lf) {
        if (ch != '\n') { o += ch; continue; }
        int c = kind == V_MIXED ? (mix.empty() ? 0 : mix[k++ % mix.size()] % 3) : kind;
        // a CR terminator directly followed by an LF terminator would read as ONE terminator (CR LF): write CR again instead
        if (kind == V_MIXED && c == 0 && !o.empty() && o.back() == '\r') c = 2;
        if (c == 0) o += '\n'; else if (c == 1) o += "\r\n"; else o += '\r';
    }
    return o;
}
static std::string to_utf16le(const std::string &utf8) {
    ustr u = u16(utf8); std::string o = "\xFF\xFE";
    for (char16_t c : u) { o += (char) (c & 0xFF); o += (char) (c >> 8); }
    return o;
}
// the document is  line1 (magic) + three comment lines + rest; the comment lines' lengths are the padding.  A second padding site
// (three more comment lines) sits directly before the appended "data_big" block when there is one, so that two bytes of the
// document can be aligned to fill boundaries independently (state carried from one buffer fill to a later one).
static const char *BIG_MARK = "\ndata_big _big\n;";
static std::string pad_lines(size_t pad) {
    std::string p;
    for (int i = 0; i < 3; i++) { size_t n = std::min<size_t>(pad, 1500); pad -= n; p += "#" + std::string(n, 'p') + "\n"; }
    return p;
}
static std::string with_padding(const std::string &lf_doc, size_t pad, size_t pad2 = 0) {
    size_t e = lf_doc.find('\n');
    std::string head = e == std::string::npos ? std::string() : lf_doc.substr(0, e + 1), rest = e == std::string::npos ? lf_doc : lf_doc.substr(e + 1);
    size_t b = rest.rfind(BIG_MARK);
    if (b != std::string::npos) rest = rest.substr(0, b + 1) + pad_lines(pad2) + rest.substr(b + 1);
    return head + pad_lines(pad) + rest;
}

static std::string run_case(const CaseFile &c) {
    const std::string base = c.get("lf");                   // LF-terminated base document (first line: magic comment)
    int kind = (int) c.geti("variant"); bool utf16 = c.geti("utf16") != 0 && valid_utf8(base)     // re-encoding needs well-formed input,
                                                    && base.compare(0, 10, "#\\#CIF_2.0") == 0;   // and a CIF 2.0 document: under CIF 1.1 rules the byte-order mark itself is an error
    long target = c.geti("target"), delta = c.geti("delta");
    std::vector<int> mix, chunks;
    { std::istringstream in(c.get("mix")); int v; while (in >> v) mix.push_back(v); }
    { std::istringstream in(c.get("chunks")); int v; while (in >> v) chunks.push_back(v); }
    CaseGuard guard;
    // variant: choose the padding so that byte `target` of the *variant without padding* lands at offset delta (mod 4096) of a buffer fill
    std::string v0 = eol_variant(with_padding(base, 0), kind, mix);
    if (utf16) v0 = to_utf16le(v0);
    size_t pad = 0, pad2 = 0;
    long unit = utf16 ? 2 : 1;
    auto shift_for = [&](const std::string &v, long tgt, long dlt) -> size_t {
        if (tgt < 0 || (size_t) tgt >= v.size()) return 0;
        long want = ((4096 + dlt) % 4096), cur = tgt % 4096;
        size_t p = (size_t) ((((want - cur) % 4096 + 4096) % 4096) / unit);      // units to insert before the target
        return p > 4400 ? 0 : p;
    };
    pad = shift_for(v0, target, delta);
    long target2 = c.geti("target2", -1), delta2 = c.geti("delta2", 0);
    if (target2 >= 0) {
        // second alignment: target2 indexes the variant *with the first padding applied*; only the second site moves it
        std::string v1 = eol_variant(with_padding(base, pad, 0), kind, mix);
        if (utf16) v1 = to_utf16le(v1);
        long t2 = target2 + (long) pad * unit;
        pad2 = shift_for(v1, t2, delta2);
    }
    std::string vb = eol_variant(with_padding(base, pad, pad2), kind, mix);
    if (utf16) vb = to_utf16le(vb);
    // reference: LF, first padding 0 (three empty comment lines so that line numbers agree).  The second padding site may lie inside a
    // multi-line value when the document was mutated, so the reference carries the same second padding as the variant.
    std::string ref_bytes = with_padding(base, 0, pad2);
    Obs ref = observe(ref_bytes, nullptr, utf16);
    Obs var = observe(vb, chunks.empty() ? nullptr : &chunks, utf16);
    std::string msg = obs_diff(ref, var);
    // labels
    label(kind == V_LF ? "variant:lf" : kind == V_CRLF ? "variant:crlf" : kind == V_CR ? "variant:cr" : "variant:mixed");
    if (utf16) label("utf16");
    if (!base.empty() && base[0] == '\n') label("starts-with-terminator");
    if (!chunks.empty()) label("shortread");
    if (pad) label("padded");
    if (pad2) label("padded-twice");
    if (!ref.errs.empty()) label("err-seq");
    if (vb.size() > 4096) label("size>4096");
    if (vb.size() > 133120 * (utf16 ? 2 : 1)) label("size>scan-buffer");
    bool nl_in_value = base.find("\n;") != std::string::npos || base.find("'''") != std::string::npos || base.find("\"\"\"") != std::string::npos;
    // straddle classification: is there a CR at the last byte of a 4096-byte fill followed by LF?
    bool straddle = false;
    if (!utf16) for (size_t off = 4095; off + 1 < vb.size(); off += 4096) if (vb[off] == '\r' && vb[off + 1] == '\n') straddle = true;
    if (straddle) label("straddle-crlf");
    bool carried = false;
    if (!utf16 && vb.size() > 8192) {
        // a bare CR ending one fill and a bare LF opening a later fill (scanner state carried across fills)
        bool end_cr = false;
        for (size_t off = 4096; off < vb.size(); off += 4096) {
            if (end_cr && vb[off] == '\n' && vb[off - 1] != '\r') carried = true;
            if (vb[off - 1] == '\r' && vb[off] != '\n') end_cr = true;
        }
        if (carried) label("bare-cr-ends-fill,lf-opens-later-fill");
    }
    if ((nl_in_value && vb.size() > 4096) || straddle || carried || (pad && kind != V_LF)) nontrivial(fnv(vb));
    if (!msg.empty()) msg += "\n(variant " + std::to_string(kind) + (utf16 ? ", UTF-16LE" : "") + ", padding " + std::to_string(pad) + ", " + std::to_string(vb.size()) + " bytes)";
    if (msg.empty()) msg = guard.check();
    return msg;
}


static std::string mutate(const std::string &doc, const std::vector<int> &edits) {
    std::string s = doc;
    size_t first_nl = s.find('\n'); size_t lo = first_nl == std::string::npos ? 0 : first_nl + 1;   // keep the magic line
    static const char *ins[] = {"'", "\"", ";", "[", "]", "{", "}", ":", " ", "\n", "_x", "data_", "save_", "loop_", "\x01", "$", "#", "\\", "'''", "\n;", "?", "\xC3", "\xE2\x82"};
    for (size_t i = 0; i + 2 < edits.size(); i += 3) {
        if (s.size() <= lo + 1) break;
        size_t p = lo + (size_t) edits[i] % (s.size() - lo);
        int op = edits[i + 1] % 4;
        if (op == 0) s.erase(p, 1 + (size_t) edits[i + 2] % 3);
        else if (op == 1) s.insert(p, ins[(size_t) edits[i + 2] % (sizeof ins / sizeof *ins)]);
        else if (op == 2) { size_t n = std::min<size_t>(1 + (size_t) edits[i + 2] % 8, s.size() - p); s.insert(p, s.substr(p, n)); }
        else s.resize(p);   // truncate
    }
    std::string o; for (char ch : s) if (ch != '\r') o += ch;
    return o;
}

int main(int argc, char **argv) {
    Engine e;
    e.name = "C08_eol";
    e.run = []() {
        { cif_tp *w = nullptr; if (cif_create(&w) == CIF_OK) (void) cif_destroy(w); }
        return rc::check("C08 terminator style and buffer alignment do not change the parse", []() {
            g::DocOpts o; o.dialect = cp::CIF2; o.vo.prof = g::P_CIF2; o.vo.numb_kind = false; o.vo.maxlen = 60; o.vo.maxdepth = 2; o.long_values = *g::chance(30);
            o.max_blocks = 2; o.max_items = 6; o.max_loops = 2;
            Doc d = *g::doc(o);
            cp::Tape tape; tape.t = *g::tape(1500);
            cp::PrintOpts po; po.magic = 1; po.booster = *g::chance(20); cp::PrintInfo info;
            std::string bytes = cp::print(d, tape, po, info);
            if (!info.ok) { count_excluded("unprintable"); RC_DISCARD("unprintable"); }
            // occasionally blow the document up beyond the 4096-byte read buffer / the 133120-unit scan buffer with a big text field
            int big = *rc::gen::weightedElement<int>({{59, 0}, {20, 1}, {8, 2}, {2, 3}, {8, 4}, {3, 5}});
            long forced_target = -1;
            if (big == 5) {
                // a multi-line string or text field whose closing delimiter is the LAST character of the buffer fill at which the scan buffer
                // (131200 units) is full of small tokens for the first time: the look-ahead behind the delimiter then refills, compacting the
                // buffer with the token in it.  ~129000 bytes of comment lines, then the value; the padding moves its end onto byte 131071.
                { size_t e = bytes.find('\n'); bytes = e == std::string::npos ? std::string("#\\#CIF_2.0\n") : bytes.substr(0, e + 1); }   // ASCII only: byte offsets = unit offsets
                std::string tf = "\ndata_many\n";
                for (int i = 0; tf.size() + bytes.size() < 128800; i++) { tf += "#"; tf += std::string((size_t) (50 + (i * 7) % 13), (char) ('a' + i % 26)); tf += "\n"; }
                int kind = *g::range(0, 2);
                tf += kind == 0 ? "_v\n;The quick\nbrown fox\n;" : kind == 1 ? "_v \'\'\'The quick\nbrown fox\'\'\'" : "_v \"\"\"The quick brown fox\"\"\"";
                forced_target = (long) (bytes.size() + tf.size() - 1);      // offset (before padding) of the last delimiter character
                tf += "\n_after 1\n";
                bytes += tf; label("token-ends-full-buffer-fill");
            }
            if (big == 4) {
                // more than a scan buffer (131200 units) of SMALL tokens: the buffer then fills up to its end between compactions, and the
                // last, short read of the file meets it at an arbitrary fill level (terminator folding shifts the level against the
                // 4096-byte reads).  Comment lines cost nothing to store; a few items follow so that a lost tail is seen.
                // (the total is kept between one and one-and-a-half scan buffers in 2 of 3 cases, so that the final, short read arrives
                // while the buffer is nearly full; which fill level it meets then depends on the terminators and on the tail)
                int len = *g::range(30, 90);
                int nlines = *g::chance(67) ? (131300 + *g::range(0, 65000)) / (len + 4) : *g::range(1700, 2600);
                std::string tf = "\ndata_many\n";
                for (int i = 0; i < nlines; i++) { tf += "#"; tf += std::string((size_t) (len + (i * 7) % 5), (char) ('a' + i % 26)); tf += "\n"; }
                int ntail = *g::range(1, 40);
                for (int i = 0; i < ntail; i++) tf += "_tail_" + std::to_string(i) + " v" + std::to_string(i) + "\n";
                bytes += tf; label("many-small-tokens");
            } else if (big) {
                size_t lines = big == 1 ? 6 : big == 2 ? 40 : 160; std::string tf = "\ndata_big _big\n;";
                for (size_t i = 0; i < lines; i++) { tf += std::string(900 + (i * 37) % 1100, (char) ('a' + i % 26)); tf += (i % 3 == 0) ? " \xC3\xA9\xF0\x9D\x92\xB3\n" : "\n"; }
                tf += ";\n";
                bytes += tf;
            }
            if (big != 5 && *g::chance(35)) { auto ed = *rc::gen::container<std::vector<int>>((size_t) (3 * *g::range(1, 3)), g::range(0, 99999)); bytes = mutate(bytes, ed); }
            // the very first character of the input is handled by its own code (get_first_char): let it be a line terminator sometimes
            // (the version comment is then no longer at the start of the file, so the document is read by CIF 1.1 rules -- with whatever
            // errors that entails, identically for every terminator style)
            if (big != 5 && *g::chance(12)) bytes = (*g::chance(50) ? "\n" : "\n\n") + bytes;
            // known finding F-DECODE-LINE: a decoding error (invalid UTF-8) is reported with the line the scanner had reached when the
            // buffer was filled, which depends on the fill boundaries.  Such documents are excluded (counted): the stray bytes are replaced.
            // (The same holds for any non-ASCII byte of a document read by CIF 1.1 rules, i.e. without the version comment at its very
            // start: it is decoded with the default encoding, which is US-ASCII in this environment.)
            if (decode_error_expected(bytes)) { count_excluded("F-DECODE-LINE"); std::string f; for (unsigned char ch : bytes) f += ch >= 0x80 ? '?' : (char) ch; bytes = f; }
            CaseFile c; c.set("lf", bytes);
            c.seti("variant", *rc::gen::weightedElement<int>({{2, V_LF}, {5, V_CRLF}, {3, V_CR}, {4, V_MIXED}}));
            { std::string m; int n = *g::range(1, 12); for (int i = 0; i < n; i++) m += std::to_string(*g::range(0, 2)) + " "; c.set("mix", m); }
            c.seti("utf16", *g::chance(12) ? 1 : 0);
            if (*g::chance(30)) { std::string m; int n = *g::range(1, 6); for (int i = 0; i < n; i++) m += std::to_string(*rc::gen::element(1, 2, 3, 7, 100, 1000, 4095, 4096, 4097, 10000)) + " "; c.set("chunks", m); }
            // target: a byte of the document to move next to a fill boundary: prefer line terminators inside values and multi-byte characters
            if (big == 4 && *g::chance(60)) c.seti("variant", V_CRLF);   // terminator folding shortens every fill by its number of pairs
            if (big == 5) { c.seti("variant", *g::chance(70) ? V_LF : V_CR); c.seti("utf16", 0); }   // one byte per unit, one unit per terminator: the fill level is the byte offset
            bool two = big >= 1 && big <= 3 && !c.geti("utf16") && *g::chance(40);      // two-boundary mode: one terminator ends a fill, another opens a later fill
            if (two) c.seti("variant", V_MIXED);
            if (two || *g::chance(75)) {
                std::vector<long> cand, cand2;
                std::vector<int> mixv; { std::istringstream in(c.get("mix")); int v; while (in >> v) mixv.push_back(v); }
                std::string v0 = eol_variant(with_padding(bytes, 0), (int) c.geti("variant"), two ? mixv : std::vector<int>{0, 1, 2});
                size_t bigpos = v0.rfind("data_big _big");
                for (size_t i = 0; i < v0.size(); i++) {
                    unsigned char ch = (unsigned char) v0[i];
                    bool eol = ch == '\r' || ch == '\n';
                    if (two ? (eol && (bigpos == std::string::npos || i < bigpos)) : (eol || ch >= 0xC0 || ch == '\'' || ch == ';' || ch == ':')) cand.push_back((long) i * (c.geti("utf16") ? 2 : 1));
                    if (two && eol && bigpos != std::string::npos && i > bigpos + 4096) cand2.push_back((long) i);
                }
                if (!cand.empty()) {
                    c.seti("target", cand[(size_t) *g::range(0, 999999) % cand.size()]);
                    c.seti("delta", two ? *rc::gen::weightedElement<int>({{6, -1}, {2, -2}, {2, 0}}) : *g::range(-4, 4));
                    if (two && !cand2.empty()) { c.seti("target2", cand2[(size_t) *g::range(0, 999999) % cand2.size()]); c.seti("delta2", *rc::gen::weightedElement<int>({{6, 0}, {2, -1}, {2, 1}})); }
                } else c.seti("target", -1);
            } else c.seti("target", -1);
            if (forced_target >= 0) {   // with_padding(…, 0) puts three empty comment lines (6 bytes) after the first line
                c.seti("target", forced_target + 6); c.seti("delta", -1); c.seti("target2", -1);
            }
            VH_BEGIN(c);
            if (bytes.size() < 200) sample("variant=" + std::to_string(c.geti("variant")) + " " + bytes);
            std::string m = run_case(c);
            if (!m.empty()) { record_fail(c, m); RC_FAIL(m); }
        });
    };
    e.replay = run_case;
    e.classify = [](const CaseFile &c) { return decode_error_expected(c.get("lf")) ? std::string("F-DECODE-LINE") : std::string(); };
    return engine_main(argc, argv, e);
}
