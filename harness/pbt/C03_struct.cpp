// C03 (structured twin of the libFuzzer target): the parser is total and honours the error-callback contract.
// Inputs: well-formed documents from the grammar generator damaged by 1-4 byte/token edits, the repository's own test
// files truncated at generated offsets, and re-encodings (UTF-16/32, with and without BOM) -- each with generated options
// and callback policy.  Oracle: common/c03_oracle.hpp.  This engine also replays the artifacts saved by the fuzzer.
#include "../common/docgen.hpp"
#include "../common/c03_oracle.hpp"
#include <dirent.h>
#include <fstream>
#include <sstream>
using namespace vh;

static std::string run_case(const CaseFile &c) {
    std::string ob = c.get("optbytes");
    c03::Opts o; if (ob.size() >= 12) o = c03::Opts::decode((const unsigned char *) ob.data(), 12);
    const std::string &in = c.get("input");
    return c03::check_input(in, o);
}
static bool lone_underscore(const std::string &in) {
    // a '_' that is a whole whitespace-delimited token (in any of the byte encodings we generate the ASCII bytes are recognisable)
    for (size_t i = 0; i < in.size(); i++) if (in[i] == '_') {
        bool before = i == 0 || in[i - 1] == ' ' || in[i - 1] == '\t' || in[i - 1] == '\n' || in[i - 1] == '\r' || in[i - 1] == 0;
        size_t j = i + 1; while (j < in.size() && in[j] == 0) j++;   // UTF-16/32 padding bytes
        bool after = j >= in.size() || in[j] == ' ' || in[j] == '\t' || in[j] == '\n' || in[j] == '\r';
        if (before && after) return true;
    }
    return false;
}
// known finding F-NAME_: a lone underscore is scanned as a data name but is not a valid one; cif_parse then fails with the raw
// CIF_INVALID_ITEMNAME (CIF_INTERNAL_ERROR inside a loop header) without consulting the error callback
static std::string fix_lone_underscore(const std::string &in) {
    std::string f;
    for (size_t i = 0; i < in.size(); i++) {
        f += in[i];
        if (in[i] != '_') continue;
        bool before = i == 0 || in[i - 1] == ' ' || in[i - 1] == '\t' || in[i - 1] == '\n' || in[i - 1] == '\r' || in[i - 1] == 0;
        size_t j = i + 1; while (j < in.size() && in[j] == 0) j++;
        bool after = j >= in.size() || in[j] == ' ' || in[j] == '\t' || in[j] == '\n' || in[j] == '\r';
        if (before && after) f += 'u';
    }
    return f;
}
static std::string classify(const CaseFile &c) {
    CaseFile s = c; s.seti("strict", 1);
    std::string m = run_case(s);
    (void) m;   // F-NAME_ is a fixed finding: it suppresses nothing
    return "";
}

static std::vector<std::string> g_seeds;
static void load_seeds() {
    std::string dir = std::string(getenv("VERIF_REPO") ? getenv("VERIF_REPO") : "/repo") + "/test-data";
    if (DIR *d = opendir(dir.c_str())) {
        while (dirent *e = readdir(d)) {
            std::string n = e->d_name; if (n.size() < 5 || n.substr(n.size() - 4) != ".cif") continue;
            std::ifstream f(dir + "/" + n, std::ios::binary); std::stringstream ss; ss << f.rdbuf(); g_seeds.push_back(ss.str());
        }
        closedir(d);
    }
    std::sort(g_seeds.begin(), g_seeds.end());
}
static std::string reencode(const std::string &utf8, int enc, bool bom) {
    if (enc == 0) return (bom ? std::string("\xEF\xBB\xBF") : std::string()) + utf8;
    ustr u = u16(utf8); std::string o;
    auto put16 = [&](unsigned v, bool le) { if (le) { o += (char) (v & 255); o += (char) (v >> 8); } else { o += (char) (v >> 8); o += (char) (v & 255); } };
    if (enc == 1 || enc == 2) { bool le = enc == 1; if (bom) put16(0xFEFF, le); for (char16_t c : u) put16(c, le); return o; }
    bool le = enc == 3;
    auto put32 = [&](uint32_t v) { for (int i = 0; i < 4; i++) o += (char) ((v >> (le ? 8 * i : 24 - 8 * i)) & 255); };
    if (bom) put32(0xFEFF);
    for (size_t i = 0; i < u.size(); i++) { uint32_t cp = u[i]; if (cp >= 0xD800 && cp < 0xDC00 && i + 1 < u.size()) { cp = 0x10000 + ((cp - 0xD800) << 10) + (u[i + 1] - 0xDC00); i++; } put32(cp); }
    return o;
}
static std::string mutate(std::string s, const std::vector<int> &edits) {
    static const char *ins[] = {"'", "\"", ";", "[", "]", "{", "}", ":", " ", "\n", "\r", "\r\n", "_x", "_", "data_", "data_a", "save_", "save_f", "loop_", "stop_", "global_", "\x01", "\x7f", "$", "#", "\\", "'''",
                                "\"\"\"", "\n;", "?", ".", "\xC3", "\xE2\x82", "\xED\xA0\x80", "\xEF\xBF\xBE", "\xEF\xBB\xBF", "\xF4\x90\x80\x80", "\x00", "\xFF", "\x0b", "\x0c", "\x1f", "#\\#CIF_2.0\n", "#\\#CIF_1.1\n"};
    for (size_t i = 0; i + 2 < edits.size(); i += 3) {
        size_t p = s.empty() ? 0 : (size_t) edits[i] % (s.size() + 1);
        int op = edits[i + 1] % 5;
        if (op == 0 && p < s.size()) s.erase(p, 1 + (size_t) edits[i + 2] % 4);
        else if (op == 1) { const char *t = ins[(size_t) edits[i + 2] % (sizeof ins / sizeof *ins)]; s.insert(p, t, t[0] ? strlen(t) : 1); }
        else if (op == 2 && p < s.size()) { size_t n = std::min<size_t>(1 + (size_t) edits[i + 2] % 16, s.size() - p); s.insert(p, s.substr(p, n)); }
        else if (op == 3) s.resize(p);
        else if (op == 4 && p < s.size()) s[p] = (char) (edits[i + 2] & 255);
    }
    return s;
}

int main(int argc, char **argv) {
    Engine e;
    e.name = "C03_struct";
    e.run = []() {
        { cif_tp *w = nullptr; if (cif_create(&w) == CIF_OK) (void) cif_destroy(w); }
        load_seeds();
        return rc::check("C03 parser totality and error-callback contract", []() {
            std::string bytes;
            int src = *rc::gen::weightedElement<int>({{6, 0}, {2, 1}, {2, 2}});
            if (src == 0 || g_seeds.empty()) {
                bool c11 = *g::chance(25);
                g::DocOpts o; o.dialect = c11 ? cp::CIF11 : cp::CIF2; o.vo.prof = c11 ? g::P_CIF11 : g::P_CIF2; o.vo.numb_kind = false; o.vo.composites = !c11; o.vo.maxlen = 30; o.vo.maxdepth = 2; o.max_blocks = 2;
                o.frame_depth = *g::range(1, 2); o.long_values = *g::chance(10);
                cm::Doc d = *g::doc(o);
                cp::Tape tape; tape.t = *g::tape(800);
                cp::PrintOpts po; po.dialect = o.dialect; po.magic = *g::range(0, c11 ? 2 : 1); po.protocols = !c11; po.eols = *rc::gen::element(1, 1, 2, 4, 7); po.bom = *g::chance(10); cp::PrintInfo info;
                bytes = cp::print(d, tape, po, info);
                if (!info.ok) { count_excluded("unprintable"); RC_DISCARD("unprintable"); }
                label("src:grammar");
            } else if (src == 1) { bytes = g_seeds[(size_t) *g::range(0, 9999) % g_seeds.size()]; if (bytes.size() > 20000) bytes.resize(20000); size_t cut = (size_t) *g::range(0, 1 << 20) % (bytes.size() + 1); if (*g::chance(70)) bytes.resize(cut); label("src:test-data-truncated"); }
            else { int n = *g::sized(0, 200); for (int i = 0; i < n; i++) bytes += (char) *rc::gen::weightedOneOf<int>({{6, g::range(0x20, 0x7e)}, {2, rc::gen::element(9, 10, 13, 39, 34, 59, 95, 35)}, {2, g::range(0, 255)}}); label("src:random-bytes"); }
            // a token larger than half / all of the parser's 131200-unit scan buffer (the buffer is then compacted with the token in it, or
            // re-allocated), placed behind 0..130000 units of other material so that the refill happens at different fill levels
            if (*g::chance(3)) {
                int kind = *g::range(0, 3); size_t len = (size_t) *rc::gen::element(66000, 70000, 129000, 131300, 140000, 270000); size_t lead = (size_t) *rc::gen::element(0, 100, 60000, 100000, 130000);
                std::string tok; for (size_t i = 0; i < len; i++) tok += (i % 997 == 996) ? (kind == 0 || kind == 1 ? '\n' : 'q') : (char) ('a' + i % 23);
                std::string item = "\n_huge ";
                if (kind == 0) item += "\n;" + tok + "\n;"; else if (kind == 1) item += "\'\'\'" + tok + "\'\'\'"; else if (kind == 2) item += "\"" + tok + "\""; else item += tok;
                std::string pad; for (size_t i = 0; i < lead; i++) pad += (i % 70 == 69) ? '\n' : (i % 70 == 0 ? '#' : 'c');
                bytes += "\n" + pad + item + "\n_after_huge 1\n";
                label("huge-token");
            }
            // repeat one data name, respelled (other letter case), right after itself: in a loop header that is a duplicate which only
            // normalisation reveals; elsewhere a stray name
            if (*g::chance(8)) {
                std::vector<std::pair<size_t, size_t>> names;   // (start, length) of tokens that look like data names
                for (size_t i = 0; i < bytes.size(); i++) if (bytes[i] == '_' && (i == 0 || strchr(" \t\n\r", bytes[i - 1]))) { size_t j = i; while (j < bytes.size() && !strchr(" \t\n\r", bytes[j])) j++; if (j - i >= 2 && j - i < 80) names.push_back({i, j - i}); i = j; }
                if (!names.empty()) {
                    auto nm = names[(size_t) *g::range(0, 99999) % names.size()];
                    std::string t = bytes.substr(nm.first, nm.second), u; bool changed = false;
                    for (char ch : t) { if (ch >= 'a' && ch <= 'z') { u += (char) (ch - 32); changed = true; } else if (ch >= 'A' && ch <= 'Z') { u += (char) (ch + 32); changed = true; } else u += ch; }
                    if (changed) { bytes.insert(nm.first + nm.second, " " + u); label("respelled-duplicate-name"); }
                }
            }
            bool aligned = false;
            // an undecodable byte sequence (or a lone surrogate) right behind a token whose last character is the last character of a
            // 4096-byte read: the scanner's look-ahead behind the token then triggers the refill in which the decoding error is reported
            if (*g::chance(7)) {
                static const char *TOK[] = {"_v\n;line one\nline two\n;", "_v 'quoted'", "_v '''tri\nple'''", "_v \"\"\"x\"\"\"", "_v [a b]", "_v {'k':v}", "_v bare", "# a comment", "_v 'a'", "loop_ _p _q 1 2"};
                static const char *BAD[] = {"\n_w \xFF\n", " \xFFz\n", "\xFF", "\n_w 'a\xC0" "b'\n", "\n\xED\xA0\x80\n", "\n_w\n;\xFE\n;\n", " '''\xED\xA0\x80"};
                int k = *g::range(1, 3), d = *rc::gen::weightedElement<int>({{6, 0}, {2, -1}, {2, 1}});
                std::string tok = TOK[(size_t) *g::range(0, 9)], bad = BAD[(size_t) *g::range(0, 6)];
                std::string head = std::string(*g::chance(85) ? "#\\#CIF_2.0\n" : "") + "data_al\n";
                size_t want_end = (size_t) (4096 * k - 1 + d);                 // offset of the token's last character
                size_t fixed = head.size() + tok.size();
                std::string pad; while (fixed + pad.size() < want_end + 1) { size_t room = want_end + 1 - fixed - pad.size(); size_t n = std::min<size_t>(room, 61); if (n == 1) pad += "\n"; else { pad += "#"; pad += std::string(n - 2, 'p'); pad += "\n"; } }
                bytes = head + pad + tok + bad + (*g::chance(60) ? "_z 1\n" : "");   // (sometimes the undecodable sequence is the very end of the input)
                label("fill-aligned-undecodable"); aligned = true;
            }
            if (!aligned && *g::chance(80)) { auto ed = *rc::gen::container<std::vector<int>>((size_t) (3 * *g::range(1, 4)), g::range(0, 99999)); bytes = mutate(bytes, ed); label("mutated"); }
            int enc = *rc::gen::weightedElement<int>({{12, 0}, {2, 1}, {1, 2}, {1, 3}, {1, 4}});
            if (aligned) enc = 0;
            if (enc) { bytes = reencode(bytes, enc, *g::chance(70)); label(enc <= 2 ? "utf16" : "utf32"); }
            // known finding F-NAME_ (see classify): excluded by construction -- a lone '_' token gets a letter
            // (F-NAME_ -- a lone underscore as data name -- is fixed in /repo: nothing is excluded here any more)
            std::string ob; for (int i = 0; i < 12; i++) ob += (char) *g::range(0, 255);
            if (*g::chance(50)) { ob[0] = 1; ob[1] = 2; ob[2] = 1; ob[3] = 1; ob[4] = 0; ob[5] = 0; ob[6] = 0; ob[7] = 1; }   // default options half of the time
            if (aligned && *g::chance(40)) { ob[6] = (char) 200; ob[7] = 0; }   // forced CESU-8: its converter hands lone surrogates through one by one
            CaseFile c; c.set("input", bytes); c.set("optbytes", ob);
            VH_BEGIN(c);
            if (bytes.size() < 120) sample(esc(bytes) + "  [" + c03::Opts::decode((const unsigned char *) ob.data(), 12).str() + "]");
            std::string m = run_case(c);
            if (!m.empty()) { record_fail(c, m); RC_FAIL(m); }
        });
    };
    e.replay = run_case;
    e.classify = classify;
    return engine_main(argc, argv, e);
}
