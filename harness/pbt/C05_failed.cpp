#define HISTORY_MODE 5
#include "C04_history.cpp"
