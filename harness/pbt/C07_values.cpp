// C07: values stored in a CIF are read back identical (kind, text, quoted, numeric value and su, recursive
// structure, key spelling), through every store route x read route, independent of the caller's object.
#include "../common/gens.hpp"
#include "verif_alloc.h"
using namespace vh;
using cm::Value;

static const UChar N_X[] = u"_x", N_Y[] = u"_y";
static const char *STORE[] = {"set_value-new", "set_value-looped", "loop_add_item", "add_packet", "iterator-update"};
static const char *READ[] = {"get_value-new", "get_value-into-existing", "packet-iteration", "walk", "packet-iteration-into-unrelated-packet"};

struct WalkCtx { std::vector<Value> seen; int rc = CIF_OK; };
static int w_item(UChar *name, cif_value_tp *value, void *ctx) {
    WalkCtx *w = (WalkCtx *) ctx;
    if (name && ustr((const char16_t *) name) == u"_x") { Value v; int rc = cm::from_cif(value, v); if (rc != CIF_OK) { w->rc = rc; return rc; } w->seen.push_back(v); }
    return CIF_TRAVERSE_CONTINUE;
}

#define CK(call) do { int rc_ = (call); if (rc_ != CIF_OK) { msg = std::string(#call) + " returned " + cm::code_name(rc_); goto done; } } while (0)

static std::string numeric_sig(cif_value_tp *v) {
    double d = 0, su = 0; char b[96];
    int r1 = cif_value_get_number(v, &d), r2 = cif_value_get_su(v, &su);
    uint64_t a, c; memcpy(&a, &d, 8); memcpy(&c, &su, 8);
    snprintf(b, sizeof b, "%d:%016llx/%d:%016llx", r1, (unsigned long long) a, r2, (unsigned long long) c);
    return b;
}

static std::string run_case(const CaseFile &c) {
    Value model;
    if (!cm::parse_value(c.get("value"), model)) return "bad case file (value)";
    int store = (int) c.geti("store"), readr = (int) c.geti("read");
    std::string msg, want = cm::ser(model), numsig;
    label(std::string("store:") + STORE[store]); label(std::string("read:") + READ[readr]);
    label(std::string("kind:") + (model.k == Value::CHAR ? "char" : model.k == Value::NUMB ? "numb" : model.k == Value::LIST ? "list" : model.k == Value::TABLE ? "table" : model.k == Value::NA ? "na" : "unk"));
    bool nt = model.depth() >= 2 || model.text.size() > 256 || want.find("\"\":") != std::string::npos || want.find("L[]") != std::string::npos || want.find("T{}") != std::string::npos
              || (model.k == Value::NUMB && (model.text.find(u'(') != ustr::npos || model.text.find_first_of(u"eE+") != ustr::npos || model.text[0] == u'0' || model.text.back() == u'.'));
    if (nt) nontrivial(fnv(c.get("value") + "|" + std::to_string(store) + "|" + std::to_string(readr)));
    if (model.depth() >= 2) label("depth>=2");
    if (want.size() > 512) label("serialized>512");

    CaseGuard guard;
    cif_tp *cif = nullptr; cif_block_tp *blk = nullptr; cif_loop_tp *loop = nullptr; cif_value_tp *v = nullptr, *got = nullptr;
    cif_packet_tp *pkt = nullptr; cif_pktitr_tp *it = nullptr;
    UChar *names_xy[] = {(UChar *) N_X, (UChar *) N_Y, nullptr}, *names_y[] = {(UChar *) N_Y, nullptr}, *names_x[] = {(UChar *) N_X, nullptr};
    std::vector<Value> reads;
    CK(cif_create(&cif));
    CK(cif_create_block(cif, u"b", &blk));
    CK(cm::to_cif(model, &v));
    if (model.k == Value::NUMB) numsig = numeric_sig(v);
    switch (store) {
    case 0: CK(cif_container_set_value(blk, N_X, v)); break;
    case 1:
        CK(cif_container_create_loop(blk, u"cat", names_xy, &loop));
        CK(cif_packet_create(&pkt, names_xy));
        CK(cif_loop_add_packet(loop, pkt)); CK(cif_loop_add_packet(loop, pkt));
        CK(cif_container_set_value(blk, N_X, v));
        break;
    case 2:
        CK(cif_container_create_loop(blk, nullptr, names_y, &loop));
        CK(cif_packet_create(&pkt, names_y));
        CK(cif_loop_add_packet(loop, pkt)); CK(cif_loop_add_packet(loop, pkt));
        CK(cif_loop_add_item(loop, N_X, v));
        break;
    case 3:
        CK(cif_container_create_loop(blk, nullptr, names_xy, &loop));
        CK(cif_packet_create(&pkt, names_xy));
        CK(cif_packet_set_item(pkt, N_X, v));
        CK(cif_loop_add_packet(loop, pkt));
        break;
    case 4: {
        CK(cif_container_create_loop(blk, nullptr, names_xy, &loop));
        CK(cif_packet_create(&pkt, names_xy));
        CK(cif_loop_add_packet(loop, pkt)); CK(cif_loop_add_packet(loop, pkt));
        cif_packet_free(pkt); pkt = nullptr;
        CK(cif_packet_create(&pkt, names_x));
        CK(cif_packet_set_item(pkt, N_X, v));
        CK(cif_loop_get_packets(loop, &it));
        int rc;
        while ((rc = cif_pktitr_next_packet(it, nullptr)) == CIF_OK) CK(cif_pktitr_update_packet(it, pkt));
        if (rc != CIF_FINISHED) { msg = std::string("next_packet returned ") + cm::code_name(rc); goto done; }
        rc = cif_pktitr_close(it); it = nullptr;
        if (rc != CIF_OK) { msg = std::string("pktitr_close returned ") + cm::code_name(rc); goto done; }
        break; }
    }
    // independence: wreck and release the caller's objects before reading anything back
    if (model.k == Value::LIST || model.k == Value::TABLE) { CK(cif_value_init(v, model.k == Value::LIST ? CIF_TABLE_KIND : CIF_LIST_KIND)); }
    else CK(cif_value_copy_char(v, u"clobbered"));
    cif_value_free(v); v = nullptr;
    cif_packet_free(pkt); pkt = nullptr;
    if (loop) { cif_loop_free(loop); loop = nullptr; }

    for (int pass = 0; pass < 2 && msg.empty(); pass++) {   // second pass: after the first read-back copy was itself wrecked
        reads.clear();
        switch (readr) {
        case 0: case 1: {
            if (readr == 1) { Value pre = Value::table({{u"old", Value::list({Value::chr(u"z")})}}); CK(cm::to_cif(pre, &got)); }
            int rc = cif_container_get_value(blk, N_X, &got);
            int wantrc = (store == 0 || store == 3) ? CIF_OK : CIF_AMBIGUOUS_ITEM;
            if (rc != wantrc) { msg = std::string("get_value returned ") + cm::code_name(rc) + ", expected " + cm::code_name(wantrc); goto done; }
            Value r; CK(cm::from_cif(got, r)); reads.push_back(r);
            { std::string ne = cm::numbers_consistent(got, "value read back by cif_container_get_value"); if (!ne.empty()) { msg = ne; goto done; } }
            if (model.k == Value::NUMB && numeric_sig(got) != numsig) { msg = "numeric value/su differ: stored " + numsig + " read " + numeric_sig(got); goto done; }
            // wreck the copy we were given; must not affect the stored value
            CK(cif_value_copy_char(got, u"wrecked-copy"));
            cif_value_free(got); got = nullptr;
            break; }
        case 2: case 4: {
            if (readr == 4) {   // the caller's packet holds an unrelated item (with a value of its own) and none of the loop's names
                UChar *un[] = {(UChar *) u"_unrelated", nullptr}; cif_value_tp *uv = nullptr;
                CK(cif_packet_create(&pkt, un)); CK(cif_value_create(CIF_UNK_KIND, &uv));
                int r1 = cif_value_copy_char(uv, u"unrelated text"), r2 = r1 == CIF_OK ? cif_packet_set_item(pkt, u"_unrelated", uv) : r1;
                cif_value_free(uv); CK(r2);
            }
            CK(cif_container_get_item_loop(blk, N_X, &loop));
            CK(cif_loop_get_packets(loop, &it));
            int rc;
            while ((rc = cif_pktitr_next_packet(it, &pkt)) == CIF_OK) {
                cif_value_tp *m = nullptr; Value r;
                CK(cif_packet_get_item(pkt, N_X, &m));
                CK(cm::from_cif(m, r)); reads.push_back(r);
                { std::string ne = cm::numbers_consistent(m, "value delivered by packet iteration"); if (!ne.empty()) { msg = ne; goto done; } }
                if (model.k == Value::NUMB && numeric_sig(m) != numsig) { msg = "numeric value/su differ: stored " + numsig + " read " + numeric_sig(m); goto done; }
                CK(cif_value_init(m, CIF_NA_KIND));   // modifying the delivered packet must not touch the store
            }
            if (rc != CIF_FINISHED) { msg = std::string("next_packet returned ") + cm::code_name(rc); goto done; }
            rc = cif_pktitr_abort(it); it = nullptr;
            if (rc != CIF_OK) { msg = std::string("pktitr_abort returned ") + cm::code_name(rc); goto done; }
            cif_packet_free(pkt); pkt = nullptr; cif_loop_free(loop); loop = nullptr;
            break; }
        case 3: {
            WalkCtx w; cif_handler_tp h; memset(&h, 0, sizeof h); h.handle_item = w_item;
            CK(cif_walk(cif, &h, &w));
            if (w.rc != CIF_OK) { msg = "from_cif failed in walk"; goto done; }
            reads = w.seen;
            break; }
        }
        size_t expect_n = (readr <= 1) ? 1 : ((store == 0 || store == 3) ? 1 : 2);
        if (reads.size() != expect_n) { msg = "read " + std::to_string(reads.size()) + " values, expected " + std::to_string(expect_n); goto done; }
        for (auto &r : reads) if (cm::ser(r) != want) { msg = "read-back differs (pass " + std::to_string(pass) + "): stored " + want + " read " + cm::ser(r); goto done; }
    }
done:
    if (it) (void) cif_pktitr_abort(it);
    cif_packet_free(pkt); cif_value_free(v); cif_value_free(got);
    if (loop) cif_loop_free(loop);
    if (blk) cif_container_free(blk);
    if (cif) { int rc = cif_destroy(cif); if (rc != CIF_OK && msg.empty()) msg = std::string("cif_destroy returned ") + cm::code_name(rc); }
    if (msg.empty()) msg = guard.check();
    return msg;
}

// known finding F-FFFF-SCALAR: a top-level CHAR value whose text contains U+FFFE or U+FFFF (SQLite's UTF-8 decoder
// replaces them by U+FFFD).  Members of lists/tables travel in a binary serialisation and are not affected.
static bool has_ffff(const Value &v) {
    if (v.k != Value::CHAR) return false;
    for (char16_t ch : v.text) if (ch == 0xFFFE || ch == 0xFFFF) return true;
    return false;
}

// known finding F-BOM-SCALAR: a top-level CHAR value whose text starts with U+FEFF loses that character (SQLite
// takes a leading U+FEFF of UTF-16 text for a byte-order mark and strips it).
static bool has_lead_bom(const Value &v) { return v.k == Value::CHAR && !v.text.empty() && v.text[0] == 0xFEFF; }

int main(int argc, char **argv) {
    Engine e;
    e.name = "C07_values";
    e.run = []() {
        { cif_tp *w = nullptr; if (cif_create(&w) == CIF_OK) (void) cif_destroy(w); }   // warm up lazy global initialisation
        return rc::check("C07 stored values read back identical", []() {
            g::ValueOpts o; o.prof = g::P_ANY; o.keyprof = g::P_CIF2; o.maxlen = 700; o.maxdepth = 5; o.maxmembers = 6;
            Value v = *g::value(o, 0);
            if (has_ffff(v)) {   // known finding F-FFFF-SCALAR: excluded by construction (counted), witness replayed separately
                count_excluded("F-FFFF-SCALAR");
                for (auto &ch : v.text) if (ch == 0xFFFE || ch == 0xFFFF) ch = 0xFFFC;
            }
            if (has_lead_bom(v)) { count_excluded("F-BOM-SCALAR"); v.text[0] = 0x2060; }
            CaseFile c; c.set("value", cm::ser(v)); c.seti("store", *g::range(0, 4)); c.seti("read", *g::range(0, 4));
            VH_BEGIN(c);
            if (c.get("value").size() < 300) sample(c.get("value") + " store=" + STORE[c.geti("store")] + " read=" + READ[c.geti("read")]);
            std::string m = run_case(c);
            if (!m.empty()) { record_fail(c, m); RC_FAIL(m); }
        });
    };
    e.replay = run_case;
    e.classify = [](const CaseFile &c) {
        Value v; if (!cm::parse_value(c.get("value"), v)) return std::string();
        if (has_ffff(v)) return std::string("F-FFFF-SCALAR");
        return has_lead_bom(v) ? std::string("F-BOM-SCALAR") : std::string();
    };
    return engine_main(argc, argv, e);
}
