// C20: every result code defined in cif.h has its own correct message in cif_errlist.
// Finite domain -> exhaustive enumeration.  The codes are scraped at run time from the header of the
// tree under test (so a code added later without a message is found); the oracle is a committed table
// of word stems derived from each code's @brief documentation.
#include "../common/vh.hpp"
#include <algorithm>
#include <cstring>
#include <fstream>
#include <regex>
#include <sstream>
extern "C" {
extern const char cif_errlist[][80];
extern const int cif_nerr;
}
using namespace vh;

struct Rule { const char *name; std::vector<std::vector<const char *>> need; std::vector<const char *> forbid; };
static const std::vector<Rule> RULES = {
    {"CIF_OK", {{"no error", "success", "ok"}}, {}},
    {"CIF_FINISHED", {{"finish", "complete", "exhaust"}}, {}},
    {"CIF_ERROR", {{"unspecified", "general", "generic", "unknown"}}, {"memory", "handle", "internal", "argument"}},
    {"CIF_MEMORY_ERROR", {{"memory", "alloc"}}, {}},
    {"CIF_INVALID_HANDLE", {{"handle"}}, {}},
    {"CIF_INTERNAL_ERROR", {{"internal", "bug", "inconsisten"}}, {}},
    {"CIF_ARGUMENT_ERROR", {{"argument"}}, {}},
    {"CIF_MISUSE", {{"use", "context", "not allowed"}}, {"argument", "support"}},
    {"CIF_NOT_SUPPORTED", {{"support"}}, {}},
    {"CIF_ENVIRONMENT_ERROR", {{"environment"}}, {}},
    {"CIF_CLIENT_ERROR", {{"client", "application", "user", "callback"}}, {}},
    {"CIF_DUP_BLOCKCODE", {{"dup"}, {"block"}}, {"frame"}},
    {"CIF_INVALID_BLOCKCODE", {{"invalid"}, {"block"}}, {"frame"}},
    {"CIF_NOSUCH_BLOCK", {{"no ", "not "}, {"block"}}, {"outside"}},
    {"CIF_DUP_FRAMECODE", {{"dup"}, {"frame"}}, {}},
    {"CIF_INVALID_FRAMECODE", {{"invalid"}, {"frame"}}, {}},
    {"CIF_NOSUCH_FRAME", {{"no ", "not "}, {"frame"}}, {"terminator", "disabled"}},
    {"CIF_CAT_NOT_UNIQUE", {{"categor"}, {"uniq", "multiple", "more than one"}}, {}},
    {"CIF_INVALID_CATEGORY", {{"categor"}, {"invalid"}}, {}},
    {"CIF_NOSUCH_LOOP", {{"no ", "not "}, {"loop"}}, {"data", "belong"}},
    {"CIF_RESERVED_LOOP", {{"scalar", "reserved"}}, {"word"}},
    {"CIF_WRONG_LOOP", {{"loop"}, {"belong", "wrong", "different"}}, {}},
    {"CIF_EMPTY_LOOP", {{"loop"}, {"no data", "packet", "empty", "no values"}}, {"name"}},
    {"CIF_NULL_LOOP", {{"loop"}, {"name"}}, {}},
    {"CIF_DUP_ITEMNAME", {{"dup"}, {"item", "name"}}, {}},
    {"CIF_INVALID_ITEMNAME", {{"invalid"}, {"item", "name"}}, {}},
    {"CIF_NOSUCH_ITEM", {{"no ", "not "}, {"item"}}, {"belong"}},
    {"CIF_AMBIGUOUS_ITEM", {{"several", "multiple", "ambiguous", "one of"}}, {}},
    {"CIF_INVALID_PACKET", {{"packet"}, {"valid"}}, {}},
    {"CIF_PARTIAL_PACKET", {{"packet"}, {"few", "partial", "incomplete", "short"}}, {}},
    {"CIF_DISALLOWED_VALUE", {{"value"}, {"type", "kind", "allow"}}, {}},
    {"CIF_INVALID_NUMBER", {{"number", "numeric"}}, {}},
    {"CIF_INVALID_INDEX", {{"index", "key"}}, {"missing", "unquoted", "null", "text"}},
    {"CIF_INVALID_BARE_VALUE", {{"bare", "quoted"}}, {"key", "reserved"}},
    {"CIF_INVALID_CHAR", {{"invalid", "illegal", "malformed"}, {"char", "encod", "sequence"}}, {}},
    {"CIF_UNMAPPED_CHAR", {{"unmap", "no representation"}}, {}},
    {"CIF_DISALLOWED_CHAR", {{"char"}, {"allow"}}, {"first", "initial"}},
    {"CIF_MISSING_SPACE", {{"whitespace", "space"}}, {}},
    {"CIF_MISSING_ENDQUOTE", {{"quote"}, {"terminat", "clos", "missing"}}, {}},
    {"CIF_UNCLOSED_TEXT", {{"multi", "text"}, {"terminat", "clos"}}, {"quoted string"}},
    {"CIF_OVERLENGTH_LINE", {{"line"}, {"length", "long"}}, {}},
    {"CIF_DISALLOWED_INITIAL_CHAR", {{"first", "initial"}, {"char"}}, {}},
    {"CIF_WRONG_ENCODING", {{"encoding"}}, {}},
    {"CIF_NO_BLOCK_HEADER", {{"block"}, {"outside", "before", "header"}}, {}},
    {"CIF_FRAME_NOT_ALLOWED", {{"frame"}, {"disabled", "allow"}}, {}},
    {"CIF_NO_FRAME_TERM", {{"frame"}, {"terminator"}, {"missing", "omitted"}}, {}},
    {"CIF_UNEXPECTED_TERM", {{"frame"}, {"terminator"}, {"expected"}}, {"missing"}},
    {"CIF_EOF_IN_FRAME", {{"end of", "eof"}, {"frame"}}, {}},
    {"CIF_RESERVED_WORD", {{"reserved"}}, {}},
    {"CIF_MISSING_VALUE", {{"missing"}, {"value"}}, {}},
    {"CIF_UNEXPECTED_VALUE", {{"unexpected"}, {"value"}}, {}},
    {"CIF_UNEXPECTED_DELIM", {{"delimiter"}, {"misplaced", "unexpected"}}, {}},
    {"CIF_MISSING_DELIM", {{"delimiter"}, {"missing"}}, {}},
    {"CIF_MISSING_KEY", {{"key"}, {"missing"}}, {}},
    {"CIF_UNQUOTED_KEY", {{"key"}, {"unquoted"}}, {}},
    {"CIF_MISQUOTED_KEY", {{"key"}, {"text"}}, {}},
    {"CIF_NULL_KEY", {{"key"}, {"null"}}, {}},
};

static std::string lower(std::string s) { for (auto &c : s) c = (char) tolower((unsigned char) c); return s; }

struct Code { std::string name; long n; };
static std::vector<Code> scrape(std::string &err) {
    std::string repo = getenv("VERIF_REPO") ? getenv("VERIF_REPO") : "/repo";
    std::ifstream f(repo + "/src/cif.h");
    std::vector<Code> out;
    if (!f) { err = "cannot open cif.h"; return out; }
    std::stringstream ss; ss << f.rdbuf();
    std::string all = ss.str();
    size_t b = all.find("@defgroup return_codes");
    if (b == std::string::npos) { err = "no return_codes group in cif.h"; return out; }
    size_t e = all.find("@defgroup", b + 10);
    std::string grp = all.substr(b, e == std::string::npos ? std::string::npos : e - b);
    // strip C comments (the group marker itself sits inside one: start in-comment)
    std::string code; bool inc = true;
    for (size_t i = 0; i < grp.size(); i++) {
        if (inc) { if (grp.compare(i, 2, "*/") == 0) { inc = false; i++; } else if (grp[i] == '\n') code += '\n'; }
        else if (grp.compare(i, 2, "/*") == 0) { inc = true; i++; }
        else code += grp[i];
    }
    std::istringstream in(code); std::string line;
    std::regex re("^\\s*#\\s*define\\s+(CIF_[A-Z0-9_]+)\\s+\\(?\\s*(-?(?:0[xX][0-9a-fA-F]+|[0-9]+))[uUlL]*\\s*\\)?\\s*$");
    while (std::getline(in, line)) {
        std::smatch m;
        if (std::regex_match(line, m, re)) {
            std::string n = m[1];
            if (n.rfind("CIF_TRAVERSE_", 0) == 0) continue;
            out.push_back({n, strtol(m[2].str().c_str(), nullptr, 0)});   // base 0: the literal is read as the C compiler reads it (052 is forty-two)
        }
    }
    return out;
}

// one case = one (name, number): returns "" or a failure description
static std::string check_code(const std::string &name, long n, const std::vector<Code> &all) {
    if (n < 0) return "negative code";
    if (n >= cif_nerr) return name + "=" + std::to_string(n) + " is not below cif_nerr=" + std::to_string(cif_nerr);
    const char *raw = cif_errlist[n];
    size_t len = strnlen(raw, 80);
    if (len == 0) return "cif_errlist[" + std::to_string(n) + "] (" + name + ") is empty";
    if (len >= 80) return "message not NUL-terminated within its 80-byte slot";
    std::string msg = lower(std::string(raw, len));
    const Rule *rule = nullptr;
    for (auto &r : RULES) if (name == r.name) rule = &r;
    if (rule) {
        for (auto &grp : rule->need) {
            bool any = false;
            for (auto s : grp) if (msg.find(s) != std::string::npos) any = true;
            if (!any) return "cif_errlist[" + std::to_string(n) + "]=\"" + std::string(raw, len) + "\" does not describe " + name + " (no stem of group starting '" + grp[0] + "')";
        }
        for (auto s : rule->forbid) if (msg.find(s) != std::string::npos)
            return "cif_errlist[" + std::to_string(n) + "]=\"" + std::string(raw, len) + "\" describes another condition than " + name + " (contains '" + s + "')";
    } else {
        // fallback for codes unknown to the table: some word of the macro name (>= 4 letters, stemmed to 4) must occur
        std::string w; bool any = false, had = false; std::string nm = lower(name.substr(4)) + "_";
        for (char c : nm) {
            if (c != '_') { w += c; continue; }
            if (w.size() >= 4) { had = true; if (msg.find(w.substr(0, 4)) != std::string::npos) any = true; }
            w.clear();
        }
        if (had && !any) return "message for new code " + name + " shares no word stem with its name: \"" + std::string(raw, len) + "\"";
    }
    for (auto &o : all) if (o.n == n && o.name != name) return name + " and " + o.name + " are the same number " + std::to_string(n) + ": they cannot each have their own message";
    for (auto &o : all) {
        if (o.n == n || o.n < 0 || o.n >= cif_nerr) continue;
        if (strncmp(cif_errlist[o.n], raw, 80) == 0) return name + " and " + o.name + " share one message";
    }
    return "";
}

static std::string run_case(const CaseFile &c) {
    std::string err; auto all = scrape(err);
    if (!err.empty()) return err;
    std::string name = c.get("name");
    long n = -1;
    for (auto &x : all) if (x.name == name) n = x.n;
    if (n < 0 && c.kv.count("code")) n = c.geti("code");   // code since removed from the header: still check its slot
    if (n < 0) return "";
    return check_code(name, n, all);
}

int main(int argc, char **argv) {
    Engine e;
    e.name = "C20_errlist";
    e.run = []() {
        std::string err; auto all = scrape(err);
        if (!err.empty() || all.size() < 20) { CaseFile c; c.set("name", "<scrape>"); begin_case(c); record_fail(c, "could not scrape result codes from cif.h: " + err); return false; }
        bool ok = true; bool recorded = false;
        for (auto &x : all) {
            CaseFile c; c.set("name", x.name); c.seti("code", x.n);
            begin_case(c);
            nontrivial(fnv(x.name));
            label(x.n < 100 ? "api-code" : "parse-code");
            sample(x.name + "=" + std::to_string(x.n) + " -> \"" + (x.n >= 0 && x.n < cif_nerr ? std::string(cif_errlist[x.n], strnlen(cif_errlist[x.n], 80)) : std::string("<out of table>")) + "\"");
            std::string m = check_code(x.name, x.n, all);
            if (!m.empty()) { ok = false; printf("MISMATCH %s\n", m.c_str()); if (!recorded) { record_fail(c, m); recorded = true; } }
        }
        note("codes_in_header", (long) all.size());
        note("exhaustive", 1);
        return ok;
    };
    e.replay = run_case;
    e.classify = [](const CaseFile &) { return std::string(); };
    return engine_main(argc, argv, e);
}
