#define WRITE_VERSION 1
#include "C02_write.cpp"
