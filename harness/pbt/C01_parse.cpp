// C01: a well-formed CIF 2.0 / CIF 1.1 document parses, silently, to exactly the content it denotes,
// whatever the layout.  Generator: abstract Doc x layout tape -> my own printer -> bytes.
// Oracle: dump(cif_parse(bytes)) == Doc (exact), zero error callbacks, CIF_OK (also with the default abort handler).
#include "../common/docgen.hpp"
#include "../common/parsehelp.hpp"
using namespace vh;

// core check on the low-level representation: bytes + expected canonical dump
static std::string check_bytes(const std::string &bytes, const std::string &expected, int dialect) {
    CaseGuard guard;
    std::string msg;
    struct cif_parse_opts_s *opts = nullptr;
    cif_tp *cif = nullptr;
    ph::ErrLog log;
    if (cif_parse_options_create(&opts) != CIF_OK) return "cif_parse_options_create failed";
    int rc = ph::parse_bytes(bytes, opts, &cif, &log);
    if (!log.errs.empty()) msg = "well-formed document triggered the error callback: " + ph::errs_str(log);
    else if (rc != CIF_OK) msg = std::string("cif_parse returned ") + cm::code_name(rc);
    else if (!cif) msg = "no CIF produced";
    else {
        cm::Doc got; int drc = cm::dump(cif, got);
        if (drc != CIF_OK) msg = std::string("dump failed: ") + cm::code_name(drc);
        else { std::string g = cm::ser(got); if (g != expected) msg = "parsed content differs from the denoted content\n--- expected\n" + expected + "--- got\n" + g; }
    }
    if (cif) { int d = cif_destroy(cif); if (d != CIF_OK && msg.empty()) msg = "cif_destroy failed"; }
    cm::ufree(opts);
    if (msg.empty()) {   // default options object absent: abort-on-error handler, must also succeed
        cif_tp *c2 = nullptr; FILE *f = ph::mem_file(bytes);
        int rc2 = cif_parse(f, nullptr, &c2); fclose(f);
        if (rc2 != CIF_OK) msg = std::string("cif_parse with NULL options returned ") + cm::code_name(rc2);
        if (c2) (void) cif_destroy(c2);
    }
    if (msg.empty()) {   // syntax-only parse must be silent too
        FILE *f = ph::mem_file(bytes); int rc3 = cif_parse(f, nullptr, nullptr); fclose(f);
        if (rc3 != CIF_OK) msg = std::string("syntax-only cif_parse returned ") + cm::code_name(rc3);
    }
    (void) dialect;
    if (msg.empty()) msg = guard.check();
    return msg;
}

static std::string run_case(const CaseFile &c) {
    if (c.kv.count("bytes")) return check_bytes(c.get("bytes"), c.get("expected"), (int) c.geti("dialect", 2));
    return "bad case file";
}

static bool make_case(const cm::Doc &d, const std::vector<uint32_t> &tp, const cp::PrintOpts &po, CaseFile &c, cp::PrintInfo &info) {
    cp::Tape tape; tape.t = tp;
    std::string bytes = cp::print(d, tape, po, info);
    if (!info.ok) return false;
    c.set("bytes", bytes); c.set("expected", cm::ser(d)); c.seti("dialect", po.dialect);
    c.set("doc", cm::ser_plain(d));
    return true;
}

static void classify_case(const CaseFile &c, const cp::PrintInfo &info, const cm::Doc &d) {
    for (auto &l : info.labels) label(l);
    bool nonbmp = false, nested = false;
    const std::string &b = c.get("bytes");
    for (unsigned char ch : b) if (ch >= 0xF0) nonbmp = true;
    if (info.labels.count("list") || info.labels.count("table")) nested = true;
    if (nonbmp) label("nonbmp");
    if (b.size() > 4096) label("bytes>4096");
    bool nt = info.delim_kinds >= 3 || info.labels.count("fold") || info.labels.count("prefix") || info.labels.count("fold+prefix") || nested || nonbmp;
    if (nt) nontrivial(fnv(b));
    (void) d;
}

int main(int argc, char **argv) {
    Engine e;
    e.name = "C01_parse";
    e.run = []() {
        { cif_tp *w = nullptr; if (cif_create(&w) == CIF_OK) (void) cif_destroy(w); }
        bool ok = rc::check("C01 CIF 2.0 documents parse to their denotation", []() {
            g::DocOpts o; o.dialect = cp::CIF2; o.vo.prof = g::P_CIF2; o.vo.numb_kind = false; o.vo.maxlen = 40; o.vo.maxdepth = 3; o.long_values = true;
            cm::Doc d = *g::doc(o);
            auto tp = *g::tape();
            cp::PrintOpts po; po.dialect = cp::CIF2; po.booster = *g::chance(30); po.bom = *g::chance(10);
            CaseFile c; cp::PrintInfo info;
            if (!make_case(d, tp, po, c, info)) { count_excluded("unprintable"); RC_DISCARD("unprintable"); }
            // 3%: one token longer than the scanner's whole buffer (131200 code units) -- a text field, a triple-quoted string, or a run of
            // insignificant whitespace -- appended as a data block of its own; the items after it show whether the tail of the input survives
            int huge = *rc::gen::weightedElement<int>({{97, 0}, {1, 1}, {1, 2}, {1, 3}});
            if (huge) {
                int nlines = *g::range(90, 220), base = *g::range(700, 1400); uint32_t r = (uint32_t) *g::range(0, 0x3fffffff);
                ustr text; std::string body;
                for (int i = 0; i < nlines; i++) {
                    size_t len = (size_t) (base + (int) ((r >> (i % 20)) & 511));
                    char ch = (char) ('a' + (i + (int) (r & 7)) % 26);
                    if (i) { text += u'\n'; body += '\n'; }
                    text += ustr(len, (char16_t) ch); body += std::string(len, ch);
                }
                cm::Container hb; hb.code = u"hugeblk"; cm::Loop sl; sl.has_cat = true;
                std::string add = "\ndata_hugeblk\n_before_huge 1\n";
                sl.names.push_back(u"_before_huge"); sl.rows.push_back({cm::Value::chr(u"1", false)});
                if (huge == 1) { add += "_huge\n;" + body + "\n;\n"; sl.names.push_back(u"_huge"); sl.rows[0].push_back(cm::Value::chr(text, true)); label("huge:text-field"); }
                else if (huge == 2) { add += "_huge \"\"\"" + body + "\"\"\"\n"; sl.names.push_back(u"_huge"); sl.rows[0].push_back(cm::Value::chr(text, true)); label("huge:triple-quoted"); }
                else { std::string ws; for (int i = 0; i < nlines; i++) { ws += std::string((size_t) (base + (int) ((r >> (i % 20)) & 511)), i % 7 == 3 ? '\t' : ' '); ws += '\n'; } add += ws; label("huge:whitespace-run"); }
                add += "_after_huge 2\n";
                sl.names.push_back(u"_after_huge"); sl.rows[0].push_back(cm::Value::chr(u"2", false));
                hb.loops.push_back(sl);
                cm::Doc d2 = d; d2.blocks.push_back(hb);
                c.set("bytes", c.get("bytes") + add); c.set("expected", cm::ser(d2)); c.set("doc", cm::ser_plain(d2));
            }
            VH_BEGIN(c);
            classify_case(c, info, d);
            label("cif2");
            if (c.get("bytes").size() < 400) sample(c.get("bytes"));
            std::string m = run_case(c);
            if (!m.empty()) { record_fail(c, m); RC_FAIL(m); }
        });
        if (!ok) return false;
        return rc::check("C01 CIF 1.1 documents parse to their denotation", []() {
            g::DocOpts o; o.dialect = cp::CIF11; o.vo.prof = g::P_CIF11; o.vo.numb_kind = false; o.vo.composites = false; o.vo.maxlen = 40; o.long_values = false;
            cm::Doc d = *g::doc(o);
            auto tp = *g::tape();
            cp::PrintOpts po; po.dialect = cp::CIF11; po.magic = *g::range(0, 2); po.protocols = false;
            CaseFile c; cp::PrintInfo info;
            if (!make_case(d, tp, po, c, info)) { count_excluded("unprintable"); RC_DISCARD("unprintable"); }
            VH_BEGIN(c);
            classify_case(c, info, d);
            label("cif11");
            if (c.get("bytes").size() < 300) sample(c.get("bytes"));
            std::string m = run_case(c);
            if (!m.empty()) { record_fail(c, m); RC_FAIL(m); }
        });
    };
    e.replay = run_case;
    e.classify = [](const CaseFile &) { return std::string(); };
    return engine_main(argc, argv, e);
}
