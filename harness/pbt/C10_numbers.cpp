// C10: number text <-> double conversions are correctly rounded.
//  (a) ACCEPTANCE   cif_value_parse_numb accepts exactly CIF numeric syntax; a refusal is CIF_INVALID_NUMBER and leaves the value alone
//  (b) TEXT->DOUBLE cif_value_get_number / cif_value_get_su == correctly rounded (ties-to-even) double of the decimal quantity
//  (c) DOUBLE->TEXT cif_value_init_numb / cif_value_autoinit_numb render val and su correctly rounded at the scale; text parses back
// Oracles (all independent of value.c): a hand-written recogniser of the CIF number grammar; glibc strtod() (correctly rounded in
// every rounding mode) for decimal->binary; glibc printf("%.1100f") (exact) plus my own half-even decimal rounding on digit strings
// for binary->decimal.
#include "../common/gens.hpp"
#include <cfenv>
#include <cfloat>
#include <cmath>
#include <cstring>
#include <clocale>
using namespace vh;
using cm::Value;

// ASan records the call stack of every malloc/free in a depot that never shrinks; under rapidcheck's deep, ever-varying call chains
// that depot grew by ~20 KB per case (gigabytes in the thorough tier) and tripled the run time.  A short context is enough to
// diagnose errors inside the (shallow) library.  Options given in the ASAN_OPTIONS environment variable still take precedence.
extern "C" const char *__asan_default_options() { return "malloc_context_size=6"; }

static_assert(LDBL_MANT_DIG >= 64, "midpoints of adjacent doubles are built exactly in long double");
static bool no_exclude() { static int t = -1; if (t < 0) { const char *e = getenv("VERIF_C10_NOEXCLUDE"); t = (e && *e == '1') ? 1 : 0; } return t == 1; }   // development aid: search the known-finding classes too (to confirm a fix)

// ------------------------------------------------------------------------------------------------------------------
// independent recogniser of CIF numeric syntax:  [+-]? ( D+ ('.' D*)? | '.' D+ ) ( [eE] [+-]? D+ )? ( '(' D+ ')' )?
struct Num {
    bool ok = false;
    bool neg = false, has_sign = false;
    std::string mant;        // mantissa digits without the point
    int nfrac = 0;           // digits right of the point
    bool has_point = false, has_exp = false, exp_neg = false;
    std::string expd;        // exponent digits
    bool has_su = false;
    std::string su;          // su digits
    size_t su_open = 0;      // index of '(' in the text
    long expo() const {      // exponent value; only meaningful when expd has <= 18 digits
        if (!has_exp) return 0;
        long v = 0; for (char ch : expd) v = v * 10 + (ch - '0');
        return exp_neg ? -v : v;
    }
};
static inline bool isd(char16_t c) { return c >= u'0' && c <= u'9'; }
static Num parse_num(const ustr &s) {
    Num n; size_t i = 0, len = s.size();
    if (i < len && (s[i] == u'+' || s[i] == u'-')) { n.has_sign = true; n.neg = s[i] == u'-'; i++; }
    size_t nint = 0;
    while (i < len && isd(s[i])) { n.mant += (char) s[i]; i++; nint++; }
    if (i < len && s[i] == u'.') {
        n.has_point = true; i++;
        while (i < len && isd(s[i])) { n.mant += (char) s[i]; i++; n.nfrac++; }
    }
    if (n.mant.empty()) return n;
    if (i < len && (s[i] == u'e' || s[i] == u'E')) {
        n.has_exp = true; i++;
        if (i < len && (s[i] == u'+' || s[i] == u'-')) { n.exp_neg = s[i] == u'-'; i++; }
        while (i < len && isd(s[i])) { n.expd += (char) s[i]; i++; }
        if (n.expd.empty()) return n;
    }
    if (i < len && s[i] == u'(') {
        n.has_su = true; n.su_open = i; i++;
        while (i < len && isd(s[i])) { n.su += (char) s[i]; i++; }
        if (n.su.empty() || i >= len || s[i] != u')') return n;
        i++;
    }
    if (i != len) return n;
    n.ok = true;
    return n;
}
static std::string strip0(const std::string &d) { size_t p = d.find_first_not_of('0'); return p == std::string::npos ? std::string("0") : d.substr(p); }
static bool all0(const std::string &d) { return d.find_first_not_of('0') == std::string::npos; }

// known finding F-EXPOVF: an exponent whose value exceeds INT_MAX overflows 'int' in cif_value_parse_numb
static bool expovf_text(const ustr &s) {
    for (size_t i = 0; i < s.size(); i++) {
        if (s[i] != u'e' && s[i] != u'E') continue;
        size_t j = i + 1;
        if (j < s.size() && (s[j] == u'+' || s[j] == u'-')) j++;
        std::string d;
        while (j < s.size() && isd(s[j])) d += (char) s[j++];
        d = strip0(d);
        if (d.size() > 10 || (d.size() == 10 && d > "2147483647")) return true;
    }
    return false;
}

// ------------------------------------------------------------------------------------------------------------------
// decimal -> double reference.  cls: 0 = magnitude is zero or inside the normal range [DBL_MIN, DBL_MAX] (property applies),
// 1 = non-zero below DBL_MIN, 2 = above DBL_MAX.  The bracket [lo, hi] comes from strtod in the two directed modes.
struct Ref { double v = 0; int cls = 0; bool exact = false; int tie = 0; };   // tie: 1 = exact midpoint, nearest-even is the lower neighbour; 2 = ... the upper
static void exact_ld(long double m, std::string &D, long &E);
static Ref ref_of(const std::string &digits, long e10) {     // magnitude digits * 10^e10
    Ref r;
    if (all0(digits)) { r.v = 0; r.exact = true; return r; }
    std::string s = digits + "e" + std::to_string(e10);
    char *end = nullptr;
    r.v = strtod(s.c_str(), &end);
    fesetround(FE_DOWNWARD); double lo = strtod(s.c_str(), nullptr);
    fesetround(FE_UPWARD); double hi = strtod(s.c_str(), nullptr);
    fesetround(FE_TONEAREST);
    r.exact = lo == hi;
    if (lo < DBL_MIN) r.cls = 1;
    else if (std::isinf(hi)) r.cls = 2;
    else if (!r.exact) {
        // exact midpoint of the bracketing doubles?  (lo + hi) / 2 is exact in long double; compare decimal expansions
        std::string Dm, Dn = digits; long Em = 0, En = e10;
        exact_ld(((long double) lo + (long double) hi) / 2, Dm, Em);
        size_t p = Dn.find_first_not_of('0'); Dn.erase(0, p);
        while (Dn.size() > 1 && Dn.back() == '0') { Dn.pop_back(); En++; }
        if (Dm == Dn && Em == En) r.tie = r.v == lo ? 1 : 2;
    }
    return r;
}

// what the text denotes, per the oracle
struct Denot { Ref val, su; bool neg = false; std::string err; };
static Denot denote(const ustr &text, const Num &n) {
    Denot d; d.neg = n.neg;
    long X = n.expo();
    d.val = ref_of(n.mant, X - n.nfrac);
    if (n.has_su) d.su = ref_of(n.su, X - n.nfrac); else { d.su.v = 0; d.su.exact = true; }
    // self-check of the oracle: strtod on the literal text with the "(su)" part removed must agree
    std::string lit; for (size_t i = 0; i < (n.has_su ? n.su_open : text.size()); i++) lit += (char) text[i];
    char *end = nullptr; double a = strtod(lit.c_str(), &end);
    if (!end || *end) d.err = "oracle self-check: strtod did not consume '" + lit.substr(0, 60) + "'";
    else if (std::fabs(a) != d.val.v) d.err = "oracle self-check: strtod(text) and strtod(digits e exp) disagree for '" + lit.substr(0, 60) + "'";
    return d;
}

static std::string hexd(double d) { uint64_t u; memcpy(&u, &d, 8); char b[64]; snprintf(b, sizeof b, "%.17g [%016llx]", d, (unsigned long long) u); return b; }
static std::string bits_ser(double d) { uint64_t u; memcpy(&u, &d, 8); char b[24]; snprintf(b, sizeof b, "%016llx", (unsigned long long) u); return b; }
static double bits_de(const std::string &s) { uint64_t u = strtoull(s.c_str(), nullptr, 16); double d; memcpy(&d, &u, 8); return d; }
static std::string clip(const std::string &s, size_t n = 120) { return s.size() <= n ? s : s.substr(0, n) + "...(" + std::to_string(s.size()) + " chars)"; }

// compare get_number / get_su of a NUMB (or coercible CHAR) value with the oracle; "" = ok.  Results outside the domain
// of the property (subnormal / overflow) are only labelled.
// known finding F-TIE-ODD: an exact tie whose lower neighbour has an odd significand is rounded down instead of to even
static bool odd_tie_text(const ustr &text) {
    Num n = parse_num(text);
    if (!n.ok || n.expd.size() > 18) return false;
    long X = n.expo();
    if (ref_of(n.mant, X - n.nfrac).tie == 2) return true;
    return n.has_su && ref_of(n.su, X - n.nfrac).tie == 2;
}
static std::string check_value_su(cif_value_tp *v, const ustr &text, const Num &n, const char *what, bool skip_known = false) {
    Denot d = denote(text, n);
    if (!d.err.empty()) return d.err;
    auto label = [&](const std::string &l) { if (strcmp(what, "c-direct") != 0) vh::label(l); };   // the second pass over the same text is not counted twice
    if (d.val.tie) label(std::string(what) + (d.val.tie == 1 ? ":value-exact-tie(even-below)" : ":value-exact-tie(even-above)"));
    if (d.su.tie) label(std::string(what) + (d.su.tie == 1 ? ":su-exact-tie(even-below)" : ":su-exact-tie(even-above)"));
    (void) skip_known;   // F-TIE-ODD is fixed in /repo: odd ties are checked like everything else
    double got = 0, gsu = 0;
    int r1 = cif_value_get_number(v, &got);
    if (r1 != CIF_OK) return std::string(what) + ": cif_value_get_number returned " + cm::code_name(r1) + " for '" + clip(u8(text)) + "'";
    int r2 = cif_value_get_su(v, &gsu);
    if (r2 != CIF_OK) return std::string(what) + ": cif_value_get_su returned " + cm::code_name(r2) + " for '" + clip(u8(text)) + "'";
    if (d.val.cls == 0) {
        double want = d.neg ? -d.val.v : d.val.v;
        label(std::string(what) + ":value-checked");
        if (!(got == want)) return std::string(what) + ": get_number('" + clip(u8(text)) + "') = " + hexd(got) + ", correctly rounded is " + hexd(want);
    } else label(std::string(what) + (d.val.cls == 1 ? ":value-subnormal/underflow(skipped)" : ":value-overflow(skipped)"));
    if (n.has_su) {
        if (d.su.cls == 0) {
            label(std::string(what) + ":su-checked");
            if (!(gsu == d.su.v)) return std::string(what) + ": get_su('" + clip(u8(text)) + "') = " + hexd(gsu) + ", correctly rounded is " + hexd(d.su.v);
        } else label(std::string(what) + (d.su.cls == 1 ? ":su-subnormal/underflow(skipped)" : ":su-overflow(skipped)"));
    } else if (gsu != 0) return std::string(what) + ": get_su of a number without su is " + hexd(gsu);
    return "";
}

// ------------------------------------------------------------------------------------------------------------------
// binary -> decimal reference: exact expansion of |x| and half-even rounding at a decimal scale, on digit strings
struct Exact { std::string I, F; };   // integer digits (no leading zeros, "0" for none) and 1100 fraction digits
static Exact exact_of(double x) {
    static char buf[1600];
    snprintf(buf, sizeof buf, "%.1100f", std::fabs(x));
    Exact e; const char *p = strchr(buf, '.');
    e.I.assign(buf, p - buf); e.F.assign(p + 1);
    return e;
}
// round(|x| * 10^scale) as a decimal integer string without leading zeros ("0" for zero)
static std::string round_at(const Exact &e, int scale, bool *tie = nullptr, bool *inexact = nullptr) {
    std::string D = e.I + e.F; long keep = (long) e.I.size() + scale;
    if (keep > (long) D.size()) D.append(keep - D.size(), '0');
    std::string kept, rest;
    if (keep <= 0) { kept = "0"; rest = std::string((size_t) -keep, '0') + D; }
    else { kept = D.substr(0, keep); rest = D.substr(keep); }
    bool up = false, t = false;
    if (!rest.empty()) {
        bool tailnz = rest.find_first_not_of('0', 1) != std::string::npos;
        if (rest[0] > '5' || (rest[0] == '5' && tailnz)) up = true;
        else if (rest[0] == '5') { t = true; up = ((kept.back() - '0') & 1) != 0; }
    }
    if (tie) *tie = t;
    if (inexact) *inexact = !all0(rest);
    if (up) {
        int i = (int) kept.size() - 1;
        while (i >= 0 && kept[i] == '9') kept[i--] = '0';
        if (i >= 0) kept[i]++; else kept.insert(kept.begin(), '1');
    }
    return strip0(kept);
}
// zeros between the point and the first non-zero digit of a plain decimal rendering (-1: |x| >= 1, or zero)
static int lead_zeros_exact(const Exact &e) {
    if (e.I != "0") return -1;
    size_t p = e.F.find_first_not_of('0');
    return p == std::string::npos ? -1 : (int) p;
}
static int lead_zeros_rounded(const std::string &N, int scale) {   // of N * 10^-scale, scale >= 0
    if (N == "0" || (long) N.size() > scale) return -1;
    return scale - (int) N.size();
}

// ------------------------------------------------------------------------------------------------------------------
static bool tolerate_locale() { static int t = -1; if (t < 0) { const char *e = getenv("VERIF_TOLERATE_LOCALE"); t = (e && *e == '1') ? 1 : 0; } return t == 1; }
static bool g_force_tolerate = false;   // used by classify only
static void after_init_call() { if (tolerate_locale() || g_force_tolerate) harness_init_globals(); }

static const char *PRIOR[] = {"unk", "na", "char-quoted", "char-bare", "numb", "list", "table"};
static Value prior_value(int p) {
    switch (p) {
    case 1: return Value::na();
    case 2: return Value::chr(u"previous text", true);
    case 3: return Value::chr(u"prev", false);
    case 4: return Value::num(u"-42.50e1(7)", false);
    case 5: return Value::list({Value::chr(u"a"), Value::num(u"1")});
    case 6: return Value::table({{u"k", Value::unk()}});
    default: return Value::unk();
    }
}

// (a) acceptance ------------------------------------------------------------------------------------------------------
static std::string run_accept(const CaseFile &c) {
    ustr text = deser_u16(c.get("text"));
    int prior = (int) c.geti("prior");
    if (text.find(u'\0') != ustr::npos) return "bad case file (embedded NUL)";
    Num n = parse_num(text);
    label(n.ok ? "a:valid" : "a:invalid");
    CaseGuard guard;
    std::string msg;
    cif_value_tp *v = nullptr;
    Value before, after;
    int rc = cm::to_cif(prior_value(prior % 7), &v);
    if (rc != CIF_OK) return std::string("could not build the prior value: ") + cm::code_name(rc);
    rc = cm::from_cif(v, before);
    if (rc != CIF_OK) { cif_value_free(v); return "from_cif(prior) failed"; }
    UChar *buf = cm::udup(text);
    rc = cif_value_parse_numb(v, buf);
    if (rc != CIF_OK) cm::ufree(buf);   // ownership passes on success only
    if (n.ok) {
        if (rc != CIF_OK) msg = std::string("valid CIF number '") + clip(uesc(text)) + "' refused with " + cm::code_name(rc);
        else if (cm::from_cif(v, after) != CIF_OK) msg = "from_cif after a successful parse failed";
        else if (after.k != Value::NUMB) msg = "after a successful parse the value is not of NUMB kind";
        else if (after.text != text) msg = "after a successful parse the value text is '" + clip(uesc(after.text)) + "', given '" + clip(uesc(text)) + "'";
        else if (after.quoted) msg = "after a successful parse the value is marked quoted";
    } else {
        if (rc == CIF_OK) msg = std::string("'") + clip(uesc(text)) + "' is not a CIF number but cif_value_parse_numb accepted it";
        else if (rc != CIF_INVALID_NUMBER) msg = std::string("'") + clip(uesc(text)) + "' refused with " + cm::code_name(rc) + " instead of CIF_INVALID_NUMBER";
        else if (cm::from_cif(v, after) != CIF_OK) msg = "from_cif after a refused parse failed";
        else if (cm::ser(after) != cm::ser(before)) msg = "refused parse of '" + clip(uesc(text)) + "' modified the value: was " + cm::ser(before) + " now " + cm::ser(after);
    }
    cif_value_free(v);
    if (msg.empty()) msg = guard.check();
    return msg;
}

// (b) text -> double ---------------------------------------------------------------------------------------------------
static std::string run_t2d(const CaseFile &c) {
    ustr text = deser_u16(c.get("text"));
    int route = (int) c.geti("route");
    Num n = parse_num(text);
    if (!n.ok) return "bad case file (text is not a CIF number)";
    if (n.expd.size() > 18) return "bad case file (exponent too long for the oracle)";
    std::string fam = c.get("fam", "replay");
    label("b:fam-" + fam);
    label(route == 0 ? "b:route-parse_numb" : "b:route-char-coercion");
    size_t sig = strip0(n.mant).size();
    { size_t tz = 0; const std::string &m = n.mant; while (tz < m.size() && m[m.size() - 1 - tz] == '0') tz++; if (sig > tz) sig -= tz; }
    label(sig >= 770 ? "b:sig>=770" : sig >= 100 ? "b:sig100-769" : sig >= 20 ? "b:sig20-99" : sig >= 17 ? "b:sig17-19" : "b:sig<17");
    if (sig % 9 == 0 || sig % 9 == 1 || sig % 9 == 8) label("b:siglen=0,1,8(mod 9)");
    long X = n.expo();
    label(std::labs(X) > 330 ? "b:|exp|>330" : std::labs(X) > 30 ? "b:|exp|31-330" : n.has_exp ? "b:|exp|<=30" : "b:no-exp");
    if (n.has_su) label("b:with-su");
    CaseGuard guard;
    std::string msg;
    cif_value_tp *v = nullptr;
    int rc = cif_value_create(CIF_UNK_KIND, &v);
    if (rc != CIF_OK) return "cif_value_create failed";
    if (route == 0) {
        UChar *buf = cm::udup(text);
        rc = cif_value_parse_numb(v, buf);
        if (rc != CIF_OK) { cm::ufree(buf); msg = std::string("valid CIF number '") + clip(u8(text)) + "' refused with " + cm::code_name(rc); }
    } else {
        rc = cif_value_copy_char(v, (const UChar *) text.c_str());
        if (rc != CIF_OK) msg = std::string("cif_value_copy_char returned ") + cm::code_name(rc);
    }
    if (msg.empty()) msg = check_value_su(v, text, n, "b");
    if (msg.empty() && route == 1) {
        UChar *t = nullptr;
        if (cif_value_kind(v) != CIF_NUMB_KIND) msg = "a CHAR value holding a number was not coerced to NUMB kind by get_number";
        else if (cif_value_get_text(v, &t) != CIF_OK) msg = "get_text failed after coercion";
        else if (cm::take(t) != text) msg = "coercion to NUMB changed the value text";
    }
    cif_value_free(v);
    if (msg.empty()) msg = guard.check();
    return msg;
}

// (c) double -> text ---------------------------------------------------------------------------------------------------
// known finding F-MSP-LOG10: for 0 < |val| < 1 the leading-zero count is taken from floor(log10(|val|)) in double arithmetic, which
// is one too small when val lies just below a power of ten (log10 rounds up to the integer), e.g. the double nearest 1e-6
static bool msp_log10_val(double val) {
    if (val == 0 || std::fabs(val) >= 1) return false;
    int lv = lead_zeros_exact(exact_of(val));
    return (int) std::floor(std::log10(std::fabs(val))) != -(lv + 1);
}
static std::string run_d2t(const CaseFile &c) {
    bool autoi = c.get("fn") == "auto";
    double val = bits_de(c.get("val")), su = bits_de(c.get("su"));
    int scale = (int) c.geti("scale"), mlz = (int) c.geti("mlz");
    unsigned rule = (unsigned) c.geti("rule", 19);
    if (!std::isfinite(val) || !std::isfinite(su) || su < 0 || mlz < 0 || (autoi && rule < 2) || scale < -300 || scale > 300) return "bad case file (precondition)";
    label(autoi ? (su == 0 ? "c:autoinit-exact" : "c:autoinit-su") : (su == 0 ? "c:init-exact" : "c:init-su"));
    label("c:fam-" + c.get("fam", "replay"));
    Exact ev = exact_of(val), es = exact_of(su);
    char call[200];
    if (autoi) snprintf(call, sizeof call, "cif_value_autoinit_numb(val=%.17g, su=%.17g, su_rule=%u)", val, su, rule);
    else snprintf(call, sizeof call, "cif_value_init_numb(val=%.17g, su=%.17g, scale=%d, max_leading_zeroes=%d)", val, su, scale, mlz);

    // the scale the oracle expects (autoinit with su > 0: the largest s with round(su * 10^s) <= su_rule)
    bool scale_known = true, in_domain = true;
    if (autoi) {
        mlz = 5;
        if (su > 0) {
            int s;
            std::string rs = std::to_string(rule);
            auto le_rule = [&](int sc) { std::string r = round_at(es, sc); return r.size() < rs.size() || (r.size() == rs.size() && r <= rs); };
            // coarse start: s0 with su*10^s0 having about as many digits as the rule, then refine
            s = (int) rs.size() - 1 - (int) std::floor(std::log10(su)) + 2;
            while (!le_rule(s)) s--;
            while (le_rule(s + 1)) s++;
            scale = s;
            if (scale < -300 || scale > 300) in_domain = false;
        } else scale_known = false;
    }
    if (!in_domain) label("c:auto-scale-outside[-300,300](lenient)");

    CaseGuard guard;
    std::string msg;
    cif_value_tp *v = nullptr, *w = nullptr;
    int rc = cm::to_cif(prior_value((int) c.geti("prior") % 7), &v);
    if (rc != CIF_OK) return "could not build the prior value";
    rc = autoi ? cif_value_autoinit_numb(v, val, su, rule) : cif_value_init_numb(v, val, su, scale, mlz);
    after_init_call();
    ustr text;
    if (getenv("VERIF_SHOW")) { UChar *t = nullptr; if (rc == CIF_OK) (void) cif_value_get_text(v, &t); printf("SHOW %s -> %s '%s'\n", call, cm::code_name(rc), u8(cm::take(t)).c_str()); }
    if (rc != CIF_OK) {
        // exact rendering needing more than 300 decimals, or a scale outside the documented range: refusal is tolerated
        size_t need = ev.F.find_last_not_of('0') == std::string::npos ? 0 : ev.F.find_last_not_of('0') + 1;
        if (!in_domain) label("c:refused-out-of-domain");
        else if (autoi && su == 0 && need > 300) label("c:autoinit-exact-refused(>300 decimals needed)");
        else msg = std::string(call) + " returned " + cm::code_name(rc);
        goto done;
    }
    {
        UChar *t = nullptr;
        if (cif_value_kind(v) != CIF_NUMB_KIND) { msg = std::string(call) + ": the value is not of NUMB kind"; goto done; }
        if (cif_value_is_quoted(v) != CIF_NOT_QUOTED) { msg = std::string(call) + ": the value is marked quoted"; goto done; }
        if (cif_value_get_text(v, &t) != CIF_OK || !t) { msg = std::string(call) + ": get_text failed"; goto done; }
        text = cm::take(t);
    }
    {
        Num n = parse_num(text);
        std::string T = clip(u8(text), 200);
        if (!n.ok) { msg = std::string(call) + " produced text '" + T + "' that is not a CIF number"; goto done; }
        if (n.expd.size() > 9) { msg = std::string(call) + " produced an absurd exponent: '" + T + "'"; goto done; }
        long tscale = (long) n.nfrac - n.expo();
        if (!scale_known) {
            // autoinit, su == 0: "all significant digits are recorded": checked at the scale the text itself exhibits
            if (tscale < -400 || tscale > 1090) { msg = std::string(call) + " produced text with absurd scale: '" + T + "'"; goto done; }
            scale = (int) tscale;
        } else if (in_domain && tscale != scale) {
            msg = std::string(call) + " produced '" + T + "' which has " + std::to_string(tscale) + " digits right of the units digit, expected " + std::to_string(scale);
            goto done;
        } else if (!in_domain) scale = (int) tscale;
        bool tie = false, inexact = false;
        std::string N = round_at(ev, scale, &tie, &inexact);
        if (tie) label("c:value-tie-at-scale");
        if (!inexact) label("c:value-exact-at-scale");
        if (N == "0" && val != 0) label("c:value-rounds-to-zero");
        if (strip0(n.mant) != N) {
            msg = std::string(call) + " produced '" + T + "': digits " + clip(strip0(n.mant), 60) + " but |val| rounded half-even at scale " + std::to_string(scale) + " is " + clip(N, 60) + (tie ? " (exact tie)" : "");
            goto done;
        }
        if (N != "0" && n.neg != (val < 0)) { msg = std::string(call) + " produced '" + T + "' with the wrong sign"; goto done; }
        if (N == "0" && val >= 0 && n.neg && !std::signbit(val)) { msg = std::string(call) + " produced a negative zero '" + T + "' for a non-negative value"; goto done; }
        // uncertainty
        if (su == 0) { if (n.has_su) { msg = std::string(call) + " produced '" + T + "' with an su although su == 0"; goto done; } }
        else {
            bool stie = false;
            std::string S = round_at(es, scale, &stie);
            if (stie) label("c:su-tie-at-scale");
            if (S == "0") { label(n.has_su ? "c:su-rounds-to-zero:printed-(0)" : "c:su-rounds-to-zero:omitted"); if (n.has_su && !all0(n.su)) { msg = std::string(call) + " produced '" + T + "' but the su rounds to zero at scale " + std::to_string(scale); goto done; } }
            else if (!n.has_su) { msg = std::string(call) + " produced '" + T + "' without su although the su rounds to " + S + " at scale " + std::to_string(scale); goto done; }
            else if (strip0(n.su) != S) { msg = std::string(call) + " produced '" + T + "': su digits " + n.su + " but su rounded half-even at scale " + std::to_string(scale) + " is " + S + (stie ? " (exact tie)" : ""); goto done; }
            if (autoi && in_domain) { std::string rs = std::to_string(rule); if (S == rs) label("c:auto-su==rule"); else if (S.size() < rs.size()) label("c:auto-su-shorter-than-rule"); }
        }
        // notation
        {
            int lv = lead_zeros_exact(ev), lr = scale >= 0 ? lead_zeros_rounded(N, scale) : -1;
            bool must_sci = scale < 0 || (N != "0" && lv > mlz && lr > mlz);
            bool must_dec = scale >= 0 && (N != "0" || val == 0) && lv <= mlz && lr <= mlz && !(val == 0 && scale > mlz);
            label(n.has_exp ? "c:scientific" : "c:decimal");
            if (!must_sci && !must_dec) label("c:notation-unconstrained");
            if (must_sci && !n.has_exp) { msg = std::string(call) + " produced '" + T + "' in decimal notation; documented: scientific (" + (scale < 0 ? "scale < 0" : "more leading zeroes than allowed") + ")"; goto done; }
            if (must_dec && n.has_exp) { msg = std::string(call) + " produced '" + T + "' in scientific notation; documented: decimal (scale >= 0, " + std::to_string(std::max(lv, lr)) + " leading zeroes <= " + std::to_string(mlz) + ")"; goto done; }
        }
        if (!scale_known) {
            // all significant digits: either the text denotes val exactly, or it carries at least DBL_DIG significant digits
            Denot d = denote(text, n);
            size_t sigd = strip0(n.mant).size();
            bool same = d.err.empty() && d.val.cls == 0 && (d.neg ? -d.val.v : d.val.v) == val;
            label(!inexact ? "c:auto-exact:all-digits" : same ? "c:auto-exact:round-trips" : "c:auto-exact:15-digits");
            if (inexact && !same && sigd < DBL_DIG) { msg = std::string(call) + " produced '" + T + "' which neither denotes val nor has " + std::to_string(DBL_DIG) + " significant digits"; goto done; }
        }
        // round trip through the parser: same digits, scale, su -> same doubles as the oracle derives from the text
        rc = cif_value_create(CIF_UNK_KIND, &w);
        if (rc != CIF_OK) { msg = "cif_value_create failed"; goto done; }
        UChar *buf = cm::udup(text);
        rc = cif_value_parse_numb(w, buf);
        if (rc != CIF_OK) { cm::ufree(buf); msg = std::string(call) + " produced '" + T + "' which cif_value_parse_numb refuses with " + cm::code_name(rc); goto done; }
        msg = check_value_su(w, text, n, "c-reparse", true);
        if (!msg.empty()) goto done;
        // the initialised object itself must report the same numbers as its text
        msg = check_value_su(v, text, n, "c-direct", true);
    }
done:
    cif_value_free(v); cif_value_free(w);
    if (msg.empty()) msg = guard.check();
    return msg;
}

static std::string run_case(const CaseFile &c) {
    std::string sub = c.get("sub");
    if (sub == "a") return run_accept(c);
    if (sub == "b") return run_t2d(c);
    if (sub == "c") return run_d2t(c);
    return "bad case file (sub)";
}

// ==================================================================================================================
// generators (every random choice is a rapidcheck draw; long digit runs are expanded from a drawn 64-bit seed)
static int R(int lo, int hi) { return *g::range(lo, hi); }
static bool P(int pct) { return *g::chance(pct); }
static uint64_t R64() { return ((uint64_t) R(0, (1 << 22) - 1) << 42) | ((uint64_t) R(0, (1 << 21) - 1) << 21) | (uint64_t) R(0, (1 << 21) - 1); }
static int W(std::initializer_list<std::pair<int, int>> weighted) {   // {weight, value}...
    int tot = 0; for (auto &p : weighted) tot += p.first;
    int x = R(0, tot - 1);
    for (auto &p : weighted) { if (x < p.first) return p.second; x -= p.first; }
    return weighted.begin()->second;
}
static std::string rdigits(int n, bool first_nonzero = false) {
    std::string s;
    if (n <= 24) for (int i = 0; i < n; i++) s += (char) ('0' + R(0, 9));
    else {
        uint64_t z = R64();
        int style = W({{6, 0}, {1, 1}, {1, 2}, {1, 3}});   // uniform / mostly 9 / mostly 0 / 9-digit groups of extremes
        for (int i = 0; i < n; i++) {
            z += 0x9E3779B97F4A7C15ULL; uint64_t x = z; x = (x ^ (x >> 30)) * 0xBF58476D1CE4E5B9ULL; x = (x ^ (x >> 27)) * 0x94D049BB133111EBULL; x ^= x >> 31;
            int d = (int) (x % 10);
            if (style == 1 && (x >> 8) % 8) d = 9;
            if (style == 2 && (x >> 8) % 8) d = 0;
            if (style == 3) d = ((i / 9) % 2) ? 9 : ((x >> 8) % 4 ? 0 : d);
            s += (char) ('0' + d);
        }
    }
    if (first_nonzero && !s.empty() && s[0] == '0') s[0] = (char) ('1' + R(0, 8));
    return s;
}

// exact decimal expansion of a (long) double: value = D * 10^E, D without trailing zeros
static void exact_ld(long double m, std::string &D, long &E) {
    static char buf[1400];
    snprintf(buf, sizeof buf, "%.1200Le", m < 0 ? -m : m);
    const char *e = strchr(buf, 'e');
    D.clear(); for (const char *p = buf; p < e; p++) if (*p != '.') D += *p;
    E = atol(e + 1) - (long) (D.size() - 1);
    while (D.size() > 1 && D.back() == '0') { D.pop_back(); E++; }
}
static void dec_inc(std::string &D) { int i = (int) D.size() - 1; while (i >= 0 && D[i] == '9') D[i--] = '0'; if (i >= 0) D[i]++; else D.insert(D.begin(), '1'); }
static void dec_dec(std::string &D) { int i = (int) D.size() - 1; while (i >= 0 && D[i] == '0') D[i--] = '9'; if (i >= 0) D[i]--; }   // D > 0
// 0 exact, 1 slightly above (..0001), 2 slightly below (..9999), 3 last digit +1, 4 last digit -1
static const char *PERT[] = {"exact", "+tiny", "-tiny", "+1ulp10", "-1ulp10"};
static void perturb(std::string &D, long &E, int kind) {
    int k = W({{3, 0}, {3, R(1, 5)}, {2, R(6, 40)}, {1, R(41, 300)}});
    switch (kind) {
    case 1: D.append((size_t) k, '0'); D += '1'; E -= k + 1; break;
    case 2: dec_dec(D); if (k == 0) k = 1; D.append((size_t) k, '9'); E -= k; break;
    case 3: dec_inc(D); break;
    case 4: dec_dec(D); break;
    default: break;
    }
    if (D.size() > 2000) { E += (long) D.size() - 2000; D.resize(2000); }
}
static double rnd_normal_double() {
    int bexp = P(50) ? R(1023 - 80, 1023 + 80) : R(1, 2046);
    uint64_t mant = R64() & ((1ULL << 52) - 1);
    switch (W({{6, 0}, {1, 1}, {1, 2}, {1, 3}, {1, 4}})) {
    case 1: mant = 0; break;
    case 2: mant = (1ULL << 52) - 1; break;
    case 3: mant &= ~((1ULL << R(1, 51)) - 1); break;   // few significant bits
    case 4: mant = (uint64_t) R(0, 3); break;
    default: break;
    }
    uint64_t u = ((uint64_t) bexp << 52) | mant; double d; memcpy(&d, &u, 8); return d;
}

// lay out value D * 10^E as CIF number text (no sign, no su)
static std::string layout(const std::string &D, long E) {
    long L = (long) D.size(), f;
    int mode = W({{30, 0}, {20, 1}, {12, 2}, {10, 3}, {28, 4}});
    if (mode == 4 && (E > 420 || E < -2400 || -E - L > 420)) mode = 0;
    switch (mode) {
    case 0: f = R(0, (int) L); break;
    case 1: f = L - 1; break;
    case 2: f = L + (P(85) ? R(1, 30) : R(31, 420)); break;
    case 3: f = -(P(85) ? R(1, 30) : R(31, 420)); break;
    default: f = -E; break;
    }
    long X = E + f;
    std::string m;
    if (f <= 0) { m = D + std::string((size_t) -f, '0'); if (P(25)) m += '.'; }
    else if (f < L) m = D.substr(0, (size_t) (L - f)) + "." + D.substr((size_t) (L - f));
    else m = std::string(P(70) ? "0" : "") + "." + std::string((size_t) (f - L), '0') + D;
    if (P(10)) m = std::string((size_t) R(1, 3), '0') + m;
    if (m.find('.') != std::string::npos && P(10)) m += std::string((size_t) (P(80) ? R(1, 12) : R(13, 60)), '0');
    if (X == 0 && P(70)) return m;
    m += P(50) ? 'e' : 'E';
    if (X < 0 || (X == 0 && P(30))) m += '-'; else if (P(50)) m += '+';
    std::string xd = std::to_string(X < 0 ? -X : X);
    if (P(10) && xd.size() < 8) xd = std::string((size_t) R(1, (int) (8 - xd.size())), '0') + xd;
    return m + xd;
}
static std::string with_sign_su(std::string body, int su_pct) {
    int sg = W({{5, 0}, {2, 1}, {3, 2}});
    if (sg == 1) body = "+" + body; else if (sg == 2) body = "-" + body;
    if (P(su_pct)) {
        int ns = W({{5, 1}, {5, 2}, {3, R(3, 8)}, {2, R(9, 20)}, {1, R(21, 60)}});
        std::string sd = rdigits(ns);
        if (P(5)) sd = "0"; else if (P(10)) sd = std::string((size_t) R(1, 3), '0') + sd;
        body += "(" + sd + ")";
    }
    return body;
}

struct BCase { std::string text, fam; bool tie = false; };
static BCase gen_b() {
    BCase b; std::string D; long E = 0;
    int fam = W({{28, 0}, {16, 1}, {10, 2}, {8, 3}, {12, 4}, {6, 5}, {6, 6}, {4, 7}});
    switch (fam) {
    case 0: {   // random digit strings, every length class
        int L = W({{25, R(1, 14)}, {15, R(15, 21)}, {15, 9 * R(1, 12) + W({{1, 0}, {1, 1}, {1, -1}})}, {15, R(22, 120)}, {12, R(121, 800)}, {8, R(801, 2000)},
                   {5, 9 * R(13, 222) + W({{1, 0}, {1, 1}, {1, -1}})}});
        if (L < 1) L = 1; if (L > 2000) L = 2000;
        D = rdigits(L, true);
        int msp = W({{50, R(-30, 30)}, {40, R(-330, 330)}, {10, R(-400, 400)}});
        E = (long) msp - (L - 1);
        b.fam = "random-digits"; break; }
    case 1: case 2: {   // exact midpoint of two adjacent doubles (tie), and its neighbours
        double d = rnd_normal_double();
        int bexp = 0; (void) frexp(d, &bexp);           // d = f * 2^bexp, f in [0.5,1): ulp = 2^(bexp-53)
        long double m = (long double) d + ldexpl(1.0L, bexp - 54);
        exact_ld(m, D, E);
        int kind = fam == 1 ? 0 : R(1, 4);
        perturb(D, E, kind);
        b.tie = kind == 0; b.fam = kind == 0 ? "midpoint-exact" : kind <= 2 ? "midpoint+-tiny" : "midpoint+-1-last-digit"; break; }
    case 3: {   // binade boundaries: 2^k, its predecessor, the midpoints on either side
        int k = P(50) ? R(-70, 70) : R(-1022, 1023);
        long double base = ldexpl(1.0L, k), m;
        int which = R(0, 3);
        if (which == 0) m = base; else if (which == 1) m = base - ldexpl(1.0L, k - 53); else if (which == 2) m = base - ldexpl(1.0L, k - 54); else m = base + ldexpl(1.0L, k - 53);
        exact_ld(m, D, E);
        int kind = R(0, 4); perturb(D, E, kind);
        b.tie = which >= 2 && kind == 0;
        static const char *WN[] = {"2^k", "pred(2^k)", "mid-below-2^k", "mid-above-2^k"};
        b.fam = std::string("binade-") + (which < 2 ? "2^k|pred(2^k)" : "midpoint") + (kind ? "-perturbed" : "-exact"); (void) WN; break; }
    case 4: {   // printf renderings of random doubles with 1..26 significant digits (typical data, 15-17-19 digit mantissas)
        double d = rnd_normal_double(); char buf[64];
        int prec = W({{2, R(0, 13)}, {5, R(14, 18)}, {2, R(19, 25)}});
        snprintf(buf, sizeof buf, "%.*e", prec, d);
        const char *e = strchr(buf, 'e');
        for (const char *p = buf; p < e; p++) if (*p != '.') D += *p;
        E = atol(e + 1) - (long) (D.size() - 1);
        b.fam = "printf-of-double"; break; }
    case 5: {   // extremes of the normal range
        int which = R(0, 7); long double m;
        switch (which) {
        case 0: m = DBL_MAX; break;
        case 1: m = (long double) DBL_MAX + ldexpl(1.0L, 970); break;           // tie between DBL_MAX and 2^1024
        case 2: m = nextafter(DBL_MAX, 0.0); break;
        case 3: m = (long double) DBL_MAX - ldexpl(1.0L, 970); break;           // tie just below DBL_MAX
        case 4: m = DBL_MIN; break;
        case 5: m = (long double) DBL_MIN + ldexpl(1.0L, -1075); break;         // tie just above DBL_MIN
        case 6: m = (long double) DBL_MIN - ldexpl(1.0L, -1075); break;         // below the normal range
        default: m = nextafter(DBL_MIN, 1.0); break;
        }
        exact_ld(m, D, E);
        if (P(30)) { size_t keep = (size_t) R(15, 20); if (D.size() > keep) { E += (long) (D.size() - keep); D.resize(keep); if (P(50)) dec_inc(D); } }
        int kind = R(0, 4); perturb(D, E, kind);
        b.tie = kind == 0 && (which == 3 || which == 5) && D.size() > 25;
        b.fam = "range-extremes"; break; }
    case 6: {   // powers of ten, long zero runs
        D = "1" + std::string((size_t) W({{6, 0}, {2, R(1, 3)}, {1, R(4, 40)}}), '0');
        E = W({{50, R(-30, 30)}, {50, R(-340, 330)}});
        if (P(20)) { perturb(D, E, R(1, 4)); }
        b.fam = "power-of-ten"; break; }
    default: {  // small everyday numbers
        D = rdigits(R(1, 7), true); E = -R(0, 6);
        b.fam = "everyday"; break; }
    }
    if (D.empty()) D = "0";
    if (P(2)) { D = std::string((size_t) R(1, 30), '0'); b.fam = "zero"; b.tie = false; }
    b.text = with_sign_su(layout(D, E), 40);
    return b;
}

// (a): valid numbers, their single-edit neighbours, noise
static const char16_t *NOISE[] = {u"", u".", u"+", u"-", u"1e", u"1e+", u"1e-", u"1(", u"1()", u"1(2", u"1.2.3", u"1 ", u" 1", u"١", u"١٢", u"1(2)x", u"+-1", u"--1", u"++1", u"-+1",
    u"e5", u".e5", u"+.e5", u"1e5.5", u"1e5e5", u"1(2)(3)", u"1(2.5)", u"1(-2)", u"(2)", u"1.(2)", u".5(2)", u"1e5(2)", u"1(2)e5", u"0x10", u"1d5", u"1D5", u"inf", u"nan", u"NaN", u"-inf", u"Infinity",
    u"1E", u"1.e", u"1..", u"..1", u"1_000", u"1,5", u"１", u"1\n", u"\n1", u"1\t", u"1e+-5", u"-.", u"+.", u"-.(1)", u"1( 2)", u"1(2 )", u"?", u"1e5 ", u"1.5e", u"1.5e(3)", u"1.5(3", u"1.5 (3)", u"1.5(3))",
    u"1.5((3))", u"1.5()", u".(1)", u"+(1)", u"1e(1)", u"1e+(1)", u"1²", u"−1", u"1．5", u"1.5f", u"1.5L", u"1e5f", u"1'", u"'1'", u"\"1\"", u"1;", u"1#", u"0.", u".0", u"0.0", u"00", u"+0", u"-0",
    u"5.", u"5.e3", u"5.E-3(2)", u"+.5", u"-5.(1)", u"1e0", u"1e-0", u"1e+0", u"1e00000001", u"12(0)", u"12(00)", u"1.50(10)", u"1.5e+05(12)"};
static const char16_t EDIT_ALPHA[] = u"0123456789+-.eE() \tx dDfF,_#'\"١１²−．௯:;[]{}";
static ustr to_u16(const std::string &s) { ustr o; for (unsigned char ch : s) o += (char16_t) ch; return o; }
static ustr gen_a(std::string &kind) {
    int mode = W({{35, 0}, {45, 1}, {20, 2}});
    if (mode == 2) { kind = "noise-list"; return ustr(NOISE[R(0, (int) (sizeof NOISE / sizeof NOISE[0]) - 1)]); }
    ustr s;
    if (P(50)) s = *g::number_text();
    else { std::string D = rdigits(W({{6, R(1, 6)}, {2, R(7, 30)}, {1, R(31, 300)}}), P(70)); s = to_u16(with_sign_su(layout(D, W({{3, 0}, {3, -R(0, 8)}, {2, R(-400, 400)}})), 45)); }
    if (mode == 0) { kind = "valid-generated"; return s; }
    kind = "single-edit";
    int nalpha = (int) (sizeof EDIT_ALPHA / sizeof EDIT_ALPHA[0]) - 1;
    int op = R(0, 4); size_t pos = (size_t) R(0, (int) s.size());
    // aim at the structural characters half of the time
    if (P(50)) { std::vector<size_t> st; for (size_t i = 0; i < s.size(); i++) if (!isd(s[i])) st.push_back(i); if (!st.empty()) pos = st[(size_t) R(0, (int) st.size() - 1)] + (size_t) R(0, 1); }
    if (pos > s.size()) pos = s.size();
    char16_t ch = EDIT_ALPHA[R(0, nalpha - 1)];
    switch (op) {
    case 0: s.insert(s.begin() + (long) pos, ch); break;
    case 1: if (pos < s.size()) s.erase(pos, 1); else if (!s.empty()) s.pop_back(); break;
    case 2: if (pos < s.size()) s[pos] = ch; else s += ch; break;
    case 3: if (pos < s.size()) s.insert(s.begin() + (long) pos, s[pos]); break;
    default: if (pos + 1 < s.size()) std::swap(s[pos], s[pos + 1]); break;
    }
    return s;
}

// (c): value, su, scale, max_leading_zeroes, su_rule
struct CCase { bool autoi = false; double val = 0, su = 0; int scale = 0, mlz = 5; unsigned rule = 19; std::string fam; bool tie = false; };
static double sd(const std::string &s) { return strtod(s.c_str(), nullptr); }
static CCase gen_c() {
    CCase c; c.autoi = P(40);
    c.mlz = W({{2, 0}, {2, 1}, {2, 2}, {2, 3}, {3, 5}, {1, 10}, {2, R(0, 10)}});
    bool scale_set = false;
    int fam = W({{22, 0}, {14, 1}, {6, 2}, {12, 3}, {6, 4}, {10, 5}, {10, 6}, {6, 7}, {5, 8}, {3, 9}, {6, 10}});
    switch (fam) {
    case 0: { std::string s = rdigits(R(1, 7), true); int nf = R(0, 7); if (nf) s += "." + rdigits(nf); c.val = sd(s); c.fam = "decimal-literal"; break; }
    case 1: { uint64_t u = ((uint64_t) R(1023 - 83, 1023 + 83) << 52) | (R64() & ((1ULL << 52) - 1)); memcpy(&c.val, &u, 8); c.fam = "random-moderate"; break; }
    case 2: { uint64_t u = ((uint64_t) R(0, 2046) << 52) | (R64() & ((1ULL << 52) - 1)); memcpy(&c.val, &u, 8); c.fam = "random-any-finite"; break; }
    case 3: case 5: {   // m / 2^(s+1), m odd: an exact tie at scale s (s >= 0); or (2n+1)*5*10^(-s-1) for s < 0
        if (P(70)) { int s = W({{6, R(0, 8)}, {3, R(9, 30)}, {1, R(31, 60)}}); uint64_t m = (R64() & ((1ULL << R(1, 50)) - 1)) | 1; c.val = ldexp((double) m, -(s + 1)); c.scale = s; }
        else { int s = -R(1, 12); uint64_t m = (uint64_t) (2 * R(0, 4000) + 1) * 5; for (int i = 0; i < -s - 1; i++) m *= 10; c.val = (double) m; c.scale = s; }   // < 4.1e15 < 2^53
        scale_set = true; c.tie = fam == 3; c.fam = "tie-at-scale";
        if (fam == 5) { c.val = nextafter(c.val, P(50) ? 0.0 : INFINITY); c.fam = "tie-at-scale+-1ulp"; }
        break; }
    case 4: {   // ties / carries across the 10^9 groups of the bignum
        static const char *S[] = {"999999999.5", "1000000000.5", "999999999", "1000000000", "999999999999999999", "1000000000000000000", "0.9999999995", "0.0000000005", "0.000000001", "0.999999999",
                                  "999999999.999999999", "4999999999.5", "500000000", "499999999.5", "0.5", "1.5", "2.5", "0.05", "0.95", "9.5", "99.5", "0.125", "0.375", "8.5", "9.9999999995"};
        c.val = sd(S[R(0, (int) (sizeof S / sizeof S[0]) - 1)]); c.scale = W({{3, 0}, {2, 9}, {2, -9}, {1, 18}, {1, -18}, {2, 1}, {1, 8}, {1, 10}, {2, R(-10, 10)}}); scale_set = true;
        c.fam = "bignum-group-boundary"; break; }
    case 6: {   // runs of nines: carry propagation
        int n9 = R(1, 22), pt = R(0, n9); std::string s = std::string((size_t) (n9 - pt), '9'); if (s.empty()) s = "0"; s += "." + std::string((size_t) pt, '9');
        s += W({{2, 0}, {2, 1}, {1, 2}, {1, 3}}) == 0 ? "" : (P(50) ? "5" : P(50) ? "4999" : "5001");
        c.val = sd(s); c.scale = pt - R(0, 3) + R(0, 1); scale_set = true; c.fam = "nines"; break; }
    case 7: c.val = sd("1e" + std::to_string(P(75) ? R(-30, 30) : R(-300, 300))); c.fam = "power-of-ten"; break;
    case 8: c.val = ldexp(1.0, P(75) ? R(-60, 70) : R(-1000, 1000)); if (P(30)) c.val = nextafter(c.val, 0.0); c.fam = "power-of-two"; break;
    case 9: c.val = 0.0; c.fam = "zero"; break;
    default: { char b[40]; snprintf(b, sizeof b, "%d.%de%d", R(1, 9), R(0, 99999), R(-25, 25)); c.val = sd(b); c.fam = "sci-literal"; break; }
    }
    if (msp_log10_val(c.val)) label("c:log10-off-by-one-value");   // (F-MSP-LOG10, fixed: such values are no longer excluded)
    if (P(35)) c.val = -c.val;
    int msp =c.val == 0 ? 0 : (int) std::floor(std::log10(std::fabs(c.val)));
    if (!scale_set) {
        int sig = W({{10, R(-2, 0)}, {45, R(1, 8)}, {25, R(9, 17)}, {15, R(18, 40)}, {5, R(41, 120)}});
        c.scale = sig - 1 - msp;
        if (P(10)) c.scale -= c.scale % 9;
    }
    if (c.scale > 300) c.scale = 300; if (c.scale < -300) c.scale = -300;
    // uncertainty
    if (c.autoi) {
        c.rule = (unsigned) W({{2, 2}, {1, 3}, {2, 5}, {1, 6}, {3, 9}, {8, 19}, {3, 27}, {2, 28}, {3, 29}, {4, 99}, {2, 999}, {1, 9999}, {1, R(2, 200)}, {1, R(201, 999999999)}});
        int k = W({{20, 0}, {30, 1}, {30, 2}, {10, 3}, {10, 4}, {3, 5}});
        int j = W({{6, R(-8, 3)}, {2, R(-25, 12)}, {1, R(-200, 200)}});
        std::string rs = std::to_string(c.rule), rs1 = std::to_string(c.rule + 1);
        switch (k) {
        case 0: c.su = 0; break;
        case 1: c.su = sd(std::to_string(R(1, 9999)) + "e" + std::to_string(j)); break;
        case 2: c.su = sd(P(33) ? rs1 + "e" + std::to_string(j)                                            // (rule+1) * 10^j: just past the rule
                                : rs + (P(34) ? ".5" : P(50) ? ".4999999" : ".5000001") + "e" + std::to_string(j)); break;   // around the tie (rule + 1/2) * 10^j
        case 3: c.su = sd(rs + "e" + std::to_string(j)); if (P(30)) c.su = nextafter(c.su, P(50) ? 0.0 : INFINITY); break;
        case 5: { static const double X[] = {4.9406564584124654e-324, 1e-322, 1e-320, 1e-316, 2.2250738585072014e-308, 1e-305, 1e-300, 1e300, 1.7976931348623157e308};   // the ends of the range: the scale derived from such an su may be beyond what can be formatted (an error result is fine; side effects are not)
                  c.su = X[R(0, 8)]; break; }
        default: { uint64_t u = ((uint64_t) R(1023 - 60, 1023 + 40) << 52) | (R64() & ((1ULL << 52) - 1)); memcpy(&c.su, &u, 8); break; }
        }
        c.scale = 0;
    } else {
        int k = W({{25, 0}, {35, 1}, {12, 2}, {8, 3}, {12, 4}, {8, 5}});
        switch (k) {
        case 0: c.su = 0; break;
        case 1: c.su = sd(std::to_string(R(1, 9999)) + "e" + std::to_string(-c.scale + R(-3, 1))); break;
        case 2: if (c.scale >= 0 && c.scale <= 60) c.su = ldexp((double) (2 * R(0, 2000) + 1), -(c.scale + 1)); else c.su = sd(std::to_string((2 * R(0, 2000) + 1) * 5) + "e" + std::to_string(-c.scale - 1)); break;
        case 3: c.su = sd(std::to_string(R(1, 499)) + "e" + std::to_string(-c.scale - R(3, 6))); break;   // rounds to zero
        case 4: { uint64_t u = ((uint64_t) R(1023 - 60, 1023 + 40) << 52) | (R64() & ((1ULL << 52) - 1)); memcpy(&c.su, &u, 8); break; }
        default: c.su = std::fabs(c.val) * R(1, 1000); break;
        }
    }
    if (!std::isfinite(c.su) || c.su < 0) c.su = 0;
    return c;
}

// ==================================================================================================================
static std::string classify_case(const CaseFile &c) {
    std::string sub = c.get("sub");
    if (sub == "a" || sub == "b") {
        ustr t = deser_u16(c.get("text"));
        return "";   // F-EXPOVF and F-TIE-ODD are fixed findings: they suppress nothing
    }
    if (sub == "c") {
        // F-LOCALE: the only complaint is LC_NUMERIC left at "C" by init_numb/autoinit_numb (decided by running the case both ways)
        std::string plain = run_case(c);
        if (plain.find("LC_NUMERIC changed") == std::string::npos) return "";
        harness_init_globals();
        g_force_tolerate = true; std::string tol = run_case(c); g_force_tolerate = false;
        return tol.empty() ? "F-LOCALE" : "";
    }
    return "";
}

int main(int argc, char **argv) {
    Engine e;
    e.name = "C10_numbers";
    e.run = []() {
        const char *only = getenv("VERIF_C10_ONLY");   // development aid: run a single sub-property
        auto want = [&](char k) { return !only || !*only || strchr(only, k); };
        bool ok = !want('a') || rc::check("C10(a) cif_value_parse_numb accepts exactly CIF numeric syntax; refusal leaves the value unchanged", []() {
            std::string kind; ustr s = gen_a(kind);
            for (auto &ch : s) if (ch == 0) ch = u'x';
            // (F-EXPOVF is fixed in /repo: over-long exponents are legitimate acceptance inputs)
            CaseFile c; c.set("sub", "a"); c.set("text", ser_u16(s)); c.seti("prior", R(0, 6)); c.set("kind", kind);
            VH_BEGIN(c);
            label("a:gen-" + kind);
            Num n = parse_num(s);
            if (!n.ok && kind == "single-edit") nontrivial(fnv("a|" + c.get("text")));   // a refused neighbour of a valid number
            if (s.size() < 60) sample("(a) parse_numb('" + uesc(s) + "') expect " + (n.ok ? "CIF_OK" : "CIF_INVALID_NUMBER"));
            std::string m = run_case(c);
            if (!m.empty()) { record_fail(c, m); RC_FAIL(m); }
        });
        if (!ok) return false;
        ok = !want('b') || rc::check("C10(b) get_number / get_su are the correctly rounded doubles of the decimal text", []() {
            BCase b = gen_b();
            ustr s = to_u16(b.text);
            // (F-TIE-ODD and F-EXPOVF are fixed in /repo: nothing is excluded here any more)
            CaseFile c; c.set("sub", "b"); c.set("text", ser_u16(s)); c.set("fam", b.fam); c.seti("route", W({{4, 0}, {1, 1}}));
            VH_BEGIN(c);
            Num n = parse_num(s);
            size_t sig = strip0(n.mant).size();
            if (b.tie) label("b:generated-exact-tie");
            // aimed at a rounding boundary (midpoints, binade and range boundaries and their neighbours), or >= 17 significant digits with a large exponent
            if (b.tie || b.fam.compare(0, 8, "midpoint") == 0 || b.fam.compare(0, 6, "binade") == 0 || b.fam == "range-extremes" || (sig >= 17 && std::labs(n.expo()) > 30))
                nontrivial(fnv("b|" + c.get("text")));
            if (b.text.size() < 70) sample("(b) " + b.fam + ": " + b.text);
            std::string m = run_case(c);
            if (!m.empty()) { record_fail(c, m); RC_FAIL(m); }
        });
        if (!ok) return false;
        ok = !want('c') || rc::check("C10(c) init_numb / autoinit_numb render value and su correctly rounded at the scale; the text parses back", []() {
            CCase k = gen_c();
            CaseFile c; c.set("sub", "c"); c.set("fn", k.autoi ? "auto" : "init"); c.set("val", bits_ser(k.val)); c.set("su", bits_ser(k.su));
            c.seti("scale", k.scale); c.seti("mlz", k.mlz); c.seti("rule", (long) k.rule); c.set("fam", k.fam); c.seti("prior", W({{5, 0}, {1, R(1, 6)}}));
            VH_BEGIN(c);
            if (k.tie || k.fam == "tie-at-scale+-1ulp" || k.fam == "nines" || k.fam == "bignum-group-boundary" || (k.su != 0 && std::abs(k.scale) > 8)) nontrivial(fnv("c|" + c.get("fn") + c.get("val") + c.get("su") + c.get("scale") + "|" + c.get("rule") + "|" + c.get("mlz")));
            char b[200];
            if (k.autoi) snprintf(b, sizeof b, "(c) autoinit_numb(%.17g, su=%.6g, rule=%u) [%s]", k.val, k.su, k.rule, k.fam.c_str());
            else snprintf(b, sizeof b, "(c) init_numb(%.17g, su=%.6g, scale=%d, mlz=%d) [%s]", k.val, k.su, k.scale, k.mlz, k.fam.c_str());
            sample(b);
            std::string m = run_case(c);
            if (!m.empty()) { record_fail(c, m); RC_FAIL(m); }
        });
        return ok;
    };
    e.replay = run_case;
    e.classify = classify_case;
    return engine_main(argc, argv, e);
}
