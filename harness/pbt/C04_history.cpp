// C04 / C05: model-based stateful test of the managed-CIF API.  A generated history of abstract operations is
// interpreted against the library and against a reference model (cm::Doc per managed CIF, following cif.h);
// after EVERY operation the returned code must be one the documentation prescribes and the dump of every CIF in
// the pool (public getters only) must equal the model -- which also checks that a failed call changes nothing
// (C05) and that no operation on one CIF shows in another.
// HISTORY_MODE 4: broad op mix (C04).  HISTORY_MODE 5: failing calls synthesised with the offending element at a
// controlled position, also from inside a parse-time handler callback and while an iterator is open on another CIF (C05).
#ifndef HISTORY_MODE
#define HISTORY_MODE 4
#endif
#include "../common/docgen.hpp"
#include "../common/parsehelp.hpp"
#include <functional>
#include <sstream>
using namespace vh;
using cm::Container;
using cm::Doc;
using cm::Loop;
using cm::Value;

// ---------------------------------------------------------------------------------------------------------------
// name pools: index -> spelling.  Equivalent spellings share a normalised form; invalid ones are marked.
static const char16_t *ITEM_POOL[] = {u"_a", u"_A", u"_b", u"_c", u"_d", u"_é", u"_é", u"_É", u"_e", u"_long.name[1]",
                                      u"_\U0001D4B3", u"_B",
                                      /* invalid: */ u"a", u"_", u"_a b", u"", u"_x\u0001", u"_y\uFFFE"};
static const int N_ITEM = 18, N_ITEM_VALID = 12;
static const char16_t *CODE_POOL[] = {u"a", u"A", u"b", u"c", u"é", u"É", u"x_1", u"\U00010400", u"\U00010428", u"B",
                                      /* invalid: */ u"", u"a b", u"x\t", u"q\u007f"};
static const int N_CODE = 14, N_CODE_VALID = 10;
static const char16_t *CAT_POOL[] = {nullptr, u"", u"c1", u"c2", u"C1"};
static const int N_CAT = 5;

static bool valid_chars(const ustr &s) {
    for (size_t i = 0; i < s.size(); i++) {
        char16_t c = s[i];
        if (c <= 0x20 || c == 0x7f) return false;
        if (c >= 0xD800 && c <= 0xDBFF) { if (i + 1 >= s.size() || s[i + 1] < 0xDC00 || s[i + 1] > 0xDFFF) return false; if ((s[i + 1] & 0x3FE) == 0x3FE && (c & 0x3F) == 0x3F) return false; i++; continue; }
        if (c >= 0xDC00 && c <= 0xDFFF) return false;
        if (c >= 0xFDD0 && c <= 0xFDEF) return false;
        if (c >= 0xFFFE) return false;
    }
    return true;
}
static bool valid_item(const ustr &s) { return s.size() >= 2 && s[0] == u'_' && valid_chars(s); }
static bool valid_code(const ustr &s) { return !s.empty() && valid_chars(s); }

// ---------------------------------------------------------------------------------------------------------------
struct Op { int code = 0; std::vector<long> a; std::vector<std::string> s; };
enum { OP_CREATE_BLOCK, OP_CREATE_FRAME, OP_DESTROY_CONT, OP_GET_CONT, OP_CREATE_LOOP, OP_SET_VALUE, OP_GET_VALUE, OP_REMOVE_ITEM,
       OP_GET_ITEM_LOOP, OP_GET_CAT_LOOP, OP_ADD_ITEM, OP_ADD_PACKET, OP_LOOP_DESTROY, OP_SET_CATEGORY, OP_PRUNE, OP_ASSERT_BLOCK,
       OP_ITERATE, OP_PARSE_INTO, OP_STALE_LOOP, OP_FAIL_IN_PARSE, OP_FAIL_WITH_OPEN_ITER, N_OPS };
static const char *OP_NAME[] = {"create_block", "create_frame", "destroy_container", "get_container", "create_loop", "set_value", "get_value", "remove_item",
                                "get_item_loop", "get_category_loop", "loop_add_item", "loop_add_packet", "loop_destroy", "loop_set_category", "prune", "assert_block",
                                "iterate", "parse_into", "stale_loop_handle", "fail_in_parse_callback", "fail_with_open_iterator"};

static std::string ser_ops(const std::vector<Op> &ops) {
    std::string o;
    for (auto &op : ops) {
        o += std::to_string(op.code);
        for (long v : op.a) { o += ' '; o += std::to_string(v); }
        for (auto &s : op.s) { o += " |"; std::string e = esc(s); for (char ch : e) { if (ch == '|') o += "\\x7c"; else o += ch; } }
        o += '\n';
    }
    return o;
}
static std::vector<Op> parse_ops(const std::string &t) {
    std::vector<Op> ops; std::istringstream in(t); std::string line;
    while (std::getline(in, line)) {
        if (line.empty()) continue;
        Op op; size_t bar = line.find(" |");
        std::string head = line.substr(0, bar);
        std::istringstream hs(head); long v; bool first = true;
        while (hs >> v) { if (first) { op.code = (int) v; first = false; } else op.a.push_back(v); }
        while (bar != std::string::npos) {
            size_t nxt = line.find(" |", bar + 2);
            op.s.push_back(unesc(line.substr(bar + 2, nxt == std::string::npos ? std::string::npos : nxt - bar - 2)));
            bar = nxt;
        }
        ops.push_back(op);
    }
    return ops;
}
static long arg(const Op &op, size_t i) { return i < op.a.size() ? op.a[i] : 0; }
// raw argument -> pool index, biased towards valid spellings (88% valid) so that histories build up structure
static int item_idx(long r) { return (r % 100 < 88) ? (int) ((r / 3) % N_ITEM_VALID) : N_ITEM_VALID + (int) ((r / 3) % (N_ITEM - N_ITEM_VALID)); }
static int code_idx(long r) { return (r % 100 < 90) ? (int) ((r / 3) % N_CODE_VALID) : N_CODE_VALID + (int) ((r / 3) % (N_CODE - N_CODE_VALID)); }

// ---------------------------------------------------------------------------------------------------------------
// model helpers
struct ContRef { std::vector<size_t> path; };   // path[0] = block index, then frame indices
static void collect(const Container &c, std::vector<size_t> &cur, std::vector<ContRef> &out, int maxdepth = 99) {
    out.push_back({cur});
    if ((int) cur.size() > maxdepth) return;
    for (size_t i = 0; i < c.frames.size(); i++) { cur.push_back(i); collect(c.frames[i], cur, out, maxdepth); cur.pop_back(); }
}
static std::vector<ContRef> all_conts(const Doc &d) {
    std::vector<ContRef> out; std::vector<size_t> cur;
    for (size_t i = 0; i < d.blocks.size(); i++) { cur.assign(1, i); collect(d.blocks[i], cur, out); }
    return out;
}
static Container *at(Doc &d, const ContRef &r) {
    Container *c = &d.blocks[r.path[0]];
    for (size_t i = 1; i < r.path.size(); i++) c = &c->frames[r.path[i]];
    return c;
}
static int find_item(const Container &c, const ustr &name, int *col = nullptr) {
    ustr n = cm::norm_name(name);
    for (size_t l = 0; l < c.loops.size(); l++) for (size_t j = 0; j < c.loops[l].names.size(); j++)
        if (cm::norm_name(c.loops[l].names[j]) == n) { if (col) *col = (int) j; return (int) l; }
    return -1;
}
static int find_code(const std::vector<Container> &v, const ustr &code) {
    ustr n = cm::norm_name(code);
    for (size_t i = 0; i < v.size(); i++) if (cm::norm_name(v[i].code) == n) return (int) i;
    return -1;
}
static int scalar_loop(const Container &c) { for (size_t l = 0; l < c.loops.size(); l++) if (c.loops[l].is_scalar()) return (int) l; return -1; }

// ---------------------------------------------------------------------------------------------------------------
// system under test
struct Sut {
    std::vector<cif_tp *> cifs;
    ~Sut() { for (auto c : cifs) if (c) (void) cif_destroy(c); }
};
// fresh handle on the container a path designates, looked up by (original or normalised) code
static int get_handle(cif_tp *cif, Doc &m, const ContRef &r, bool by_norm, cif_container_tp **out) {
    cif_container_tp *cur = nullptr;
    Container *mc = &m.blocks[r.path[0]];
    ustr code = by_norm ? cm::norm_name(mc->code) : mc->code;
    int rc = cif_get_block(cif, (const UChar *) code.c_str(), &cur);
    if (rc != CIF_OK) return rc;
    for (size_t i = 1; i < r.path.size(); i++) {
        mc = &mc->frames[r.path[i]];
        code = by_norm ? cm::norm_name(mc->code) : mc->code;
        cif_container_tp *nxt = nullptr;
        rc = cif_container_get_frame(cur, (const UChar *) code.c_str(), &nxt);
        cif_container_free(cur);
        if (rc != CIF_OK) return rc;
        cur = nxt;
    }
    *out = cur;
    return CIF_OK;
}
static int get_loop_handle(cif_container_tp *c, const Loop &ml, cif_loop_tp **out) {
    return cif_container_get_item_loop(c, (const UChar *) ml.names[0].c_str(), out);
}

struct Interp {
    std::vector<Doc> model; Sut sut;
    std::string fail;            // first failure
    int opno = 0;
    bool saw_fail_call = false, saw_recreate = false, two_cifs_modified = false, late_position = false, nested_ctx = false;
    std::vector<bool> modified;
    std::set<ustr> removed_names;   // normalised names/codes removed so far (for the "re-created after removal" rule)
    long parse_counter = 0;
    bool strict = false;         // witness replays of known findings: do not skip the excluded classes

    std::string where(const Op &op) { return "op#" + std::to_string(opno) + " " + OP_NAME[op.code]; }
    bool expect(const Op &op, int rc, std::initializer_list<int> allowed, const std::string &detail = "") {
        label(std::string("rc:") + cm::code_name(rc));
        for (int a : allowed) if (a == rc) return true;
        std::string al; for (int a : allowed) { al += cm::code_name(a); al += " "; }
        fail = where(op) + ": returned " + cm::code_name(rc) + ", documented: " + al + detail;
        return false;
    }
    bool check_all(const Op &op) {
        for (size_t i = 0; i < sut.cifs.size(); i++) {
            Doc got; int rc = cm::dump(sut.cifs[i], got);
            if (rc != CIF_OK) { fail = where(op) + ": afterwards dump of cif#" + std::to_string(i) + " failed with " + cm::code_name(rc); return false; }
            std::string g = cm::ser(got, cm::EXACT, true), w = cm::ser(model[i], cm::EXACT, true);
            if (g != w) { fail = where(op) + ": afterwards cif#" + std::to_string(i) + " differs from the data model\n--- model\n" + w + "--- library\n" + g; return false; }
        }
        return true;
    }
    void touched(size_t ci) { modified[ci] = true; int n = 0; for (bool b : modified) n += b; if (n >= 2) two_cifs_modified = true; }
    void note_created(const ustr &name) { if (removed_names.count(cm::norm_name(name))) saw_recreate = true; }
    void note_removed_cont(const Container &c) { removed_names.insert(cm::norm_name(c.code)); for (auto &l : c.loops) for (auto &n : l.names) removed_names.insert(cm::norm_name(n)); for (auto &f : c.frames) note_removed_cont(f); }

    // ---- individual operations; each returns false on failure (fail set) ------------------------------------------------
    bool run(const Op &op);
    bool op_create_loop(const Op &op, size_t ci, cif_container_tp *h, Container *mc);
    bool op_add_packet(const Op &op, size_t ci, cif_container_tp *h, Container *mc, size_t li);
    bool op_iterate(const Op &op, size_t ci, cif_container_tp *h, Container *mc, size_t li);
    bool op_parse_into(const Op &op, size_t ci);
    bool op_fail_in_parse(const Op &op, size_t ci);
    bool op_fail_with_open_iter(const Op &op, size_t ci);
    // a call that must fail, chosen by kind; returns the rc and the set of documented codes
    int failing_call(int kind, int pos, int n, cif_tp *cif, Doc &m, std::vector<int> &allowed, std::string &desc);
};

static Value parse_val(const std::string &s) { Value v; if (!cm::parse_value(s, v)) v = Value::unk(); return v; }

bool Interp::op_create_loop(const Op &op, size_t ci, cif_container_tp *h, Container *mc) {
    const char16_t *cat = CAT_POOL[arg(op, 3) % N_CAT];
    std::vector<ustr> names;
    for (size_t i = 4; i < op.a.size(); i++) names.push_back(ITEM_POOL[item_idx(op.a[i])]);
    std::vector<UChar *> np; for (auto &n : names) np.push_back((UChar *) n.c_str()); np.push_back(nullptr);
    cif_loop_tp *lh = nullptr;
    int rc = cif_container_create_loop(h, (const UChar *) cat, np.data(), &lh);
    if (lh) cif_loop_free(lh);
    // model
    std::vector<int> errs; bool invalid = false, dup = false;
    if (names.empty()) errs.push_back(CIF_NULL_LOOP);
    for (size_t i = 0; i < names.size(); i++) {
        if (!valid_item(names[i])) { invalid = true; if (i > 0) late_position = true; }
        else {
            if (find_item(*mc, names[i]) >= 0) { dup = true; if (i > 0) late_position = true; }
            for (size_t j = 0; j < i; j++) if (valid_item(names[j]) && cm::norm_name(names[j]) == cm::norm_name(names[i])) { dup = true; late_position = true; }
        }
    }
    if (invalid) errs.push_back(CIF_INVALID_ITEMNAME);
    else {
        if (dup) errs.push_back(CIF_DUP_ITEMNAME);
        if (cat && !*cat && scalar_loop(*mc) >= 0) errs.push_back(CIF_RESERVED_LOOP);
    }
    if (!errs.empty()) {
        saw_fail_call = true;
        bool ok = false; for (int e : errs) if (e == rc) ok = true;
        label(std::string("rc:") + cm::code_name(rc));
        if (!ok) { std::string al; for (int e : errs) { al += cm::code_name(e); al += " "; } fail = where(op) + ": returned " + cm::code_name(rc) + ", documented: " + al; return false; }
        return true;
    }
    if (!expect(op, rc, {CIF_OK})) return false;
    Loop l; l.has_cat = cat != nullptr; if (cat) l.cat = cat; l.names = names;
    for (auto &n : names) note_created(n);
    mc->loops.push_back(l); touched(ci);
    return true;
}

bool Interp::op_add_packet(const Op &op, size_t ci, cif_container_tp *h, Container *mc, size_t li) {
    Loop &ml = mc->loops[li];
    int mode = (int) (arg(op, 3) % 8);   // 0-3 full, 4 empty, 5 foreign item, 6 partial (excluded), 7 full with variant spelling
    cif_loop_tp *lh = nullptr;
    int rc = get_loop_handle(h, ml, &lh);
    if (rc != CIF_OK) { fail = where(op) + ": cannot acquire loop handle: " + cm::code_name(rc); return false; }
    std::vector<ustr> pnames; std::vector<Value> pvals;
    size_t vi = 0;
    auto nextval = [&]() { Value v = vi < op.s.size() ? parse_val(op.s[vi]) : Value::unk(); vi++; return v; };
    if (mode != 4) for (auto &n : ml.names) { pnames.push_back(mode == 7 ? cm::norm_name(n) : n); pvals.push_back(nextval()); }
    bool foreign = false;
    if (mode == 5) {
        // a name that is valid but not in this loop (may exist elsewhere in the container, or nowhere)
        for (int k = 0; k < N_ITEM_VALID; k++) {
            ustr cand = ITEM_POOL[(arg(op, 4) + k) % N_ITEM_VALID]; int col;
            int fl = find_item(*mc, cand, &col);
            if (fl != (int) li) {
                size_t pos = pnames.empty() ? 0 : (size_t) (arg(op, 5) % (long) (pnames.size() + 1));
                pnames.insert(pnames.begin() + pos, cand); pvals.insert(pvals.begin() + pos, nextval()); foreign = true;
                if (pos > 0) late_position = true;
                break;
            }
        }
    }
    // partial packet: a generated non-empty proper subset of the loop's items; the omitted ones are documented to get the explicit
    // unknown value (F-PARTIAL, fixed: nothing used to be stored for them)
    std::vector<size_t> kept_idx; bool partial = false;
    if (mode == 6 && ml.names.size() >= 2) {
        unsigned long mask = (unsigned long) arg(op, 5); size_t n = ml.names.size();
        std::vector<bool> keep(n); size_t kept = 0;
        for (size_t i = 0; i < n; i++) { keep[i] = (mask >> (i % 30)) & 1; if (keep[i]) kept++; }
        if (kept == 0) { keep[(size_t) (mask % n)] = true; kept = 1; }
        if (kept == n) keep[(size_t) ((mask / 7) % n)] = false;
        std::vector<ustr> kn; std::vector<Value> kv;
        for (size_t i = 0; i < n; i++) if (keep[i]) { kn.push_back(pnames[i]); kv.push_back(pvals[i]); kept_idx.push_back(i); }
        pnames = kn; pvals = kv; partial = true; label("partial-packet");
    }
    cif_packet_tp *pkt = nullptr;
    std::vector<UChar *> np; for (auto &n : pnames) np.push_back((UChar *) n.c_str()); np.push_back(nullptr);
    rc = cif_packet_create(&pkt, np.data());
    if (rc != CIF_OK) { cif_loop_free(lh); fail = where(op) + ": cif_packet_create failed: " + cm::code_name(rc); return false; }
    for (size_t i = 0; i < pnames.size(); i++) {
        cif_value_tp *v = nullptr;
        if (cm::to_cif(pvals[i], &v) == CIF_OK) { (void) cif_packet_set_item(pkt, (const UChar *) pnames[i].c_str(), v); cif_value_free(v); }
        else pvals[i] = Value::unk();
    }
    rc = cif_loop_add_packet(lh, pkt);
    cif_packet_free(pkt); cif_loop_free(lh);
    std::vector<int> errs;
    if (pnames.empty()) errs.push_back(CIF_INVALID_PACKET);
    if (foreign) errs.push_back(CIF_WRONG_LOOP);
    if (ml.is_scalar() && !ml.rows.empty() && !pnames.empty()) errs.push_back(CIF_RESERVED_LOOP);
    if (!errs.empty()) {
        saw_fail_call = true; label(std::string("rc:") + cm::code_name(rc));
        bool ok = false; for (int e : errs) if (e == rc) ok = true;
        if (!ok) { std::string al; for (int e : errs) { al += cm::code_name(e); al += " "; } fail = where(op) + ": returned " + cm::code_name(rc) + ", documented: " + al; return false; }
        return true;
    }
    if (!expect(op, rc, {CIF_OK})) return false;
    if (partial) { std::vector<Value> row(ml.names.size(), Value::unk()); for (size_t i = 0; i < kept_idx.size(); i++) row[kept_idx[i]] = pvals[i]; pvals = row; }
    ml.rows.push_back(pvals); touched(ci);
    if (partial) {
        // packet iteration synthesises unknown values for whatever is missing, so ask directly whether the omitted items now HAVE a value in
        // this packet: with one packet the item is found, with more it is ambiguous; never CIF_NOSUCH_ITEM, never CIF_OK with several packets
        for (size_t i = 0; i < ml.names.size(); i++) {
            if (std::find(kept_idx.begin(), kept_idx.end(), i) != kept_idx.end()) continue;
            int grc = cif_container_get_value(h, (const UChar *) ml.names[i].c_str(), nullptr);
            int want = ml.rows.size() == 1 ? CIF_OK : CIF_AMBIGUOUS_ITEM;
            if (grc != want) { fail = where(op) + ": after a partial packet cif_container_get_value(" + uesc(ml.names[i]) + ") returned " + cm::code_name(grc) + ", expected " + cm::code_name(want) + " (the item the packet omitted has a value in each of the loop's " + std::to_string(ml.rows.size()) + " packets)"; return false; }
        }
    }
    return true;
}

bool Interp::op_iterate(const Op &op, size_t ci, cif_container_tp *h, Container *mc, size_t li) {
    Loop &ml = mc->loops[li];
    cif_loop_tp *lh = nullptr; cif_pktitr_tp *it = nullptr;
    int rc = get_loop_handle(h, ml, &lh);
    if (rc != CIF_OK) { fail = where(op) + ": cannot acquire loop handle: " + cm::code_name(rc); return false; }
    rc = cif_loop_get_packets(lh, &it);
    if (ml.rows.empty()) { cif_loop_free(lh); if (it) (void) cif_pktitr_abort(it); return expect(op, rc, {CIF_EMPTY_LOOP}); }
    if (!expect(op, rc, {CIF_OK})) { cif_loop_free(lh); return false; }
    // script: a[3] = close(0)/abort(1); a[4..] per delivered packet: 0 keep, 1 update first item, 2 remove, 3 update all items
    bool abort_it = arg(op, 3) % 2;
    std::vector<std::vector<Value>> edited = ml.rows;      // delivery order is unspecified: match delivered packets to rows by content
    std::vector<bool> used(edited.size(), false), removed(edited.size(), false);
    cif_packet_tp *pkt = nullptr; size_t k = 0, vi = 0; bool ok = true;
    while (ok && (rc = cif_pktitr_next_packet(it, &pkt)) == CIF_OK) {
        std::vector<Value> row;
        for (auto &n : ml.names) { cif_value_tp *v = nullptr; Value mv; if (cif_packet_get_item(pkt, (const UChar *) n.c_str(), &v) != CIF_OK || cm::from_cif(v, mv) != CIF_OK) { fail = where(op) + ": delivered packet lacks item " + uesc(n); ok = false; break; } row.push_back(mv); }
        if (!ok) break;
        size_t idx = edited.size();
        for (size_t r = 0; r < ml.rows.size(); r++) if (!used[r]) { bool same = true; for (size_t j = 0; j < row.size(); j++) if (cm::ser(row[j]) != cm::ser(ml.rows[r][j])) same = false; if (same) { idx = r; break; } }
        if (idx == edited.size()) { fail = where(op) + ": iterator delivered a packet that is not (or no longer) in the loop"; ok = false; break; }
        used[idx] = true;
        int act = (int) (arg(op, 4 + k) % 4); k++;
        if (act == 1 || act == 3) {
            cif_packet_tp *up = nullptr;
            size_t ncols = act == 1 ? 1 : ml.names.size();
            std::vector<UChar *> np; for (size_t j = 0; j < ncols; j++) np.push_back((UChar *) ml.names[j].c_str()); np.push_back(nullptr);
            if (cif_packet_create(&up, np.data()) != CIF_OK) { fail = where(op) + ": packet_create failed"; ok = false; break; }
            for (size_t j = 0; j < ncols; j++) {
                Value nv = vi < op.s.size() ? parse_val(op.s[vi]) : Value::chr(u"upd"); vi++;
                cif_value_tp *v = nullptr;
                if (cm::to_cif(nv, &v) != CIF_OK) { nv = Value::unk(); (void) cm::to_cif(nv, &v); }
                (void) cif_packet_set_item(up, (const UChar *) ml.names[j].c_str(), v); cif_value_free(v);
                edited[idx][j] = nv;
            }
            int urc = cif_pktitr_update_packet(it, up);
            cif_packet_free(up);
            if (!expect(op, urc, {CIF_OK}, " (update_packet)")) { ok = false; break; }
        } else if (act == 2) {
            int rrc = cif_pktitr_remove_packet(it);
            if (!expect(op, rrc, {CIF_OK}, " (remove_packet)")) { ok = false; break; }
            removed[idx] = true;
        }
    }
    cif_packet_free(pkt);
    if (ok && rc != CIF_FINISHED) { fail = where(op) + ": next_packet ended with " + cm::code_name(rc); ok = false; }
    if (ok) for (size_t r = 0; r < used.size(); r++) if (!used[r]) { fail = where(op) + ": a packet of the loop was never delivered"; ok = false; break; }
    int crc = abort_it ? cif_pktitr_abort(it) : cif_pktitr_close(it);
    cif_loop_free(lh);
    if (!ok) return false;
    if (!expect(op, crc, {CIF_OK}, abort_it ? " (abort)" : " (close)")) return false;
    if (!abort_it) {
        std::vector<std::vector<Value>> nr;
        for (size_t r = 0; r < edited.size(); r++) if (!removed[r]) nr.push_back(edited[r]);
        if (nr.size() != ml.rows.size() || true) touched(ci);
        ml.rows = nr;
    }
    label(abort_it ? "iter:abort" : "iter:close");
    return true;
}

// a tiny document with fresh block codes, printed plainly
static std::string small_doc(long counter, const Op &op, Doc &add) {
    std::string s = "#\\#CIF_2.0\n";
    int nb = 1 + (int) (arg(op, 2) % 2);
    size_t vi = 0;
    for (int b = 0; b < nb; b++) {
        Container c; c.code = u16("P" + std::to_string(counter) + "_" + std::to_string(b));
        s += "data_" + u8(c.code) + "\n";
        Loop sc; sc.has_cat = true; sc.names = {u"_s1", u"_S2"}; sc.rows.push_back({Value::chr(u"v1", false), Value::chr(u"two words", true)});
        s += "_s1 v1 _S2 'two words'\n";
        c.loops.push_back(sc);
        if (arg(op, 3) % 2) {
            Loop l; l.has_cat = false; l.names = {u"_l1", u"_l2"};
            l.rows.push_back({Value::chr(u"1", false), Value::unk()}); l.rows.push_back({Value::chr(u"2", false), Value::na()});
            s += "loop_ _l1 _l2 1 ? 2 .\n";
            c.loops.push_back(l);
        }
        if (arg(op, 4) % 2) { Container f; f.code = u"Fr"; Loop fs; fs.has_cat = true; fs.names = {u"_f"}; fs.rows.push_back({Value::list({Value::chr(u"a", false), Value::chr(u"b", true)})}); f.loops.push_back(fs); c.frames.push_back(f); s += "save_Fr _f [a 'b'] save_\n"; }
        add.blocks.push_back(c);
    }
    (void) vi;
    return s;
}

bool Interp::op_parse_into(const Op &op, size_t ci) {
    Doc add; std::string text = small_doc(parse_counter++, op, add);
    struct cif_parse_opts_s *po = nullptr; ph::ErrLog log;
    if (cif_parse_options_create(&po) != CIF_OK) { fail = "parse options"; return false; }
    cif_tp *target = sut.cifs[ci];
    int rc = ph::parse_bytes(text, po, &target, &log);
    cm::ufree(po);
    if (!log.errs.empty()) { fail = where(op) + ": parsing a well-formed document into the CIF reported " + ph::errs_str(log); return false; }
    if (!expect(op, rc, {CIF_OK})) return false;
    for (auto &b : add.blocks) model[ci].blocks.push_back(b);
    touched(ci);
    return true;
}

// ---- failing calls (C05) -------------------------------------------------------------------------------------------------
// kind: 0 create_block duplicate, 1 create_block invalid, 2 create_loop with bad name at position pos of n, 3 add_packet with foreign item at pos,
//       4 empty packet, 5 set_value invalid name, 6 add_item duplicate, 7 second scalar packet, 8 set_category(""), 9 create_frame duplicate
int Interp::failing_call(int kind, int pos, int n, cif_tp *cif, Doc &m, std::vector<int> &allowed, std::string &desc) {
    auto conts = all_conts(m);
    cif_container_tp *h = nullptr; Container *mc = nullptr;
    if (!conts.empty()) { const ContRef &r = conts[(size_t) pos % conts.size()]; if (get_handle(cif, m, r, false, &h) == CIF_OK) mc = at(m, r); }
    int rc = -1;
    n = std::max(1, std::min(n, 5)); pos = pos % n;
    switch (kind % 10) {
    case 0: if (m.blocks.empty()) break; desc = "create_block duplicate"; allowed = {CIF_DUP_BLOCKCODE};
        rc = cif_create_block(cif, (const UChar *) cm::norm_name(m.blocks[(size_t) pos % m.blocks.size()].code).c_str(), nullptr); break;
    case 1: desc = "create_block invalid"; allowed = {CIF_INVALID_BLOCKCODE}; rc = cif_create_block(cif, u"bad code", nullptr); break;
    case 2: {
        if (!mc) break;
        // n names, the offending one at index pos: invalid (kind bit) or duplicate of an existing item / of an earlier list entry
        std::vector<ustr> names; int fresh = 0;
        for (int i = 0; i < n; i++) {
            if (i == pos) {
                int which = (kind / 10) % 3;
                if (which == 0) { names.push_back(u"_bad name"); allowed = {CIF_INVALID_ITEMNAME}; }
                else if (which == 1 && !mc->loops.empty()) { names.push_back(cm::norm_name(mc->loops[0].names[0])); allowed = {CIF_DUP_ITEMNAME}; }
                else if (i > 0) { names.push_back(names[0]); allowed = {CIF_DUP_ITEMNAME}; }
                else { names.push_back(u"_"); allowed = {CIF_INVALID_ITEMNAME}; }
            } else { ustr f; do { f = u16("_fresh" + std::to_string(fresh++)); } while (find_item(*mc, f) >= 0); names.push_back(f); }
        }
        std::vector<UChar *> np; for (auto &s : names) np.push_back((UChar *) s.c_str()); np.push_back(nullptr);
        cif_loop_tp *lh = nullptr; desc = "create_loop offending name at " + std::to_string(pos) + "/" + std::to_string(n);
        rc = cif_container_create_loop(h, u"cat", np.data(), &lh); if (lh) cif_loop_free(lh);
        if (pos > 0) late_position = true;
        break; }
    case 3: case 4: case 7: {
        if (!mc || mc->loops.empty()) break;
        size_t li = (size_t) n % mc->loops.size(); Loop &ml = mc->loops[li];
        if ((kind % 10) == 7) { int sl = scalar_loop(*mc); if (sl < 0 || mc->loops[sl].rows.empty()) break; li = (size_t) sl; }
        Loop &l2 = mc->loops[li]; (void) ml;
        cif_loop_tp *lh = nullptr; if (get_loop_handle(h, l2, &lh) != CIF_OK) break;
        std::vector<ustr> pn;
        if ((kind % 10) != 4) for (auto &s : l2.names) pn.push_back(s);
        if ((kind % 10) == 3) {
            ustr f; int k = 0; do { f = u16("_foreign" + std::to_string(k++)); } while (find_item(*mc, f) >= 0);
            // half of the time an item that exists in ANOTHER loop of the container
            for (size_t o = 0; o < mc->loops.size(); o++) if (o != li && (kind / 10) % 2) { f = mc->loops[o].names[0]; break; }
            size_t p = (size_t) pos % (pn.size() + 1); pn.insert(pn.begin() + p, f); if (p > 0) late_position = true;
            allowed = {CIF_WRONG_LOOP}; if (l2.is_scalar() && !l2.rows.empty()) allowed.push_back(CIF_RESERVED_LOOP);
            desc = "add_packet foreign item at " + std::to_string(p);
        } else if ((kind % 10) == 4) { allowed = {CIF_INVALID_PACKET}; desc = "add_packet empty"; }
        else { allowed = {CIF_RESERVED_LOOP}; desc = "second scalar packet"; }
        std::vector<UChar *> np; for (auto &s : pn) np.push_back((UChar *) s.c_str()); np.push_back(nullptr);
        cif_packet_tp *pkt = nullptr;
        if (cif_packet_create(&pkt, np.data()) == CIF_OK) { rc = cif_loop_add_packet(lh, pkt); cif_packet_free(pkt); }
        cif_loop_free(lh);
        break; }
    case 5: if (!mc) break; desc = "set_value invalid name"; allowed = {CIF_INVALID_ITEMNAME}; rc = cif_container_set_value(h, u"no_underscore", nullptr); break;
    case 6: {
        if (!mc || mc->loops.empty()) break;
        Loop &l2 = mc->loops[(size_t) n % mc->loops.size()];
        cif_loop_tp *lh = nullptr; if (get_loop_handle(h, l2, &lh) != CIF_OK) break;
        const Loop &other = mc->loops[(size_t) pos % mc->loops.size()];
        desc = "loop_add_item duplicate"; allowed = {CIF_DUP_ITEMNAME};
        rc = cif_loop_add_item(lh, (const UChar *) cm::norm_name(other.names.back()).c_str(), nullptr); cif_loop_free(lh);
        break; }
    case 8: {
        if (!mc || mc->loops.empty()) break;
        Loop &l2 = mc->loops[(size_t) n % mc->loops.size()];
        if (l2.is_scalar()) break;
        cif_loop_tp *lh = nullptr; if (get_loop_handle(h, l2, &lh) != CIF_OK) break;
        desc = "set_category(\"\")"; allowed = {CIF_RESERVED_LOOP}; rc = cif_loop_set_category(lh, u""); cif_loop_free(lh);
        break; }
    case 9: {
        if (!mc || mc->frames.empty()) break;
        desc = "create_frame duplicate"; allowed = {CIF_DUP_FRAMECODE};
        rc = cif_container_create_frame(h, (const UChar *) cm::norm_name(mc->frames[(size_t) n % mc->frames.size()].code).c_str(), nullptr);
        break; }
    }
    if (h) cif_container_free(h);
    return rc;
}

struct FailCtx { Interp *in; size_t ci; int kind, pos, n; int rc = -1; std::vector<int> allowed; std::string desc; int at_event; int events = 0; };
static int fip_trigger(FailCtx *f) {
    if (f->events++ == f->at_event) f->rc = f->in->failing_call(f->kind, f->pos, f->n, f->in->sut.cifs[f->ci], f->in->model[f->ci], f->allowed, f->desc);
    return CIF_TRAVERSE_CONTINUE;
}
// The handler receives user_data; we smuggle the FailCtx through a wrapper struct instead of abusing ErrLog:
struct ParseUD { ph::ErrLog log; FailCtx *f; };
static int ud_err(int code, size_t line, size_t col, const UChar *t, size_t len, void *d) { return ph::log_cb(code, line, col, t, len, &((ParseUD *) d)->log); }
static int ud_block_start(cif_container_tp *, void *d) { return fip_trigger(((ParseUD *) d)->f); }
static int ud_item(UChar *, cif_value_tp *, void *d) { return fip_trigger(((ParseUD *) d)->f); }
static int ud_loop_start(cif_loop_tp *, void *d) { return fip_trigger(((ParseUD *) d)->f); }

bool Interp::op_fail_in_parse(const Op &op, size_t ci) {
    // parse a small document into the CIF; at the k-th handler event make a call that must fail.  The failing call's target is
    // content that existed BEFORE the parse started (the model as of now).
    Doc add; std::string text = small_doc(parse_counter++, op, add);
    FailCtx f{this, ci, (int) arg(op, 5), (int) arg(op, 6), (int) arg(op, 7)}; f.at_event = (int) (arg(op, 8) % 4);
    ParseUD ud; ud.f = &f;
    cif_handler_tp hd; memset(&hd, 0, sizeof hd); hd.handle_block_start = ud_block_start; hd.handle_item = ud_item; hd.handle_loop_start = ud_loop_start;
    struct cif_parse_opts_s *po = nullptr;
    if (cif_parse_options_create(&po) != CIF_OK) { fail = "parse options"; return false; }
    po->handler = &hd; po->error_callback = ud_err; po->user_data = &ud;
    cif_tp *target = sut.cifs[ci];
    FILE *fp = ph::mem_file(text);
    int rc = cif_parse(fp, po, &target); fclose(fp);
    cm::ufree(po);
    nested_ctx = true;
    if (f.rc >= 0) {
        saw_fail_call = true; label("fail-in-parse:" + f.desc.substr(0, f.desc.find(' ')));
        bool ok = false; for (int a : f.allowed) if (a == f.rc) ok = true;
        if (!ok) { fail = where(op) + ": failing call (" + f.desc + ") made from a parse handler returned " + cm::code_name(f.rc); return false; }
    }
    if (!ud.log.errs.empty()) { fail = where(op) + ": parse reported " + ph::errs_str(ud.log) + " after a failed API call (" + f.desc + ") in a handler"; return false; }
    if (!expect(op, rc, {CIF_OK})) return false;
    for (auto &b : add.blocks) model[ci].blocks.push_back(b);
    touched(ci);
    return true;
}

bool Interp::op_fail_with_open_iter(const Op &op, size_t ci) {
    // open an iterator on a loop of ANOTHER managed CIF, make a failing call on this one, close the iterator
    if (sut.cifs.size() < 2) return true;
    size_t other = (ci + 1) % sut.cifs.size();
    cif_pktitr_tp *it = nullptr; cif_loop_tp *lh = nullptr; cif_container_tp *oh = nullptr;
    auto oc = all_conts(model[other]);
    for (auto &r : oc) { Container *c = at(model[other], r); for (auto &l : c->loops) if (!l.rows.empty() && !it) { if (get_handle(sut.cifs[other], model[other], r, false, &oh) == CIF_OK && get_loop_handle(oh, l, &lh) == CIF_OK) { if (cif_loop_get_packets(lh, &it) != CIF_OK) it = nullptr; } } if (it) break; if (lh) { cif_loop_free(lh); lh = nullptr; } if (oh) { cif_container_free(oh); oh = nullptr; } }
    std::vector<int> allowed; std::string desc;
    int rc = failing_call((int) arg(op, 5), (int) arg(op, 6), (int) arg(op, 7), sut.cifs[ci], model[ci], allowed, desc);
    if (it) { nested_ctx = true; int crc = cif_pktitr_close(it); if (crc != CIF_OK) { fail = where(op) + ": closing the iterator on the other CIF returned " + cm::code_name(crc); } }
    if (lh) cif_loop_free(lh);
    if (oh) cif_container_free(oh);
    if (!fail.empty()) return false;
    if (rc >= 0) {
        saw_fail_call = true; label("fail-open-iter:" + desc.substr(0, desc.find(' ')));
        bool ok = false; for (int a : allowed) if (a == rc) ok = true;
        if (!ok) { fail = where(op) + ": failing call (" + desc + ") returned " + cm::code_name(rc); return false; }
    }
    return true;
}

bool Interp::run(const Op &op) {
    label(std::string("op:") + OP_NAME[op.code]);
    size_t ci = (size_t) arg(op, 0) % sut.cifs.size();
    cif_tp *cif = sut.cifs[ci]; Doc &m = model[ci];
    if (op.code == OP_CREATE_BLOCK) {
        ustr code = CODE_POOL[code_idx(arg(op, 1))];
        cif_block_tp *b = nullptr;
        int rc = cif_create_block(cif, (const UChar *) code.c_str(), arg(op, 2) % 2 ? &b : nullptr);
        if (b) cif_container_free(b);
        if (!valid_code(code)) { saw_fail_call = true; return expect(op, rc, {CIF_INVALID_BLOCKCODE}); }
        if (find_code(m.blocks, code) >= 0) { saw_fail_call = true; return expect(op, rc, {CIF_DUP_BLOCKCODE}); }
        if (!expect(op, rc, {CIF_OK})) return false;
        Container c; c.code = code; m.blocks.push_back(c); touched(ci); note_created(code);
        return true;
    }
    if (op.code == OP_PARSE_INTO) return op_parse_into(op, ci);
    if (op.code == OP_FAIL_IN_PARSE) return op_fail_in_parse(op, ci);
    if (op.code == OP_FAIL_WITH_OPEN_ITER) return op_fail_with_open_iter(op, ci);
    auto conts = all_conts(m);
    if (conts.empty()) { label("skipped:no-container"); return true; }
    const ContRef &ref = conts[(size_t) arg(op, 1) % conts.size()];
    Container *mc = at(m, ref);
    cif_container_tp *h = nullptr;
    int hrc = get_handle(cif, m, ref, arg(op, 2) % 4 == 3, &h);
    if (hrc != CIF_OK) { fail = where(op) + ": cannot look up an existing container: " + cm::code_name(hrc); return false; }
    struct Free { cif_container_tp *&h; ~Free() { if (h) cif_container_free(h); } } fr{h};
    auto pick_loop = [&](size_t &li) { if (mc->loops.empty()) return false; li = (size_t) arg(op, 2) / 4 % mc->loops.size(); return true; };
    switch (op.code) {
    case OP_CREATE_FRAME: {
        if (ref.path.size() > 3) { label("skipped:depth"); return true; }
        ustr code = CODE_POOL[code_idx(arg(op, 3))];
        cif_container_tp *f = nullptr;
        int rc = cif_container_create_frame(h, (const UChar *) code.c_str(), arg(op, 4) % 2 ? &f : nullptr);
        if (f) cif_container_free(f);
        if (!valid_code(code)) { saw_fail_call = true; return expect(op, rc, {CIF_INVALID_FRAMECODE}); }
        if (find_code(mc->frames, code) >= 0) { saw_fail_call = true; return expect(op, rc, {CIF_DUP_FRAMECODE}); }
        if (!expect(op, rc, {CIF_OK})) return false;
        Container c; c.code = code; mc->frames.push_back(c); touched(ci); note_created(code);
        return true; }
    case OP_DESTROY_CONT: {
        int rc = cif_container_destroy(h); h = nullptr;
        if (!expect(op, rc, {CIF_OK})) return false;
        note_removed_cont(*mc);
        if (ref.path.size() == 1) m.blocks.erase(m.blocks.begin() + ref.path[0]);
        else { ContRef parent{std::vector<size_t>(ref.path.begin(), ref.path.end() - 1)}; Container *pc = at(m, parent); pc->frames.erase(pc->frames.begin() + ref.path.back()); }
        touched(ci);
        return true; }
    case OP_GET_CONT: {
        // look up a child frame (or, for blocks, a block) by a pool spelling
        ustr code = CODE_POOL[code_idx(arg(op, 3))];
        cif_container_tp *f = nullptr;
        int rc = cif_container_get_frame(h, (const UChar *) code.c_str(), &f);
        int idx = valid_code(code) ? find_code(mc->frames, code) : -1;
        if (idx < 0) {   // an invalid code cannot name a frame: CIF_NOSUCH_FRAME per cif.h; CIF_INVALID_FRAMECODE is tolerated as equally informative
            if (f) cif_container_free(f);
            if (!(valid_code(code) ? expect(op, rc, {CIF_NOSUCH_FRAME}) : expect(op, rc, {CIF_NOSUCH_FRAME, CIF_INVALID_FRAMECODE}))) return false;
            int brc0 = cif_get_block(cif, (const UChar *) code.c_str(), nullptr);
            if (!valid_code(code)) return expect(op, brc0, {CIF_NOSUCH_BLOCK, CIF_INVALID_BLOCKCODE}, " (cif_get_block)");
            return expect(op, brc0, {find_code(m.blocks, code) >= 0 ? CIF_OK : CIF_NOSUCH_BLOCK}, " (cif_get_block)");
        }
        if (!expect(op, rc, {CIF_OK})) { if (f) cif_container_free(f); return false; }
        UChar *got = nullptr; int grc = cif_container_get_code(f, &got); ustr gs = cm::take(got); cif_container_free(f);
        if (grc != CIF_OK || gs != mc->frames[idx].code) { fail = where(op) + ": frame code read back as " + uesc(gs) + ", created as " + uesc(mc->frames[idx].code); return false; }
        int brc = cif_get_block(cif, (const UChar *) code.c_str(), nullptr);
        return expect(op, brc, {valid_code(code) && find_code(m.blocks, code) >= 0 ? CIF_OK : CIF_NOSUCH_BLOCK}, " (cif_get_block)"); }
    case OP_CREATE_LOOP: return op_create_loop(op, ci, h, mc);
    case OP_SET_VALUE: {
        ustr name = ITEM_POOL[item_idx(arg(op, 3))];
        Value v = op.s.empty() ? Value::unk() : parse_val(op.s[0]);
        bool null_val = arg(op, 4) % 5 == 0;
        int col; int li = valid_item(name) ? find_item(*mc, name, &col) : -1;
        if (valid_item(name) && li < 0) {
            int sl = scalar_loop(*mc);
            if (sl >= 0 && mc->loops[sl].rows.empty() && !mc->loops[sl].names.empty()) label("set_value:first-scalar-packet-of-named-scalar-loop");
        }
        cif_value_tp *cv = nullptr;
        if (!null_val && cm::to_cif(v, &cv) != CIF_OK) { null_val = true; }
        if (null_val) v = Value::unk();
        int rc = cif_container_set_value(h, (const UChar *) name.c_str(), null_val ? nullptr : cv);
        cif_value_free(cv);
        if (!valid_item(name)) { saw_fail_call = true; return expect(op, rc, {CIF_INVALID_ITEMNAME}); }
        if (!expect(op, rc, {CIF_OK})) return false;
        if (li >= 0) { for (auto &r : mc->loops[li].rows) r[col] = v; }
        else {
            int sl = scalar_loop(*mc);
            if (sl < 0) { Loop s; s.has_cat = true; mc->loops.push_back(s); sl = (int) mc->loops.size() - 1; }
            Loop &s = mc->loops[sl]; s.names.push_back(name);
            if (s.rows.empty()) { std::vector<Value> row(s.names.size() - 1, Value::unk()); row.push_back(v); s.rows.push_back(row); } else s.rows[0].push_back(v);
            note_created(name);
        }
        touched(ci);
        return true; }
    case OP_GET_VALUE: {
        ustr name = ITEM_POOL[item_idx(arg(op, 3))];
        cif_value_tp *got = nullptr;
        if (arg(op, 4) % 3 == 0) (void) cif_value_create(CIF_LIST_KIND, &got);   // into an existing value object
        bool want_val = arg(op, 4) % 3 != 1;
        int rc = cif_container_get_value(h, (const UChar *) name.c_str(), want_val ? &got : nullptr);
        int col; int li = valid_item(name) ? find_item(*mc, name, &col) : -1;
        bool ok;
        if (li < 0 || mc->loops[li].rows.empty()) ok = expect(op, rc, {CIF_NOSUCH_ITEM});
        else if (mc->loops[li].rows.size() == 1) ok = expect(op, rc, {CIF_OK});
        else ok = expect(op, rc, {CIF_AMBIGUOUS_ITEM});
        if (ok && want_val && li >= 0 && !mc->loops[li].rows.empty()) {
            Value gv; bool match = false;
            if (got && cm::from_cif(got, gv) == CIF_OK) for (auto &r : mc->loops[li].rows) if (cm::ser(r[col]) == cm::ser(gv)) match = true;
            if (!match) { fail = where(op) + ": get_value returned " + (got ? cm::ser(gv) : std::string("nothing")) + " which is none of the item's values"; ok = false; }
        }
        cif_value_free(got);
        return ok; }
    case OP_REMOVE_ITEM: {
        ustr name = ITEM_POOL[item_idx(arg(op, 3))];
        int rc = cif_container_remove_item(h, (const UChar *) name.c_str());
        int col; int li = valid_item(name) ? find_item(*mc, name, &col) : -1;
        if (li < 0) { saw_fail_call = true; return expect(op, rc, {CIF_NOSUCH_ITEM}); }
        if (!expect(op, rc, {CIF_OK})) return false;
        Loop &l = mc->loops[li];
        removed_names.insert(cm::norm_name(l.names[col]));
        if (l.names.size() == 1) mc->loops.erase(mc->loops.begin() + li);
        else { l.names.erase(l.names.begin() + col); for (auto &r : l.rows) r.erase(r.begin() + col); }
        touched(ci);
        return true; }
    case OP_GET_ITEM_LOOP: {
        ustr name = ITEM_POOL[item_idx(arg(op, 3))];
        cif_loop_tp *lh = nullptr;
        int rc = cif_container_get_item_loop(h, (const UChar *) name.c_str(), arg(op, 4) % 2 ? &lh : nullptr);
        int li = valid_item(name) ? find_item(*mc, name) : -1;
        bool ok = expect(op, rc, {li >= 0 ? CIF_OK : CIF_NOSUCH_ITEM});
        if (ok && lh) { Loop got; int drc = cm::dump_loop(lh, got); std::vector<ustr> a = got.names, b = mc->loops[li].names; std::sort(a.begin(), a.end()); std::sort(b.begin(), b.end()); if (drc != CIF_OK || a != b) { fail = where(op) + ": handle is not on the item's loop"; ok = false; } }
        if (lh) cif_loop_free(lh);
        return ok; }
    case OP_GET_CAT_LOOP: {
        const char16_t *cat = CAT_POOL[arg(op, 3) % N_CAT];
        cif_loop_tp *lh = nullptr;
        int rc = cif_container_get_category_loop(h, (const UChar *) cat, &lh);
        if (lh) cif_loop_free(lh);
        if (!cat) return expect(op, rc, {CIF_INVALID_CATEGORY});
        int n = 0; for (auto &l : mc->loops) if (l.has_cat && l.cat == cat) n++;
        return expect(op, rc, {n == 0 ? CIF_NOSUCH_LOOP : n == 1 ? CIF_OK : CIF_CAT_NOT_UNIQUE}); }
    case OP_ADD_ITEM: {
        size_t li; if (!pick_loop(li)) { label("skipped:no-loop"); return true; }
        Loop &ml = mc->loops[li];
        ustr name = ITEM_POOL[item_idx(arg(op, 3))];
        Value v = op.s.empty() ? Value::unk() : parse_val(op.s[0]);
        bool null_val = arg(op, 4) % 4 == 0;
        cif_loop_tp *lh = nullptr;
        if (get_loop_handle(h, ml, &lh) != CIF_OK) { fail = where(op) + ": cannot acquire loop handle"; return false; }
        cif_value_tp *cv = nullptr;
        if (!null_val && cm::to_cif(v, &cv) != CIF_OK) null_val = true;
        if (null_val) v = Value::unk();
        int rc = cif_loop_add_item(lh, (const UChar *) name.c_str(), null_val ? nullptr : cv);
        cif_value_free(cv); cif_loop_free(lh);
        if (!valid_item(name)) { saw_fail_call = true; return expect(op, rc, {CIF_INVALID_ITEMNAME}); }
        if (find_item(*mc, name) >= 0) { saw_fail_call = true; return expect(op, rc, {CIF_DUP_ITEMNAME}); }
        if (!expect(op, rc, {CIF_OK})) return false;
        ml.names.push_back(name); for (auto &r : ml.rows) r.push_back(v);
        note_created(name); touched(ci);
        return true; }
    case OP_ADD_PACKET: { size_t li; if (!pick_loop(li)) { label("skipped:no-loop"); return true; } return op_add_packet(op, ci, h, mc, li); }
    case OP_LOOP_DESTROY: {
        size_t li; if (!pick_loop(li)) { label("skipped:no-loop"); return true; }
        cif_loop_tp *lh = nullptr;
        if (get_loop_handle(h, mc->loops[li], &lh) != CIF_OK) { fail = where(op) + ": cannot acquire loop handle"; return false; }
        int rc = cif_loop_destroy(lh);
        if (rc != CIF_OK) cif_loop_free(lh);
        if (!expect(op, rc, {CIF_OK})) return false;
        for (auto &n : mc->loops[li].names) removed_names.insert(cm::norm_name(n));
        mc->loops.erase(mc->loops.begin() + li); touched(ci);
        return true; }
    case OP_SET_CATEGORY: {
        size_t li; if (!pick_loop(li)) { label("skipped:no-loop"); return true; }
        Loop &ml = mc->loops[li];
        const char16_t *cat = CAT_POOL[arg(op, 3) % N_CAT];
        cif_loop_tp *lh = nullptr;
        if (get_loop_handle(h, ml, &lh) != CIF_OK) { fail = where(op) + ": cannot acquire loop handle"; return false; }
        int rc = cif_loop_set_category(lh, (const UChar *) cat);
        bool ok = true;
        if (ml.is_scalar()) {
            // the scalar loop's category can be neither taken away nor (re)assigned; setting "" again is documented as allowed
            saw_fail_call = true;
            if (cat && !*cat) ok = expect(op, rc, {CIF_OK, CIF_RESERVED_LOOP}); else ok = expect(op, rc, {CIF_RESERVED_LOOP});
        } else if (cat && !*cat) { saw_fail_call = true; ok = expect(op, rc, {CIF_RESERVED_LOOP}); }
        else {
            ok = expect(op, rc, {CIF_OK});
            if (ok) {
                ml.has_cat = cat != nullptr; ml.cat = cat ? ustr(cat) : ustr(); touched(ci);
                UChar *gc = nullptr; int grc = cif_loop_get_category(lh, &gc);   // the handle that made the change reports it
                ustr gs = cm::take(gc);
                if (grc != CIF_OK || gs != ml.cat) { fail = where(op) + ": category read back through the same handle is wrong"; ok = false; }
            }
        }
        cif_loop_free(lh);
        return ok; }
    case OP_PRUNE: {
        int rc = cif_container_prune(h);
        if (!expect(op, rc, {CIF_OK})) return false;
        for (size_t l = mc->loops.size(); l-- > 0;) if (mc->loops[l].rows.empty()) { for (auto &n : mc->loops[l].names) removed_names.insert(cm::norm_name(n)); mc->loops.erase(mc->loops.begin() + l); touched(ci); }
        return true; }
    case OP_ASSERT_BLOCK: return expect(op, cif_container_assert_block(h), {ref.path.size() == 1 ? CIF_OK : CIF_ARGUMENT_ERROR});
    case OP_ITERATE: { size_t li; if (!pick_loop(li)) { label("skipped:no-loop"); return true; } return op_iterate(op, ci, h, mc, li); }
    case OP_STALE_LOOP: {
        // the one stale-handle use the documentation defines: get_packets on a loop that no longer exists -> CIF_INVALID_HANDLE
        size_t li; if (!pick_loop(li)) { label("skipped:no-loop"); return true; }
        cif_loop_tp *h1 = nullptr, *h2 = nullptr;
        if (get_loop_handle(h, mc->loops[li], &h1) != CIF_OK || get_loop_handle(h, mc->loops[li], &h2) != CIF_OK) { if (h1) cif_loop_free(h1); fail = where(op) + ": cannot acquire loop handles"; return false; }
        int rc = cif_loop_destroy(h1);
        if (rc != CIF_OK) { cif_loop_free(h1); cif_loop_free(h2); return expect(op, rc, {CIF_OK}); }
        for (auto &n : mc->loops[li].names) removed_names.insert(cm::norm_name(n));
        mc->loops.erase(mc->loops.begin() + li); touched(ci);
        cif_pktitr_tp *it = nullptr;
        rc = cif_loop_get_packets(h2, &it);
        if (it) (void) cif_pktitr_abort(it);
        cif_loop_free(h2);
        saw_fail_call = true;
        return expect(op, rc, {CIF_INVALID_HANDLE}, " (get_packets through a second handle after the loop was destroyed)"); }
    }
    return true;
}

static std::string run_case(const CaseFile &c) {
    std::vector<Op> ops = parse_ops(c.get("ops"));
    int ncifs = (int) c.geti("ncifs", 2);
    CaseGuard guard;
    std::string msg;
    {
        Interp in;
        for (int i = 0; i < ncifs; i++) { cif_tp *cf = nullptr; if (cif_create(&cf) != CIF_OK) return "cif_create failed"; in.sut.cifs.push_back(cf); in.model.push_back(Doc()); }
        in.modified.assign(ncifs, false);
        in.strict = c.geti("strict") != 0;
        for (auto &op : ops) {
            if (op.code < 0 || op.code >= N_OPS) continue;
            in.opno++;
            if (!in.run(op) || !in.check_all(op)) { msg = in.fail; break; }
        }
        if (msg.empty()) {
            bool nt;
            if (HISTORY_MODE == 4) nt = ops.size() >= 6 && (in.saw_recreate || in.two_cifs_modified);
            else nt = in.saw_fail_call && (in.late_position || in.nested_ctx);
            if (nt) nontrivial(fnv(c.get("ops")));
            if (in.saw_recreate) label("nt:recreate-after-removal");
            if (in.two_cifs_modified) label("nt:two-cifs-modified");
            if (in.late_position) label("nt:offender-not-first");
            if (in.nested_ctx) label("nt:failure-in-nested-context");
        }
        for (auto &cf : in.sut.cifs) { int rc = cif_destroy(cf); cf = nullptr; if (rc != CIF_OK && msg.empty()) msg = "cif_destroy failed"; }
    }
    if (msg.empty()) msg = guard.check();
    return msg;
}

static rc::Gen<Op> gen_op() {
    return rc::gen::exec([]() {
        Op op;
        if (HISTORY_MODE == 4)
            op.code = *rc::gen::weightedElement<int>({{3, OP_CREATE_BLOCK}, {4, OP_CREATE_FRAME}, {1, OP_DESTROY_CONT}, {2, OP_GET_CONT}, {8, OP_CREATE_LOOP}, {10, OP_SET_VALUE},
                                                      {4, OP_GET_VALUE}, {5, OP_REMOVE_ITEM}, {2, OP_GET_ITEM_LOOP}, {2, OP_GET_CAT_LOOP}, {4, OP_ADD_ITEM}, {9, OP_ADD_PACKET},
                                                      {2, OP_LOOP_DESTROY}, {4, OP_SET_CATEGORY}, {2, OP_PRUNE}, {1, OP_ASSERT_BLOCK}, {5, OP_ITERATE}, {2, OP_PARSE_INTO}, {2, OP_STALE_LOOP}});
        else
            op.code = *rc::gen::weightedElement<int>({{5, OP_CREATE_BLOCK}, {3, OP_CREATE_FRAME}, {1, OP_DESTROY_CONT}, {7, OP_CREATE_LOOP}, {7, OP_SET_VALUE}, {2, OP_REMOVE_ITEM},
                                                      {3, OP_ADD_ITEM}, {8, OP_ADD_PACKET}, {2, OP_SET_CATEGORY}, {1, OP_PRUNE}, {3, OP_ITERATE}, {1, OP_PARSE_INTO}, {1, OP_STALE_LOOP},
                                                      {6, OP_FAIL_IN_PARSE}, {6, OP_FAIL_WITH_OPEN_ITER}});
        int nargs = op.code == OP_CREATE_LOOP ? 4 + *g::range(0, 4) : (op.code == OP_ITERATE ? 12 : 9);
        for (int i = 0; i < nargs; i++) op.a.push_back(*g::range(0, 999));
        g::ValueOpts vo; vo.prof = g::P_CIF2; vo.maxlen = 6; vo.maxdepth = 2; vo.maxmembers = 2;
        int nvals = (op.code == OP_SET_VALUE || op.code == OP_ADD_ITEM) ? 1 : (op.code == OP_ADD_PACKET ? 6 : (op.code == OP_ITERATE ? 4 : 0));
        for (int i = 0; i < nvals; i++) op.s.push_back(cm::ser(*rc::gen::resize(10, g::value(vo, 0))));
        return op;
    });
}

int main(int argc, char **argv) {
    Engine e;
    e.name = HISTORY_MODE == 4 ? "C04_history" : "C05_failed";
    e.run = []() {
        { cif_tp *w = nullptr; if (cif_create(&w) == CIF_OK) (void) cif_destroy(w); }
        return rc::check(HISTORY_MODE == 4 ? "C04 managed CIF follows the data model under any history" : "C05 failed calls leave the CIF unchanged", []() {
            int n = *g::sized(1, HISTORY_MODE == 4 ? 45 : 30);
            std::vector<Op> ops = *rc::gen::container<std::vector<Op>>((size_t) n, gen_op());
            { Op first; first.code = OP_CREATE_BLOCK; first.a = {0, 0, 0}; ops.insert(ops.begin(), first); }   // every history starts with a block to work in
            CaseFile c; c.set("ops", ser_ops(ops)); c.seti("ncifs", *g::range(1, 2));
            VH_BEGIN(c);
            if (ops.size() <= 8) { std::string s; for (auto &o : ops) { s += OP_NAME[o.code]; s += "("; for (size_t i = 0; i < o.a.size() && i < 5; i++) s += std::to_string(o.a[i]) + (i + 1 < o.a.size() ? "," : ""); s += ") "; } sample(s); }
            std::string m = run_case(c);
            if (!m.empty()) { record_fail(c, m); RC_FAIL(m); }
        });
    };
    e.replay = run_case;
    e.classify = [](const CaseFile &c) {
        return std::string();
    };
    return engine_main(argc, argv, e);
}
