// C15: parse-time callbacks mirror the document (in document order) and steer what is stored.
// Generator: well-formed CIF 2.0 document (abstract Doc x layout, my printer records the unit order) x handler program.
// Oracle: an ordered recursive-descent checker validates the complete callback log (handler + data-name + keyword callbacks)
// against the document; from the responses actually given it derives what must / may / must not be stored and compares
// with the dump of the resulting CIF; the same program in syntax-only mode must yield the same callback sequence.
#include "../common/docgen.hpp"
#include "../common/parsehelp.hpp"
#include <sstream>
using namespace vh;
using cm::Container;
using cm::Doc;
using cm::Loop;
using cm::Value;

enum Kind { K_CIF_START, K_CIF_END, K_BLOCK_START, K_BLOCK_END, K_FRAME_START, K_FRAME_END, K_LOOP_START, K_LOOP_END, K_PACKET_START, K_PACKET_END, K_ITEM, K_DATANAME, K_KEYWORD, N_KIND };
static const char *KN[] = {"cif_start", "cif_end", "block_start", "block_end", "frame_start", "frame_end", "loop_start", "loop_end", "packet_start", "packet_end", "item", "dataname", "keyword"};
struct Ev { int kind; std::string name, val; int resp; bool forced; };

struct Rec {
    std::map<long, int> by_ordinal; std::map<int, int> by_kind;
    std::vector<Ev> log; long ordinal = 0;
    struct Open { int kind; bool end_optional; };
    std::vector<Open> stack;
    ph::ErrLog errs; long ws_calls = 0, ws_units = 0; std::string ws_error;
    static int level(int kind) { switch (kind) { case K_CIF_START: case K_CIF_END: return 0; case K_BLOCK_START: case K_BLOCK_END: return 1; case K_FRAME_START: case K_FRAME_END: return 2;
                                                   case K_LOOP_START: case K_LOOP_END: return 3; case K_PACKET_START: case K_PACKET_END: return 4; default: return 5; } }
    int respond(int kind, bool is_end) {
        long o = ordinal++;
        int r = CIF_TRAVERSE_CONTINUE;
        auto it = by_ordinal.find(o);
        if (it != by_ordinal.end()) r = it->second;
        else { auto k = by_kind.find(kind); if (k != by_kind.end()) r = k->second; }
        bool forced = false; int lv = level(kind);
        if (is_end) {
            while (!stack.empty() && level(stack.back().kind) > lv) stack.pop_back();
            if (!stack.empty() && stack.back().end_optional && r != CIF_TRAVERSE_CONTINUE) { r = CIF_TRAVERSE_CONTINUE; forced = true; }
            if (!stack.empty()) stack.pop_back();
            if (r == CIF_TRAVERSE_SKIP_SIBLINGS && !stack.empty()) stack.back().end_optional = true;
        } else if (kind == K_ITEM) {
            while (!stack.empty() && level(stack.back().kind) > 4) stack.pop_back();
            if (r == CIF_TRAVERSE_SKIP_SIBLINGS && !stack.empty()) stack.back().end_optional = true;
        } else {
            while (!stack.empty() && level(stack.back().kind) >= lv) stack.pop_back();   // frames do not nest in the documents generated here
            stack.push_back({kind, r == CIF_TRAVERSE_SKIP_CURRENT || r == CIF_TRAVERSE_SKIP_SIBLINGS});
            if (r == CIF_TRAVERSE_SKIP_SIBLINGS && stack.size() >= 2) stack[stack.size() - 2].end_optional = true;
        }
        log.back().resp = r; log.back().forced = forced;
        return r;
    }
};
#define R ((Rec *) ctx)
static std::string ccode(cif_container_tp *c) { if (!c) return "?"; UChar *code = nullptr; if (cif_container_get_code(c, &code) != CIF_OK) return "!"; return uesc(cm::take(code)); }
static int h_cif_start(cif_tp *, void *ctx) { R->log.push_back({K_CIF_START, "", "", 0, false}); return R->respond(K_CIF_START, false); }
static int h_cif_end(cif_tp *, void *ctx) { R->log.push_back({K_CIF_END, "", "", 0, false}); return R->respond(K_CIF_END, true); }
static int h_block_start(cif_container_tp *c, void *ctx) { R->log.push_back({K_BLOCK_START, ccode(c), "", 0, false}); return R->respond(K_BLOCK_START, false); }
static int h_block_end(cif_container_tp *c, void *ctx) { R->log.push_back({K_BLOCK_END, ccode(c), "", 0, false}); return R->respond(K_BLOCK_END, true); }
static int h_frame_start(cif_container_tp *c, void *ctx) { R->log.push_back({K_FRAME_START, ccode(c), "", 0, false}); return R->respond(K_FRAME_START, false); }
static int h_frame_end(cif_container_tp *c, void *ctx) { R->log.push_back({K_FRAME_END, ccode(c), "", 0, false}); return R->respond(K_FRAME_END, true); }
static int h_loop_start(cif_loop_tp *, void *ctx) { R->log.push_back({K_LOOP_START, "", "", 0, false}); return R->respond(K_LOOP_START, false); }
static int h_loop_end(cif_loop_tp *, void *ctx) { R->log.push_back({K_LOOP_END, "", "", 0, false}); return R->respond(K_LOOP_END, true); }
static int h_packet_start(cif_packet_tp *, void *ctx) { R->log.push_back({K_PACKET_START, "", "", 0, false}); return R->respond(K_PACKET_START, false); }
static int h_packet_end(cif_packet_tp *, void *ctx) { R->log.push_back({K_PACKET_END, "", "", 0, false}); return R->respond(K_PACKET_END, true); }
static int h_item(UChar *name, cif_value_tp *v, void *ctx) {
    Value mv; std::string vs = "?";
    if (v && cm::from_cif(v, mv) == CIF_OK) vs = cm::ser(mv);
    R->log.push_back({K_ITEM, name ? uesc(cm::norm_name(ustr((const char16_t *) name))) : std::string("<null>"), vs, 0, false});
    return R->respond(K_ITEM, false);
}
static void s_dataname(size_t, size_t, const UChar *t, size_t len, void *ctx) { R->log.push_back({K_DATANAME, uesc(cm::norm_name(ustr((const char16_t *) t, len))), "", 0, false}); }
static void s_keyword(size_t, size_t, const UChar *t, size_t len, void *ctx) { ustr k((const char16_t *) t, len); for (auto &ch : k) if (ch >= 'A' && ch <= 'Z') ch += 32; R->log.push_back({K_KEYWORD, uesc(k), "", 0, false}); }
static void s_ws(size_t line, size_t, const UChar *t, size_t len, void *ctx) {
    R->ws_calls++; R->ws_units += (long) len;
    if (line < 1) R->ws_error = "whitespace callback with line 0";
    // a whitespace run consists of blanks, line terminators and comments only
    bool in_comment = false;
    for (size_t i = 0; i < len; i++) { UChar ch = t[i]; if (ch == '\n' || ch == '\r') in_comment = false; else if (in_comment) continue; else if (ch == '#') in_comment = true; else if (ch != ' ' && ch != '\t' && ch != 0xFEFF) { R->ws_error = "whitespace callback carrying non-whitespace text: " + uesc(ustr((const char16_t *) t, len)).substr(0, 60); break; } }
}
static int e_cb(int code, size_t line, size_t col, const UChar *t, size_t len, void *ctx) { return ph::log_cb(code, line, col, t, len, &R->errs); }

// ---- document in print order ------------------------------------------------------------------------------------------------
struct Unit { int kind; /*0 scalar item, 1 loop, 2 frame*/ const Loop *loop = nullptr; size_t col = 0; const Container *frame = nullptr; std::vector<Unit> children; };
struct OrderedBlock { const Container *c; std::vector<Unit> units; };
static bool build_units(const Container &c, const std::vector<std::string> &order, size_t &p, std::vector<Unit> &out) {
    int sl = -1; for (size_t l = 0; l < c.loops.size(); l++) if (c.loops[l].is_scalar()) sl = (int) l;
    while (p < order.size()) {
        const std::string &o = order[p];
        if (o[0] == 'B' || o[0] == 'E') return true;
        p++;
        if (o[0] == 'I') { if (sl < 0) return false; size_t col = 0; bool f = false; for (; col < c.loops[sl].names.size(); col++) if (uesc(c.loops[sl].names[col]) == o.substr(2)) { f = true; break; } if (!f) return false; Unit u; u.kind = 0; u.loop = &c.loops[sl]; u.col = col; out.push_back(u); }
        else if (o[0] == 'L') { size_t idx = (size_t) atol(o.c_str() + 2); if (idx >= c.loops.size()) return false; Unit u; u.kind = 1; u.loop = &c.loops[idx]; out.push_back(u); }
        else if (o[0] == 'F') { const Container *f = nullptr; for (auto &fr : c.frames) if (uesc(fr.code) == o.substr(2)) f = &fr; if (!f) return false; Unit u; u.kind = 2; u.frame = f; if (!build_units(*f, order, p, u.children)) return false; if (p >= order.size() || order[p] != "E") return false; p++; out.push_back(u); }
    }
    return true;
}

// ---- expectation about what is stored, derived from the responses actually given --------------------------------------------------
struct XRow { std::vector<std::string> cells; /* "*" = unconstrained */ bool must; };
struct XLoop { const Loop *loop; int state; /*0 absent, 1 may exist, 2 must exist*/ std::vector<XRow> rows; };
struct XCont { const Container *c; int state; /*0 absent, 1 may (empty ok), 2 must*/ std::map<std::string, std::pair<std::string, bool>> items; /* norm name -> (value, must) */ std::vector<XLoop> loops; std::vector<XCont> frames; };

enum St { NORMAL, SKIP_SIBS, ENDED };
struct Checker {
    const std::vector<Ev> &log; size_t pos = 0; std::string err; bool stopped = false; int stop_code = 0;
    Checker(const std::vector<Ev> &l) : log(l) {}
    bool fail(const std::string &m) { if (err.empty()) err = m + " (at callback #" + std::to_string(pos) + (pos < log.size() ? std::string(": ") + KN[log[pos].kind] + " " + log[pos].name : std::string(": end of log")) + ")"; return false; }
    bool peek(int kind) const { return pos < log.size() && log[pos].kind == kind; }
    bool peek(int kind, const std::string &name) const { return peek(kind) && log[pos].name == name; }
    St status(int r) { if (r == 0 || r == -1) return NORMAL; if (r == -2) return SKIP_SIBS; stopped = true; stop_code = r == -3 ? 0 : r; return ENDED; }
    bool end_event(int kind, bool mandatory, St &st) {
        st = NORMAL;
        if (peek(kind)) { int r = log[pos].resp; pos++; st = status(r); return true; }
        if (mandatory) return fail(std::string("missing ") + KN[kind]);
        return true;
    }
    static std::string nn(const ustr &s) { return uesc(cm::norm_name(s)); }

    // is the unit's first callback next in the log?
    bool unit_starts(const Unit &u) const {
        if (u.kind == 0) return peek(K_DATANAME, nn(u.loop->names[u.col]));
        if (u.kind == 1) return peek(K_KEYWORD);
        return peek(K_FRAME_START);
    }
    bool loop_unit(const Unit &u, XLoop &x, St &st) {
        const Loop &l = *u.loop; x.loop = &l; x.state = 1;
        // (the text handed to the keyword callback is not part of the property: the library passes an empty token)
        if (!peek(K_KEYWORD) || (log[pos].name != "loop_" && !log[pos].name.empty())) return fail("expected the loop_ keyword callback");
        pos++;
        for (auto &n : l.names) { if (!peek(K_DATANAME, nn(n))) return fail("expected the data-name callback for " + uesc(n) + " in a loop header"); pos++; }
        if (!peek(K_LOOP_START)) return fail("expected loop_start after the loop header");
        int r = log[pos].resp; pos++;
        if (r == -1 || r == -2) { x.state = 1; St e; if (!end_event(K_LOOP_END, false, e)) return false; st = r == -2 ? SKIP_SIBS : NORMAL; if (e != NORMAL) st = e; return true; }
        if (r != 0) { st = status(r); return true; }
        bool cut = false;
        for (size_t ri = 0; ri < l.rows.size(); ri++) {
            if (cut) break;
            if (!peek(K_PACKET_START)) return fail("expected packet_start for packet " + std::to_string(ri + 1) + " of a loop");
            int pr = log[pos].resp; pos++;
            if (pr == -1 || pr == -2) { St e; if (!end_event(K_PACKET_END, false, e)) return false; if (e == ENDED) { st = ENDED; return true; } if (pr == -2 || e == SKIP_SIBS) cut = true; continue; }
            if (pr != 0) { st = status(pr); return true; }
            XRow row; row.must = true; bool items_cut = false;
            for (size_t j = 0; j < l.names.size(); j++) {
                if (items_cut) { row.cells.push_back("*"); continue; }
                if (!peek(K_ITEM, nn(l.names[j]))) return fail("expected the item callback for " + uesc(l.names[j]) + " (packet " + std::to_string(ri + 1) + ")");
                if (log[pos].val != cm::ser(l.rows[ri][j])) return fail("item " + uesc(l.names[j]) + " reported with value " + log[pos].val + ", the document denotes " + cm::ser(l.rows[ri][j]));
                int ir = log[pos].resp; pos++;
                if (ir == 0) row.cells.push_back(cm::ser(l.rows[ri][j]));
                else if (ir == -1) row.cells.push_back("*");
                else if (ir == -2) { row.cells.push_back("*"); items_cut = true; row.must = false; }
                else { st = status(ir); return true; }
            }
            St pe; if (!end_event(K_PACKET_END, !items_cut, pe)) return false;
            // the response to packet_end decides whether the packet is recorded
            if (!items_cut) { int per = log[pos - 1].resp; if (per == -1 || per == -2) row.must = false; else if (per != 0) row.must = false; }
            if (pe == ENDED) { if (log[pos - 1].resp == 0) {} st = ENDED; x.rows.push_back(row); x.rows.back().must = false; return true; }
            x.rows.push_back(row);
            if (row.must) x.state = 2;
            if (pe == SKIP_SIBS) cut = true;
        }
        return end_event(K_LOOP_END, !cut, st);
    }
    bool container(const Container &c, const std::vector<Unit> &units, bool is_block, XCont &x, St &st) {
        x.c = &c; x.state = 2;
        int r = log[pos].resp; pos++;
        int endk = is_block ? K_BLOCK_END : K_FRAME_END;
        if (r == -1 || r == -2) { x.state = 1; St e; if (!end_event(endk, false, e)) return false; st = r == -2 ? SKIP_SIBS : NORMAL; if (e != NORMAL) st = e; return true; }
        if (r != 0) { x.state = 1; st = status(r); return true; }
        bool cut_data = false, cut_frames = false, any_cut = false;
        for (auto &u : units) {
            bool is_frame = u.kind == 2;
            bool must_bypass = is_frame ? cut_frames : cut_data;
            bool may_bypass = any_cut;     // a SKIP_SIBLINGS from a unit of the other kind: the statement does not say whether it reaches this unit
            if (must_bypass || (may_bypass && !unit_starts(u))) {
                if (must_bypass && unit_starts(u) && (u.kind != 1)) return fail("a callback was made for an entity bypassed by SKIP_SIBLINGS");
                if (u.kind == 2) { XCont fx; fx.c = u.frame; fx.state = 1; x.frames.push_back(fx); }
                else if (u.kind == 1) { XLoop lx; lx.loop = u.loop; lx.state = 0; x.loops.push_back(lx); }
                continue;
            }
            if (u.kind == 0) {
                const ustr &name = u.loop->names[u.col];
                if (!peek(K_DATANAME, nn(name))) return fail("expected the data-name callback for " + uesc(name));
                pos++;
                if (!peek(K_ITEM, nn(name))) return fail("expected the item callback for " + uesc(name));
                if (log[pos].val != cm::ser(u.loop->rows[0][u.col])) return fail("item " + uesc(name) + " reported with value " + log[pos].val + ", the document denotes " + cm::ser(u.loop->rows[0][u.col]));
                int ir = log[pos].resp; pos++;
                if (ir == 0) x.items[nn(name)] = {cm::ser(u.loop->rows[0][u.col]), true};
                else if (ir == -1 || ir == -2) { x.items[nn(name)] = {cm::ser(u.loop->rows[0][u.col]), false}; if (ir == -2) { cut_data = true; any_cut = true; } }
                else { st = status(ir); return true; }
            } else if (u.kind == 1) {
                XLoop lx; St ls;
                if (!loop_unit(u, lx, ls)) return false;
                x.loops.push_back(lx);
                if (ls == ENDED) { st = ENDED; return true; }
                if (ls == SKIP_SIBS) { cut_data = true; any_cut = true; }
            } else {
                if (!peek(K_FRAME_START)) return fail("expected frame_start for save frame " + uesc(u.frame->code));
                XCont fx; St fs;
                if (!container(*u.frame, u.children, false, fx, fs)) return false;
                x.frames.push_back(fx);
                if (fs == ENDED) { st = ENDED; return true; }
                if (fs == SKIP_SIBS) { cut_frames = true; any_cut = true; }
            }
        }
        return end_event(endk, !any_cut, st);
    }
    bool cif(const std::vector<OrderedBlock> &blocks, std::vector<XCont> &xs, int &expect_rc) {
        expect_rc = CIF_OK;
        if (!peek(K_CIF_START)) return fail("the first callback is not cif_start");
        int r = log[pos].resp; pos++;
        bool bypass_all = false;
        if (r == -1 || r == -2) { bypass_all = true; }
        else if (r != 0) { (void) status(r); bypass_all = true; }
        bool cut = false;
        for (auto &b : blocks) {
            if (bypass_all || cut || stopped) { XCont x; x.c = b.c; x.state = 1; xs.push_back(x); continue; }
            if (!peek(K_BLOCK_START)) return fail("expected block_start for data block " + uesc(b.c->code));
            XCont x; St bs;
            if (!container(*b.c, b.units, true, x, bs)) return false;
            xs.push_back(x);
            if (bs == SKIP_SIBS) cut = true;
        }
        if (!stopped) { St es; if (!end_event(K_CIF_END, !cut && !bypass_all, es)) return false; }
        if (pos != log.size()) return fail(stopped ? "a callback was made after a handler answered END or an error code" : "unexpected callback");
        if (stopped) expect_rc = stop_code;
        return true;
    }
};

// ---- compare the stored CIF with the expectation ------------------------------------------------------------------------------------------
static std::string cmp_cont(const XCont &x, const Container *got, const std::string &path) {
    if (!got) return x.state == 2 ? path + ": container missing from the CIF" : std::string();
    std::map<std::string, std::string> gitems;
    std::vector<const Loop *> gloops;
    for (auto &l : got->loops) { if (l.is_scalar()) { for (size_t j = 0; j < l.names.size(); j++) gitems[uesc(cm::norm_name(l.names[j]))] = l.rows.empty() ? "<no packet>" : cm::ser(l.rows[0][j]); } else gloops.push_back(&l); }
    for (auto &it : x.items) { auto g = gitems.find(it.first); if (g == gitems.end()) { if (it.second.second) return path + ": item " + it.first + " reported to a continuing handler but not stored"; } else if (g->second != it.second.first) return path + ": item " + it.first + " stored as " + g->second + ", reported as " + it.second.first; }
    for (auto &g : gitems) if (!x.items.count(g.first)) return path + ": item " + g.first + " is stored although it was bypassed (no callback was made for it)";
    std::vector<bool> used(gloops.size(), false);
    for (auto &xl : x.loops) {
        std::vector<std::string> want; for (auto &n : xl.loop->names) want.push_back(uesc(cm::norm_name(n))); std::sort(want.begin(), want.end());
        const Loop *g = nullptr;
        for (size_t i = 0; i < gloops.size(); i++) { std::vector<std::string> have; for (auto &n : gloops[i]->names) have.push_back(uesc(cm::norm_name(n))); std::sort(have.begin(), have.end()); if (have == want) { g = gloops[i]; used[i] = true; } }
        if (!g) { if (xl.state == 2) return path + ": a loop whose packets were reported to continuing handlers is not stored (" + want[0] + " ...)"; continue; }
        if (xl.state == 0) return path + ": a bypassed loop is stored (" + want[0] + " ...)";
        // rows: every must row present; every stored row explained by a must or may row
        std::vector<size_t> colmap; for (auto &n : xl.loop->names) { size_t k = 0; for (; k < g->names.size(); k++) if (cm::norm_name(g->names[k]) == cm::norm_name(n)) break; colmap.push_back(k); }
        std::vector<bool> gused(g->rows.size(), false);
        auto matches = [&](const XRow &xr, size_t gi) { for (size_t j = 0; j < xr.cells.size(); j++) if (xr.cells[j] != "*" && xr.cells[j] != cm::ser(g->rows[gi][colmap[j]])) return false; return true; };
        for (int pass = 0; pass < 2; pass++) for (auto &xr : xl.rows) { if (xr.must != (pass == 0)) continue; bool found = false; for (size_t gi = 0; gi < g->rows.size(); gi++) if (!gused[gi] && matches(xr, gi)) { gused[gi] = true; found = true; break; } if (!found && xr.must) return path + ": a packet reported to continuing handlers is not stored in loop " + want[0] + " ..."; }
        for (size_t gi = 0; gi < g->rows.size(); gi++) if (!gused[gi]) return path + ": loop " + want[0] + " ... holds a packet that was bypassed or never reported";
    }
    for (size_t i = 0; i < gloops.size(); i++) if (!used[i]) return path + ": the CIF holds a loop that is not in the document";
    for (auto &xf : x.frames) { const Container *gf = nullptr; for (auto &f : got->frames) if (cm::norm_name(f.code) == cm::norm_name(xf.c->code)) gf = &f; std::string d = cmp_cont(xf, gf, path + "/save_" + uesc(xf.c->code)); if (!d.empty()) return d; }
    for (auto &f : got->frames) { bool known = false; for (auto &xf : x.frames) if (cm::norm_name(f.code) == cm::norm_name(xf.c->code)) known = true; if (!known) return path + ": the CIF holds save frame " + uesc(f.code) + " which was bypassed or is not in the document"; }
    return "";
}

static void run_parse(const std::string &bytes, const std::string &prog, bool storing, Rec &rec, int &rc, Doc &stored, bool &have_cif) {
    std::istringstream in(prog); std::string tok;
    while (in >> tok) { size_t col = tok.find(':'); if (col == std::string::npos) continue; long key = atol(tok.substr(1, col - 1).c_str()); int resp = atoi(tok.substr(col + 1).c_str()); if (tok[0] == 'o') rec.by_ordinal[key] = resp; else if (tok[0] == 'k') rec.by_kind[(int) key] = resp; }
    cif_handler_tp h = {h_cif_start, h_cif_end, h_block_start, h_block_end, h_frame_start, h_frame_end, h_loop_start, h_loop_end, h_packet_start, h_packet_end, h_item};
    struct cif_parse_opts_s *po = nullptr; cif_tp *cif = nullptr;
    if (cif_parse_options_create(&po) != CIF_OK) { rc = CIF_ERROR; return; }
    po->handler = &h; po->whitespace_callback = s_ws; po->keyword_callback = s_keyword; po->dataname_callback = s_dataname; po->error_callback = e_cb; po->user_data = &rec;
    FILE *f = ph::mem_file(bytes);
    rc = cif_parse(f, po, storing ? &cif : nullptr); fclose(f);
    cm::ufree(po);
    have_cif = cif != nullptr;
    if (cif) { if (cm::dump(cif, stored) != CIF_OK) have_cif = false; (void) cif_destroy(cif); }
}

static std::string logtext(const std::vector<Ev> &log) { std::string l; size_t n = 0; for (auto &e : log) { if (n++ > 80) { l += "...\n"; break; } l += std::string("  ") + KN[e.kind] + " " + e.name + (e.val.empty() ? "" : " = " + e.val) + (e.kind < K_DATANAME ? " -> " + std::to_string(e.resp) + (e.forced ? " (forced)" : "") : "") + "\n"; } return l; }

static std::string run_case(const CaseFile &c) {
    Doc d; if (!cm::parse_doc(c.get("doc"), d)) return "bad case file (doc)";
    std::vector<std::string> order; { std::istringstream in(c.get("order")); std::string line; while (std::getline(in, line)) if (!line.empty()) order.push_back(line); }
    std::vector<OrderedBlock> blocks; size_t p = 0;
    while (p < order.size()) { if (order[p][0] != 'B') return "bad case file (order)"; const Container *bc = nullptr; for (auto &b : d.blocks) if (uesc(b.code) == order[p].substr(2)) bc = &b; if (!bc) return "bad case file (order/block)"; p++; OrderedBlock ob; ob.c = bc; if (!build_units(*bc, order, p, ob.units)) return "bad case file (order/units)"; blocks.push_back(ob); }
    const std::string &bytes = c.get("bytes"), &prog = c.get("prog");
    CaseGuard guard; std::string msg;
    Rec a; int rc = 0; Doc stored; bool have = false;
    run_parse(bytes, prog, true, a, rc, stored, have);
    int directives = 0;
    for (auto &e : a.log) if (e.kind < K_DATANAME && e.resp != 0) { directives++; label(std::string("resp:") + (e.resp == -1 ? "SKIP_CURRENT" : e.resp == -2 ? "SKIP_SIBLINGS" : e.resp == -3 ? "END" : "error") + "@" + KN[e.kind]); }
    if (!a.errs.errs.empty()) msg = "well-formed document reported errors: " + ph::errs_str(a.errs);
    else if (!a.ws_error.empty()) msg = a.ws_error;
    else {
        Checker ck(a.log); std::vector<XCont> xs; int erc = CIF_OK;
        if (!ck.cif(blocks, xs, erc)) msg = ck.err;
        else if (rc != erc) msg = std::string("cif_parse returned ") + std::to_string(rc) + " (" + cm::code_name(rc) + "), expected " + std::to_string(erc);
        else if (!have) msg = "no CIF produced by a storing parse";
        else {
            for (auto &x : xs) { const Container *g = nullptr; for (auto &b : stored.blocks) if (cm::norm_name(b.code) == cm::norm_name(x.c->code)) g = &b; std::string dd = cmp_cont(x, g, "data_" + uesc(x.c->code)); if (!dd.empty()) { msg = "stored content disagrees with what the callbacks reported: " + dd; break; } }
            if (msg.empty()) for (auto &b : stored.blocks) { bool known = false; for (auto &x : xs) if (cm::norm_name(b.code) == cm::norm_name(x.c->code)) known = true; if (!known) msg = "the CIF holds a data block that is not in the document: " + uesc(b.code); }
            if (msg.empty() && directives == 0) {   // all-continue: the stored CIF is exactly the document
                if (cm::ser(stored) != c.get("expected")) msg = "all handlers continued but the stored CIF differs from the document\n--- expected\n" + c.get("expected") + "--- got\n" + cm::ser(stored);
                label("all-continue");
            }
        }
    }
    if (msg.empty()) {   // syntax-only mode: the same sequence of handler, syntax and error callbacks
        Rec b; int rc2 = 0; Doc none; bool h2 = false;
        run_parse(bytes, prog, false, b, rc2, none, h2);
        if (rc2 != rc) msg = std::string("syntax-only parse returned ") + std::to_string(rc2) + ", storing parse " + std::to_string(rc);
        else if (!b.errs.errs.empty()) msg = "syntax-only parse reported errors: " + ph::errs_str(b.errs);
        else if (b.log.size() != a.log.size()) msg = "syntax-only parse made " + std::to_string(b.log.size()) + " callbacks, the storing parse " + std::to_string(a.log.size()) + "\n--- syntax-only log ---\n" + logtext(b.log);
        else for (size_t i = 0; i < a.log.size(); i++) {
            const Ev &x = a.log[i], &y = b.log[i];
            bool same = x.kind == y.kind && x.resp == y.resp && x.val == y.val && ((x.kind >= K_BLOCK_START && x.kind <= K_FRAME_END) || x.name == y.name);   // container handles may be NULL without a target CIF
            if (!same) { msg = "callback #" + std::to_string(i) + " differs between storing (" + KN[x.kind] + " " + x.name + ") and syntax-only (" + KN[y.kind] + " " + y.name + ") mode"; break; }
        }
        if (msg.empty() && b.ws_units != a.ws_units) msg = "whitespace callbacks cover " + std::to_string(b.ws_units) + " units in syntax-only mode, " + std::to_string(a.ws_units) + " when storing";
    }
    if (!msg.empty()) msg += "\n--- callback log (storing) ---\n" + logtext(a.log);
    bool nt = false; bool loop_in_frame = false;
    for (size_t i = 0; i + 1 < a.log.size(); i++) if (a.log[i].kind < K_DATANAME && a.log[i].resp != 0 && a.log[i].kind != K_CIF_END) nt = true;
    for (auto &b : d.blocks) for (auto &f : b.frames) for (auto &l : f.loops) if (!l.is_scalar()) loop_in_frame = true;
    if (loop_in_frame) label("loop-in-frame");
    if (nt || loop_in_frame) nontrivial(fnv(bytes + prog));
    if (msg.empty()) msg = guard.check();
    return msg;
}

static long count_events(const Container &c) {
    long n = 2;
    for (auto &l : c.loops) { if (l.is_scalar()) n += (long) l.names.size(); else n += 2 + (long) l.rows.size() * (2 + (long) l.names.size()); }
    for (auto &f : c.frames) n += count_events(f);
    return n;
}

int main(int argc, char **argv) {
    Engine e;
    e.name = "C15_parsecb";
    e.run = []() {
        { cif_tp *w = nullptr; if (cif_create(&w) == CIF_OK) (void) cif_destroy(w); }
        return rc::check("C15 parse-time callbacks mirror the document and steer storage", []() {
            g::DocOpts o; o.dialect = cp::CIF2; o.max_blocks = 3; o.max_items = 4; o.max_loops = 2; o.max_cols = 3; o.max_rows = 3; o.max_frames = 2; o.frame_depth = 1;
            o.vo.prof = g::P_CIF2; o.vo.numb_kind = false; o.vo.maxlen = 12; o.vo.maxdepth = 2; o.vo.maxmembers = 3;
            Doc d = *g::doc(o);
            auto tp = *g::tape(600);
            cp::Tape tape; tape.t = tp; cp::PrintOpts po; cp::PrintInfo info;
            std::string bytes = cp::print(d, tape, po, info);
            if (!info.ok) { count_excluded("unprintable"); RC_DISCARD("unprintable"); }
            long total = 2; for (auto &b : d.blocks) total += count_events(b);
            std::string prog;
            int mode = *rc::gen::weightedElement<int>({{2, 0}, {10, 1}, {3, 2}});
            auto resp = rc::gen::weightedOneOf<int>({{3, rc::gen::just(-1)}, {3, rc::gen::just(-2)}, {2, rc::gen::just(-3)}, {2, rc::gen::element(1, 2, 7, 10, 43, 133, 1000)}});
            if (mode == 1) { int n = *g::range(1, 3); for (int i = 0; i < n; i++) prog += "o" + std::to_string(*g::range(0, (int) std::min<long>(total - 1, 3000))) + ":" + std::to_string(*resp) + " "; }
            else if (mode == 2) { prog += "k" + std::to_string(*g::range(0, K_ITEM)) + ":" + std::to_string(*resp) + " "; }
            CaseFile c; c.set("doc", cm::ser_plain(d)); c.set("bytes", bytes); c.set("prog", prog); c.set("expected", cm::ser(d));
            { std::string os; for (auto &x : info.order) { os += x; os += "\n"; } c.set("order", os); }
            VH_BEGIN(c);
            if (bytes.size() < 200) sample("prog=[" + prog + "] " + bytes);
            std::string m = run_case(c);
            if (!m.empty()) { record_fail(c, m); RC_FAIL(m); }
        });
    };
    e.replay = run_case;
    e.classify = [](const CaseFile &) { return std::string(); };
    return engine_main(argc, argv, e);
}
