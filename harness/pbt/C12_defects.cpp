// C12: each documented class of input defect is reported with its code, at the right place, and recovered from as the
// recovery table (parser.c @page error_recovery) and cif.h prescribe.
//
// Generator: a well-formed HOST document (abstract cm::Doc, CIF 2.0, LF only, frames one level deep; CIF 1.1 for the one
// 1.1-specific row) is rendered by a hand-rolled renderer into a flat TOKEN list (headers, names, scalar values, the
// brackets of lists/tables, key:value entries ...).  Tokens are joined by newline or blank, so the line of every token is
// known from the final bytes.  A PLANTER (one per defect class of the property statement) edits the token list in exactly
// one place and states: the expected first error code, the line window [lo, hi] (not before the defect, not after the
// token that follows it), the recovered document, the allowed follow-up codes and the parse options.
//
// Oracle (all from the property statement, cif.h result-code documentation and the recovery table):
//   (1) first error callback = expected code, lo <= line <= hi        (2) later callbacks only from the allowed follow-ups
//   (3) cif_parse returns CIF_OK when every error is accepted          (4) dump == recovered document (with the stated masks)
//   (5) with the default (abort) handler cif_parse returns the code    (6) the un-planted host parses silently to itself
#include "../common/docgen.hpp"
#include "../common/parsehelp.hpp"
#include <algorithm>
#include <sstream>
using namespace vh;
using cm::Container;
using cm::Doc;
using cm::Loop;
using cm::Value;

// =====================================================================================================================
// token model + renderer
// =====================================================================================================================
enum TKind { T_MAGIC, T_BLOCK, T_FRAME, T_FEND, T_NAME, T_LOOPKW, T_LNAME, T_VAL, T_OPEN, T_CLOSE, T_RAW };
enum TCtx { C_CONT, C_LHDR, C_LBODY, C_LIST, C_TABLE };
enum Style { S_NONE, S_BARE, S_SQ, S_DQ, S_TSQ, S_TDQ, S_TEXT };

struct Tok {
    std::string s;                 // UTF-8 text of the token (may span lines: text fields, triple-quoted strings)
    int kind = T_RAW, style = S_NONE;
    int ctx = C_CONT;              // where the token sits
    int depth = 0;                 // number of enclosing lists/tables
    int cont = -1, unit = -1;      // container (index into Rend::conts) and unit within it
    int li = -1, row = -1, col = -1;   // loop index in the container / packet / column of the top-level value (or name)
    std::vector<int> vpath;        // path from the top-level value to this value (element / entry indices)
    int parent = -1, match = -1;   // enclosing T_OPEN; matching bracket
    char br = 0;                   // '[' '{' for T_OPEN, ']' '}' for T_CLOSE
    int keylen = 0;                // bytes of the "key:" prefix of a table entry token
    int vend = -1;                 // for a token that starts a value: index of the value's last token
    bool nl_before = false, nl_after = false, glue = false;   // layout constraints (glue: NO separator after this token)
};
struct Unit { int kind; int idx; int tb, te; };   // kind 0 scalar item (idx = column), 1 loop (idx = loop index), 2 frame (idx = frame index); tokens [tb, te)
struct Cont { int blk, frm; int hdr, fend; std::vector<Unit> units; int sub_of = -1; };
struct Rend { std::vector<Tok> t; std::vector<Cont> conts; };
struct Force { int blk, frm; std::vector<std::pair<int, int>> tail; };   // units (kind, idx) to print last, in this order

static uint32_t mix(uint32_t a, uint32_t b) { uint32_t h = (a ^ 0x9e3779b9u) * 2654435761u; h ^= b + 0x7f4a7c15u + (h << 6) + (h >> 2); h ^= h >> 15; h *= 2246822519u; h ^= h >> 13; return h; }
static int cplen8(const std::string &s) { int n = 0; for (unsigned char c : s) if ((c & 0xC0) != 0x80) n++; return n; }
static std::string randcase8(const char *w, uint32_t r) { std::string o = w; for (size_t i = 0; i < o.size(); i++) if (o[i] >= 'a' && o[i] <= 'z' && ((r >> (i % 30)) & 1)) o[i] -= 32; return o; }

static Container &cont_of(Doc &d, int blk, int frm) { return frm < 0 ? d.blocks[(size_t) blk] : d.blocks[(size_t) blk].frames[(size_t) frm]; }
static const Container &cont_of(const Doc &d, int blk, int frm) { return frm < 0 ? d.blocks[(size_t) blk] : d.blocks[(size_t) blk].frames[(size_t) frm]; }

// text of a scalar value; false when it cannot be presented.  want: preferred style (-1 none)
static bool scalar_text(const Value &v, int dialect, uint32_t r, std::string &out, int &style, int want = -1) {
    if (v.k == Value::NA) { out = "."; style = S_NONE; return true; }
    if (v.k == Value::UNK) { out = "?"; style = S_NONE; return true; }
    if (v.k != Value::CHAR && v.k != Value::NUMB) return false;
    const ustr &t = v.text;
    if (!v.quoted) { if (t.empty()) return false; out = u8(t); style = S_BARE; return true; }
    cp::Dialect d = dialect == 2 ? cp::CIF2 : cp::CIF11;
    std::vector<int> opts;
    bool single = t.find(u'\n') == ustr::npos && t.find(u'\r') == ustr::npos;
    if (single && cp::fits_single_quote(t, u'\'', d)) opts.push_back(S_SQ);
    if (single && cp::fits_single_quote(t, u'"', d)) opts.push_back(S_DQ);
    if (dialect == 2) { if (cp::fits_triple_quote(t, u'\'')) opts.push_back(S_TSQ); if (cp::fits_triple_quote(t, u'"')) opts.push_back(S_TDQ); }
    cp::Tape tape; for (int i = 0; i < 24; i++) tape.t.push_back(mix(r, (uint32_t) i + 77) % 10000);
    cp::PrintOpts po; po.dialect = d; po.protocols = dialect == 2; cp::PrintInfo pi; bool tok = true;
    ustr body = cp::encode_text_field(t, tape, po, pi, tok);
    int pickd = -1;
    if (want >= 0) { for (int o : opts) if (o == want) pickd = want; if (want == S_TEXT && tok) pickd = S_TEXT; }
    if (pickd < 0) {
        if (opts.empty()) { if (!tok) return false; pickd = S_TEXT; }
        else if (tok && r % 100 < 12) pickd = S_TEXT;
        else pickd = opts[(r >> 8) % opts.size()];
    }
    style = pickd;
    switch (pickd) {
    case S_SQ: out = "'" + u8(t) + "'"; break;
    case S_DQ: out = "\"" + u8(t) + "\""; break;
    case S_TSQ: out = "'''" + u8(t) + "'''"; break;
    case S_TDQ: out = "\"\"\"" + u8(t) + "\"\"\""; break;
    default: out = ";" + u8(body) + "\n;"; break;
    }
    return true;
}
static bool key_text(const ustr &k, uint32_t r, std::string &out) {
    std::vector<int> opts;
    bool single = k.find(u'\n') == ustr::npos && k.find(u'\r') == ustr::npos;
    if (single && cp::fits_single_quote(k, u'\'', cp::CIF2)) opts.push_back(S_SQ);
    if (single && cp::fits_single_quote(k, u'"', cp::CIF2)) opts.push_back(S_DQ);
    if (opts.empty()) { if (cp::fits_triple_quote(k, u'\'')) opts.push_back(S_TSQ); if (cp::fits_triple_quote(k, u'"')) opts.push_back(S_TDQ); }
    if (opts.empty()) return false;
    switch (opts[r % opts.size()]) {
    case S_SQ: out = "'" + u8(k) + "':"; break;
    case S_DQ: out = "\"" + u8(k) + "\":"; break;
    case S_TSQ: out = "'''" + u8(k) + "''':"; break;
    default: out = "\"\"\"" + u8(k) + "\"\"\":"; break;
    }
    return true;
}

struct Renderer {
    Rend R; int dialect = 2; uint32_t seed = 1; uint32_t ctr = 0; bool ok = true;
    const std::vector<Force> *forces = nullptr;
    uint32_t rnd() { return mix(seed, ++ctr); }

    // emits the tokens of value v (with the given "key:" prefix); returns the index of its first token
    int emit_value(const Value &v, const std::string &prefix, int ctx, int depth, int parent, const Tok &proto, const std::vector<int> &vpath) {
        Tok t = proto; t.ctx = ctx; t.depth = depth; t.parent = parent; t.vpath = vpath; t.keylen = (int) prefix.size();
        int me = (int) R.t.size();
        if (v.k == Value::LIST || v.k == Value::TABLE) {
            if (dialect != 2) { ok = false; return me; }
            bool list = v.k == Value::LIST;
            t.kind = T_OPEN; t.br = list ? '[' : '{'; t.s = prefix + t.br;
            R.t.push_back(t);
            size_t n = list ? v.elems.size() : v.entries.size();
            for (size_t i = 0; i < n; i++) {
                std::vector<int> p = vpath; p.push_back((int) i);
                std::string kp;
                if (!list && !key_text(v.entries[i].first, rnd(), kp)) { ok = false; return me; }
                emit_value(list ? v.elems[i] : v.entries[i].second, kp, list ? C_LIST : C_TABLE, depth + 1, me, proto, p);
                if (!ok) return me;
            }
            Tok c = proto; c.ctx = ctx; c.depth = depth; c.parent = parent; c.vpath = vpath; c.kind = T_CLOSE; c.br = list ? ']' : '}'; c.s = std::string(1, c.br);
            c.match = me; R.t[(size_t) me].match = (int) R.t.size(); R.t[(size_t) me].vend = (int) R.t.size();
            R.t.push_back(c);
            return me;
        }
        std::string s; int st = S_NONE;
        if (!scalar_text(v, dialect, rnd(), s, st)) { ok = false; return me; }
        t.kind = T_VAL; t.style = st; t.vend = me;
        t.s = prefix + ((st == S_TEXT && !prefix.empty()) ? "\n" : "") + s;
        R.t.push_back(t);
        return me;
    }

    void emit_container(const Container &c, int blk, int frm) {
        int ci = (int) R.conts.size();
        R.conts.push_back(Cont{blk, frm, (int) R.t.size(), -1, {}, -1});
        Tok h; h.cont = ci; h.kind = frm < 0 ? T_BLOCK : T_FRAME; h.s = randcase8(frm < 0 ? "data_" : "save_", rnd()) + u8(c.code);
        R.t.push_back(h);
        std::vector<std::pair<int, int>> units;
        for (size_t i = 0; i < c.loops.size(); i++) {
            if (c.loops[i].is_scalar()) for (size_t j = 0; j < c.loops[i].names.size(); j++) units.push_back({0, (int) j});
            else units.push_back({1, (int) i});
        }
        for (size_t i = 0; i < c.frames.size(); i++) units.push_back({2, (int) i});
        for (size_t i = units.size(); i > 1; i--) std::swap(units[i - 1], units[rnd() % i]);
        if (forces) for (auto &f : *forces) if (f.blk == blk && f.frm == frm) for (auto &u : f.tail) {
            auto it = std::find(units.begin(), units.end(), u);
            if (it != units.end()) { units.erase(it); units.push_back(u); }
        }
        int sl = -1; for (size_t i = 0; i < c.loops.size(); i++) if (c.loops[i].is_scalar()) sl = (int) i;
        for (size_t ui = 0; ui < units.size() && ok; ui++) {
            Unit u{units[ui].first, units[ui].second, (int) R.t.size(), 0};
            Tok proto; proto.cont = ci; proto.unit = (int) ui;
            if (u.kind == 0) {
                const Loop &l = c.loops[(size_t) sl];
                if (l.rows.size() != 1 || (size_t) u.idx >= l.rows[0].size()) { ok = false; return; }
                proto.li = sl; proto.row = 0; proto.col = u.idx;
                Tok n = proto; n.kind = T_NAME; n.s = u8(l.names[(size_t) u.idx]); R.t.push_back(n);
                emit_value(l.rows[0][(size_t) u.idx], "", C_CONT, 0, -1, proto, {});
            } else if (u.kind == 1) {
                const Loop &l = c.loops[(size_t) u.idx];
                proto.li = u.idx;
                Tok k = proto; k.kind = T_LOOPKW; k.s = randcase8("loop_", rnd()); R.t.push_back(k);
                for (size_t j = 0; j < l.names.size(); j++) { Tok n = proto; n.kind = T_LNAME; n.ctx = C_LHDR; n.col = (int) j; n.s = u8(l.names[j]); R.t.push_back(n); }
                for (size_t r = 0; r < l.rows.size() && ok; r++) for (size_t j = 0; j < l.names.size() && ok; j++) {
                    if (j >= l.rows[r].size()) { ok = false; return; }
                    Tok p2 = proto; p2.row = (int) r; p2.col = (int) j;
                    emit_value(l.rows[r][j], "", C_LBODY, 0, -1, p2, {});
                }
            } else {
                int sub = (int) R.conts.size();
                emit_container(c.frames[(size_t) u.idx], blk, u.idx);
                R.conts[(size_t) sub].sub_of = ci;
                // tokens of the frame keep their own cont; mark the unit index on header/terminator for position labels
                R.t[(size_t) R.conts[(size_t) sub].hdr].unit = (int) ui;
            }
            u.te = (int) R.t.size();
            R.conts[(size_t) ci].units.push_back(u);
        }
        if (frm >= 0) { Tok e; e.cont = ci; e.kind = T_FEND; e.s = randcase8("save_", rnd()); R.conts[(size_t) ci].fend = (int) R.t.size(); R.t.push_back(e); }
    }
};

static bool render(const Doc &d, int dialect, uint32_t seed, const std::vector<Force> &forces, Rend &out) {
    Renderer rr; rr.dialect = dialect; rr.seed = seed; rr.forces = &forces;
    Tok m; m.kind = T_MAGIC; m.s = dialect == 2 ? "#\\#CIF_2.0" : "#\\#CIF_1.1"; m.nl_after = true;
    rr.R.t.push_back(m);
    for (size_t b = 0; b < d.blocks.size() && rr.ok; b++) rr.emit_container(d.blocks[b], (int) b, -1);
    out = rr.R;
    return rr.ok;
}

struct Built { std::string bytes; std::vector<int> sl, el; int eof_line = 1; };
static Built build(const std::vector<Tok> &t, uint32_t sepseed, bool final_nl) {
    Built b; int line = 1, col = 0;
    auto put = [&](const std::string &s) { for (char ch : s) { if (ch == '\n') { line++; col = 0; } else if (((unsigned char) ch & 0xC0) != 0x80) col++; } b.bytes += s; };
    for (size_t i = 0; i < t.size(); i++) {
        b.sl.push_back(line);
        put(t[i].s);
        b.el.push_back(line);
        if (i + 1 < t.size()) {
            if (t[i].glue) continue;
            uint32_t r = mix(sepseed, (uint32_t) i) % 100;
            if (t[i].nl_after || t[i + 1].nl_before) put("\n");                      // layout fixed by the planter
            else if (t[i + 1].s.empty() || t[i + 1].s[0] == ';' || col > 300) put(r < 80 ? "\n" : r < 90 ? "\n\n" : " # c ; [ {\n");   // a text field opens at the start of a line
            else put(r < 50 ? "\n" : r < 80 ? " " : r < 85 ? "\t" : r < 90 ? "  " : r < 95 ? "\n\n" : "\t#_c 'data_\n");
        }
    }
    if (final_nl && !(t.empty())) put("\n");
    b.eof_line = line;
    return b;
}

// =====================================================================================================================
// the check proper (serves generated cases and replay files)
// =====================================================================================================================
static std::vector<int> parse_ints(const std::string &s) { std::vector<int> v; std::istringstream in(s); std::string x; while (std::getline(in, x, ',')) if (!x.empty()) v.push_back(atoi(x.c_str())); return v; }
static std::string ints_str(const std::vector<int> &v) { std::string s; for (size_t i = 0; i < v.size(); i++) { if (i) s += ","; s += std::to_string(v[i]); } return s; }
static bool has(const std::vector<int> &v, int x) { return std::find(v.begin(), v.end(), x) != v.end(); }

struct Canon { bool mask = false; ustr pre, post, full; ustr marker; };
static void canon_text(ustr &t, const Canon &cn) {
    if (!cn.mask) return;
    // the one value / code that holds the disallowed character: the statement does not fix whether the stored text keeps the
    // character or a replacement for it -> anything of the form  pre + (0..2 code units) + post  is read as the planted text
    if (t.size() >= cn.pre.size() + cn.post.size() && t.size() <= cn.pre.size() + cn.post.size() + 2 && t.compare(0, cn.pre.size(), cn.pre) == 0 &&
        t.compare(t.size() - cn.post.size(), cn.post.size(), cn.post) == 0) t = cn.full;
}
static void canon_value(Value &v, const Canon &cn) {
    if (v.k == Value::CHAR) canon_text(v.text, cn);
    for (auto &e : v.elems) canon_value(e, cn);
    if (v.k == Value::TABLE && !cn.marker.empty()) {
        // a table entry whose colon had no key at all (CIF_NULL_KEY): dropped, or kept under some key -- both accepted
        std::vector<std::pair<ustr, Value>> keep;
        for (auto &e : v.entries) if (!(e.second.k == Value::CHAR && e.second.text == cn.marker)) keep.push_back(e);
        v.entries = keep;
    }
    for (auto &e : v.entries) canon_value(e.second, cn);
}
static void canon_cont(Container &c, const Canon &cn) {
    canon_text(c.code, cn);
    for (auto &l : c.loops) for (auto &r : l.rows) for (auto &v : r) canon_value(v, cn);
    for (auto &f : c.frames) canon_cont(f, cn);
}

struct POpts { int mfd = 1; int enc = 0; };
static struct cif_parse_opts_s *make_opts(const POpts &o) {
    struct cif_parse_opts_s *opts = nullptr;
    if (cif_parse_options_create(&opts) != CIF_OK) return nullptr;
    opts->max_frame_depth = o.mfd;
    if (o.enc) { opts->default_encoding_name = "UTF-8"; opts->force_default_encoding = 1; }
    return opts;
}

// a parse that must be silent and yield `expected`
static std::string check_silent(const std::string &bytes, const std::string &expected, const POpts &po, const char *what) {
    std::string msg; struct cif_parse_opts_s *opts = make_opts(po); cif_tp *cif = nullptr; ph::ErrLog log;
    if (!opts) return "cif_parse_options_create failed";
    int rc = ph::parse_bytes(bytes, opts, &cif, &log);
    if (!log.errs.empty()) msg = std::string(what) + " triggered the error callback: " + ph::errs_str(log);
    else if (rc != CIF_OK) msg = std::string(what) + ": cif_parse returned " + cm::code_name(rc);
    else if (!cif) msg = std::string(what) + ": no CIF produced";
    else {
        Doc got; int drc = cm::dump(cif, got);
        if (drc != CIF_OK) msg = std::string(what) + ": dump failed: " + cm::code_name(drc);
        else { std::string g = cm::ser(got); if (g != expected) msg = std::string(what) + ": parsed content differs from the denoted content\n--- expected\n" + expected + "--- got\n" + g; }
    }
    if (cif) (void) cif_destroy(cif);
    cm::ufree(opts);
    return msg;
}

static std::string run_case(const CaseFile &c) {
    CaseGuard guard;
    std::string msg;
    const std::string &bytes = c.get("bytes");
    POpts po; po.mfd = (int) c.geti("mfd", 1); po.enc = (int) c.geti("enc", 0);
    std::vector<int> first = parse_ints(c.get("code")), follow = parse_ints(c.get("follow"));
    int must = (int) c.geti("must", 0);
    long lo = c.geti("lo", 0), hi = c.geti("hi", 0);
    Canon cn; if (c.kv.count("mask_full")) { cn.mask = true; cn.pre = deser_u16(c.get("mask_pre")); cn.post = deser_u16(c.get("mask_post")); cn.full = deser_u16(c.get("mask_full")); }
    cn.marker = deser_u16(c.get("drop_marker"));
    if (!c.get("cls").empty()) label("class:" + c.get("cls"));
    { std::istringstream in(c.get("pos")); std::string p; while (in >> p) label("pos:" + p); }

    if (c.geti("probe", 0)) {   // diagnostic aid for hand-written case files: report what the library does
        struct cif_parse_opts_s *opts = make_opts(po); cif_tp *cif = nullptr; ph::ErrLog log;
        int rc = ph::parse_bytes(bytes, opts, &cif, &log);
        std::string m = "probe: rc=" + std::string(cm::code_name(rc)) + " errs=[" + ph::errs_str(log, 40) + "]\n";
        if (cif) { Doc got; if (cm::dump(cif, got) == CIF_OK) m += cm::ser(got); (void) cif_destroy(cif); }
        cm::ufree(opts);
        return m;
    }

    if (first.empty()) {
        // control class: no defect at all (e.g. a line of exactly 2048 characters) -> must be silent
        msg = check_silent(bytes, c.get("expected"), po, "the defect-free control document");
    } else {
        struct cif_parse_opts_s *opts = make_opts(po); cif_tp *cif = nullptr; ph::ErrLog log;
        if (!opts) return "cif_parse_options_create failed";
        int rc = ph::parse_bytes(bytes, opts, &cif, &log);
        std::string names; for (int f : first) names += std::string(names.empty() ? "" : " or ") + cm::code_name(f);
        if (log.errs.empty()) msg = "the defect was not reported: expected " + names + " at line " + std::to_string(lo) + ".." + std::to_string(hi) + ", the error callback was never invoked";
        else if (!has(first, log.errs[0].code)) msg = "the first error callback carries " + std::string(cm::code_name(log.errs[0].code)) + ", expected " + names + "; callbacks: " + ph::errs_str(log);
        else if ((long) log.errs[0].line < lo || (long) log.errs[0].line > hi)
            msg = std::string(cm::code_name(log.errs[0].code)) + " reported at line " + std::to_string(log.errs[0].line) + ", outside [" + std::to_string(lo) + ", " + std::to_string(hi) + "] (defect line .. line of the following token)";
        else {
            bool seen_must = must == 0;
            for (size_t i = 0; i < log.errs.size(); i++) {
                if (log.errs[i].code == must) seen_must = true;
                // later callbacks: the property fixes only the FIRST callback and the recovered content, so an unlisted follow-up is labelled, not failed
                if (i > 0 && !has(follow, log.errs[i].code)) label(std::string("unlisted-follow-up:") + cm::code_name(log.errs[i].code));
            }
            if (msg.empty() && !seen_must) msg = std::string(cm::code_name(must)) + " was never reported; callbacks: " + ph::errs_str(log);
        }
        if (msg.empty() && rc != CIF_OK) msg = "every error was accepted but cif_parse returned " + std::string(cm::code_name(rc)) + "; callbacks: " + ph::errs_str(log);
        if (msg.empty() && !cif) msg = "no CIF produced";
        if (msg.empty()) {
            Doc got; int drc = cm::dump(cif, got);
            if (drc != CIF_OK) msg = std::string("dump of the recovered CIF failed: ") + cm::code_name(drc);
            else {
                for (auto &b : got.blocks) canon_cont(b, cn);
                std::string g = cm::ser(got);
                if (g != c.get("expected") && !(c.kv.count("expected2") && g == c.get("expected2")))
                    msg = "recovered content differs from what the recovery table prescribes (callbacks: " + ph::errs_str(log) + ")\n--- expected\n" + c.get("expected") +
                          (c.kv.count("expected2") ? "--- or\n" + c.get("expected2") : std::string()) + "--- got\n" + g;
            }
        }
        int first_seen = log.errs.empty() ? 0 : log.errs[0].code;
        if (cif) { int d = cif_destroy(cif); if (d != CIF_OK && msg.empty()) msg = "cif_destroy failed"; }
        cm::ufree(opts);
        if (msg.empty()) {   // default handler: aborts on the first error, cif_parse returns that code
            cif_tp *c2 = nullptr; int rc2;
            if (po.mfd == 1 && po.enc == 0) { FILE *f = ph::mem_file(bytes); rc2 = cif_parse(f, nullptr, &c2); fclose(f); }
            else { struct cif_parse_opts_s *o2 = make_opts(po); FILE *f = ph::mem_file(bytes); rc2 = cif_parse(f, o2, &c2); fclose(f); cm::ufree(o2); }   // error_callback NULL = cif_parse_error_die
            if (rc2 != first_seen) msg = "with the default (abort) error handler cif_parse returned " + std::string(cm::code_name(rc2)) + " (" + std::to_string(rc2) + "), expected " + cm::code_name(first_seen);
            if (c2) (void) cif_destroy(c2);
        }
    }
    if (msg.empty() && c.kv.count("control")) { POpts cpo = po; cpo.mfd = 1; msg = check_silent(c.get("control"), c.get("control_expected"), cpo, "NEGATIVE CONTROL: the un-planted host"); }
    if (msg.empty()) msg = guard.check();
    return msg;
}

// =====================================================================================================================
// planting
// =====================================================================================================================
struct Plan {
    std::string cls; std::vector<std::string> pos;
    std::vector<Tok> toks; bool final_nl = true;
    std::vector<int> first, follow; int must = 0;
    int lo_tok = 0, lo_mode = 0, lo_add = 0;   // lo = (lo_mode ? end : start) line of token lo_tok, + lo_add
    int hi_tok = 0;                            // hi = end line of token hi_tok; >= toks.size(): the line on which the input ends
    Doc control, recovered, alt; bool has_alt = false;
    Canon cn; POpts po; int dialect = 2;
    std::vector<Tok> control_toks;
};
struct Env { uint32_t seed; int dialect; g::ValueOpts vo; };
// development aid only (never set by vcheck): C12_KNOWN=1 lets the planters produce the variants that are excluded as known findings (to re-derive witnesses)
static bool gen_known() { static const bool k = getenv("C12_KNOWN") != nullptr; return k; }

template <class T> static const T &pick(const std::vector<T> &v) { return v[(size_t) *g::range(0, (int) v.size() - 1)]; }

static Value *locate(Doc &d, const Rend &R, const Tok &t) {
    const Cont &c = R.conts[(size_t) t.cont];
    Value *v = &cont_of(d, c.blk, c.frm).loops[(size_t) t.li].rows[(size_t) t.row][(size_t) t.col];
    for (int p : t.vpath) v = v->k == Value::LIST ? &v->elems[(size_t) p] : &v->entries[(size_t) p].second;
    return v;
}

// position labels for a token of the un-edited rendering
static void pos_labels(const Rend &R, const Doc &d, int ti, Plan &P, bool at_end = false) {
    const Tok &t = R.t[(size_t) std::min<size_t>((size_t) ti, R.t.size() - 1)];
    if (ti == 0) P.pos.push_back("first-line");
    if (t.cont >= 0) {
        const Cont &c = R.conts[(size_t) t.cont];
        if (c.frm >= 0) P.pos.push_back("frame");
        if (c.blk == (int) d.blocks.size() - 1) P.pos.push_back("last-block");
        if (t.unit >= 0 && !c.units.empty()) P.pos.push_back(t.unit == 0 ? "first-item" : t.unit == (int) c.units.size() - 1 ? "last-item" : "middle-item");
    }
    if (t.kind == T_LNAME || t.kind == T_LOOPKW) P.pos.push_back("loop-header");
    else if (t.li >= 0 && t.kind != T_NAME && t.row >= 0 && t.cont >= 0) {
        const Cont &c = R.conts[(size_t) t.cont];
        if (!cont_of(d, c.blk, c.frm).loops[(size_t) t.li].is_scalar()) P.pos.push_back("loop-body");
    }
    int dep = t.depth + ((t.kind == T_OPEN || t.kind == T_CLOSE) ? 1 : 0);
    if (dep >= 1) P.pos.push_back("composite-d" + std::to_string(std::min(dep, 3)));
    if (at_end || ti >= (int) R.t.size() - 1) P.pos.push_back("before-eof");
}

static ustr filter_out(const ustr &s, const ustr &bad) { ustr o; for (char16_t ch : s) if (bad.find(ch) == ustr::npos) o += ch; return o; }
static ustr line_text(int maxlen, const ustr &bad) { return filter_out(*g::text(g::P_CIF2_LINE, maxlen), bad); }

// tokens of a free-standing value (for insertions); proto gives the bookkeeping fields
static bool value_tokens(const Value &v, Env &E, uint32_t salt, int ctx, int depth, std::vector<Tok> &out) {
    Renderer rr; rr.dialect = E.dialect; rr.seed = mix(E.seed, salt);
    Tok proto; rr.emit_value(v, "", ctx, depth, -1, proto, {});
    out = rr.R.t;
    return rr.ok;
}
static Value gen_scalar(Env &E) { g::ValueOpts o = E.vo; o.composites = false; return *g::scalar_value(o); }
static Value gen_composite(Env &E, int kind /*0 list, 1 table, -1 any*/, int depth) {
    if (kind < 0) kind = *g::range(0, 1);
    int n = *g::range(1, 3);
    Value v = kind == 0 ? Value::list() : Value::table();
    for (int i = 0; i < n; i++) {
        Value m = (depth > 1 && *g::chance(45)) ? gen_composite(E, -1, depth - 1) : gen_scalar(E);
        if (kind == 0) v.elems.push_back(m);
        else {
            ustr k = *g::chance(60) ? ustr(u"k") + u16(std::to_string(i)) : *g::table_key(E.vo);
            for (int guard = 0; guard < 8; guard++) {
                bool dup = false; for (auto &e : v.entries) if (g::nfc_key(e.first) == g::nfc_key(k)) dup = true;
                if (!dup) break;
                k = ustr(u"k") + u16(std::to_string(i)) + ustr((size_t) guard + 1, u'_');
            }
            v.entries.push_back({k, m});
        }
    }
    return v;
}

// ---- host helpers ---------------------------------------------------------------------------------------------------------
struct Work { Doc h; std::vector<Force> forces; Rend R; };
static std::vector<std::pair<int, int>> all_conts(const Doc &d) {
    std::vector<std::pair<int, int>> v;
    for (size_t b = 0; b < d.blocks.size(); b++) { v.push_back({(int) b, -1}); for (size_t f = 0; f < d.blocks[b].frames.size(); f++) v.push_back({(int) b, (int) f}); }
    return v;
}
static size_t name_count(const Container &c) { size_t n = 0; for (auto &l : c.loops) n += l.names.size(); return n; }
static int scalar_loop(const Container &c) { for (size_t i = 0; i < c.loops.size(); i++) if (c.loops[i].is_scalar()) return (int) i; return -1; }
// a fresh data name for this container: the host's names are _n<k>..., mine _x<k>: never equivalent
static ustr fresh_name(const Container &c) { return ustr(u"_x") + u16(std::to_string(name_count(c))); }
static int add_scalar(Container &c, const Value &v) {
    int sl = scalar_loop(c);
    if (sl < 0) { Loop s; s.has_cat = true; s.rows.push_back({}); c.loops.push_back(s); sl = (int) c.loops.size() - 1; }
    ustr n = fresh_name(c);
    c.loops[(size_t) sl].names.push_back(n); c.loops[(size_t) sl].rows[0].push_back(v);
    return (int) c.loops[(size_t) sl].names.size() - 1;
}
static int add_loop(Container &c, Env &E, int ncols, int nrows) {
    Loop l; l.has_cat = false;
    size_t base = name_count(c);
    for (int j = 0; j < ncols; j++) l.names.push_back(ustr(u"_x") + u16(std::to_string(base + (size_t) j)));
    for (int r = 0; r < nrows; r++) { std::vector<Value> row; for (int j = 0; j < ncols; j++) row.push_back(gen_scalar(E)); l.rows.push_back(row); }
    c.loops.push_back(l);
    return (int) c.loops.size() - 1;
}
static void add_frame(Container &b, Env &E) {
    Container f; f.code = ustr(u"f") + u16(std::to_string(b.frames.size())) + (*g::chance(50) ? ustr(u".q") : ustr());
    int n = *g::range(0, 2);
    for (int i = 0; i < n; i++) add_scalar(f, gen_scalar(E));
    if (*g::chance(35)) add_loop(f, E, *g::range(1, 2), *g::range(1, 2));
    b.frames.push_back(f);
}
static void fix_host(Doc &h, int dialect) {
    if (h.blocks.empty()) { Container b; b.code = u"b0"; h.blocks.push_back(b); }
    if (dialect != 2) {   // CIF 1.1: a bare word holding brackets/braces denotes a value the parser must flag as quoted -> keep clear of that
        std::function<void(Container &)> fx = [&](Container &c) {
            for (auto &l : c.loops) for (auto &r : l.rows) for (auto &v : r) if ((v.k == Value::CHAR || v.k == Value::NUMB) && !v.quoted)
                for (char16_t ch : v.text) if (ch == '[' || ch == ']' || ch == '{' || ch == '}' || ch == '$') v.quoted = true;
            for (auto &f : c.frames) fx(f);
        };
        for (auto &b : h.blocks) fx(b);
    }
}
static void ensure_scalar(Doc &h, Env &E) {
    for (auto &p : all_conts(h)) if (scalar_loop(cont_of(h, p.first, p.second)) >= 0) return;
    auto cs = all_conts(h); auto p = pick(cs);
    add_scalar(cont_of(h, p.first, p.second), gen_scalar(E));
}
struct VPos { int blk, frm, li, row, col; };
static std::vector<VPos> value_positions(const Doc &h, bool scalars_only) {
    std::vector<VPos> v;
    for (auto &p : all_conts(h)) { const Container &c = cont_of(h, p.first, p.second);
        for (size_t l = 0; l < c.loops.size(); l++) { if (scalars_only && !c.loops[l].is_scalar()) continue;
            for (size_t r = 0; r < c.loops[l].rows.size(); r++) for (size_t j = 0; j < c.loops[l].rows[r].size(); j++) v.push_back({p.first, p.second, (int) l, (int) r, (int) j}); } }
    return v;
}
// make sure the document holds a list / table: plant a generated composite at some top-level value position
static void ensure_composite(Doc &h, Env &E, int kind, bool scalars_only) {
    ensure_scalar(h, E);
    bool have = false;
    std::function<void(const Value &)> look = [&](const Value &v) { if ((v.k == Value::LIST && kind != 1) || (v.k == Value::TABLE && kind != 0)) have = true; for (auto &e : v.elems) look(e); for (auto &e : v.entries) look(e.second); };
    for (auto &p : value_positions(h, scalars_only)) look(cont_of(h, p.blk, p.frm).loops[(size_t) p.li].rows[(size_t) p.row][(size_t) p.col]);
    if (have && *g::chance(40)) return;
    auto ps = value_positions(h, scalars_only); VPos p = pick(ps);
    Value v = gen_composite(E, kind, *g::range(1, 3));
    if (kind >= 0 && *g::chance(40)) {   // wrap so that the wanted kind sits at depth 2-3
        Value w = *g::chance(50) ? Value::list({gen_scalar(E), v}) : Value::table({{u"w", gen_scalar(E)}, {u"in", v}});
        v = w;
    }
    cont_of(h, p.blk, p.frm).loops[(size_t) p.li].rows[(size_t) p.row][(size_t) p.col] = v;
}

static bool start(Work &W, Env &E, Plan &P) {
    if (!render(W.h, E.dialect, E.seed, W.forces, W.R)) return false;
    P.control = W.h; P.recovered = W.h; P.control_toks = W.R.t; P.toks = W.R.t; P.dialect = E.dialect;
    return true;
}
struct Bnd { int at; int cont; int prev; };   // insertion index; container; kind of the unit before (-1: the container header)
static std::vector<Bnd> boundaries(const Rend &R) {
    std::vector<Bnd> v;
    for (size_t ci = 0; ci < R.conts.size(); ci++) { const Cont &c = R.conts[ci]; v.push_back({c.hdr + 1, (int) ci, -1}); for (auto &u : c.units) v.push_back({u.te, (int) ci, u.kind}); }
    return v;
}
static int kind_at(const std::vector<Tok> &t, int i) { return i < (int) t.size() ? t[(size_t) i].kind : -1; }
static bool ends_loop_or_item(int k) { return k == T_LOOPKW || k == T_BLOCK || k == T_FRAME || k == T_FEND || k == -1; }   // token kinds that are neither a data name nor a value
static void insert_toks(std::vector<Tok> &t, int at, const std::vector<Tok> &ins) { t.insert(t.begin() + at, ins.begin(), ins.end()); }
static Tok raw(const std::string &s) { Tok t; t.kind = T_RAW; t.s = s; return t; }
static ustr name_variant(const ustr &n) {
    ustr v = g::randcase(n, (uint32_t) *g::range(0, 0x3fffffff));
    int m = *g::range(0, 9);
    if (m == 0) v = cm::nfd(v); else if (m == 1) v = cm::nfc(v);
    return v;
}

// ---- the planters ---------------------------------------------------------------------------------------------------------
// missing value: a data name directly followed by another name / loop_ / data_ / save_ / end of input  ->  CIF_MISSING_VALUE, item = UNKNOWN
static bool p_missing_value(Work &W, Env &E, Plan &P) {
    ensure_scalar(W.h, E);
    if (!start(W, E, P)) return false;
    std::vector<int> c; for (size_t i = 0; i < W.R.t.size(); i++) if (W.R.t[i].kind == T_NAME) c.push_back((int) i);
    int i = pick(c); const Tok &v = W.R.t[(size_t) i + 1];
    *locate(P.recovered, W.R, v) = Value::unk();
    P.toks.erase(P.toks.begin() + i + 1, P.toks.begin() + v.vend + 1);
    P.first = {CIF_MISSING_VALUE}; P.lo_tok = i; P.hi_tok = i + 1;
    pos_labels(W.R, W.h, i, P, i + 1 >= (int) P.toks.size());
    return true;
}
// table key without value ("a data name or table key appears without a paired value")  ->  CIF_MISSING_VALUE, entry = UNKNOWN
static bool p_missing_value_table(Work &W, Env &E, Plan &P) {
    ensure_composite(W.h, E, 1, false);
    if (!start(W, E, P)) return false;
    std::vector<int> c; for (size_t i = 0; i < W.R.t.size(); i++) if (W.R.t[i].ctx == C_TABLE && W.R.t[i].keylen > 0 && (W.R.t[i].kind == T_VAL || W.R.t[i].kind == T_OPEN)) c.push_back((int) i);
    if (c.empty()) return false;
    int i = pick(c); const Tok &v = W.R.t[(size_t) i];
    *locate(P.recovered, W.R, v) = Value::unk();
    P.toks[(size_t) i].s = v.s.substr(0, (size_t) v.keylen); P.toks[(size_t) i].kind = T_RAW;
    P.toks.erase(P.toks.begin() + i + 1, P.toks.begin() + v.vend + 1);
    P.first = {CIF_MISSING_VALUE}; P.lo_tok = i; P.hi_tok = i + 1;
    pos_labels(W.R, W.h, i, P);
    return true;
}
// duplicate scalar data name (also under case / normalisation variants)  ->  CIF_DUP_ITEMNAME, second item and its value dropped
static bool p_dup_scalar(Work &W, Env &E, Plan &P) {
    ensure_scalar(W.h, E);
    if (!start(W, E, P)) return false;
    std::vector<std::pair<int, int>> c;   // (container, unit) with names
    for (size_t ci = 0; ci < W.R.conts.size(); ci++) for (size_t u = 0; u < W.R.conts[ci].units.size(); u++) if (W.R.conts[ci].units[u].kind != 2) c.push_back({(int) ci, (int) u});
    auto cu = pick(c); const Cont &ct = W.R.conts[(size_t) cu.first]; const Unit &u = ct.units[(size_t) cu.second];
    const Container &mc = cont_of(W.h, ct.blk, ct.frm);
    ustr name = u.kind == 0 ? mc.loops[(size_t) scalar_loop(mc)].names[(size_t) u.idx] : pick(mc.loops[(size_t) u.idx].names);
    std::vector<Bnd> bs; for (auto &b : boundaries(W.R)) if (b.cont == cu.first && b.at >= u.te) bs.push_back(b);
    Bnd b = pick(bs);
    Value v = *g::chance(25) ? gen_composite(E, -1, 2) : gen_scalar(E);
    std::vector<Tok> ins; if (!value_tokens(v, E, 901, C_CONT, 0, ins)) return false;
    Tok n = raw(u8(name_variant(name))); ins.insert(ins.begin(), n);
    insert_toks(P.toks, b.at, ins);
    P.first = {CIF_DUP_ITEMNAME}; P.lo_tok = b.at; P.hi_tok = b.at + 1;
    pos_labels(W.R, W.h, std::max(b.at - 1, 0), P, b.at >= (int) W.R.t.size());
    if (u.kind == 1) P.pos.push_back("dup-of-looped-name");
    return true;
}
// duplicate name in a loop header  ->  CIF_DUP_ITEMNAME, that column dropped from every packet (the packets are still counted
// with the full header width)
static bool p_dup_loop_name(Work &W, Env &E, Plan &P, bool same_header) {
    auto cs = all_conts(W.h); std::vector<std::pair<std::pair<int, int>, int>> loops;
    for (auto &p : cs) { const Container &c = cont_of(W.h, p.first, p.second); for (size_t l = 0; l < c.loops.size(); l++) if (!c.loops[l].is_scalar()) loops.push_back({p, (int) l}); }
    std::pair<int, int> cp_; int li;
    if (loops.empty()) { cp_ = pick(cs); li = add_loop(cont_of(W.h, cp_.first, cp_.second), E, *g::range(1, 3), *g::range(1, 3)); }
    else { auto x = pick(loops); cp_ = x.first; li = x.second; }
    Container &mc = cont_of(W.h, cp_.first, cp_.second);
    if (!same_header) {
        if (name_count(mc) == mc.loops[(size_t) li].names.size()) add_scalar(mc, gen_scalar(E));
        W.forces.push_back(Force{cp_.first, cp_.second, {{1, li}}});   // the loop is printed last: every other name of the container precedes it
    }
    if (!start(W, E, P)) return false;
    const Container &c = cont_of(W.h, cp_.first, cp_.second); const Loop &l = c.loops[(size_t) li];
    int ci = -1, ui = -1;
    for (size_t k = 0; k < W.R.conts.size(); k++) if (W.R.conts[k].blk == cp_.first && W.R.conts[k].frm == cp_.second) { ci = (int) k; for (size_t u = 0; u < W.R.conts[k].units.size(); u++) if (W.R.conts[k].units[u].kind == 1 && W.R.conts[k].units[u].idx == li) ui = (int) u; }
    if (ci < 0 || ui < 0) return false;
    const Unit &u = W.R.conts[(size_t) ci].units[(size_t) ui];
    int ncols = (int) l.names.size();
    int p = *g::range(same_header ? 1 : 0, ncols);
    ustr src;
    if (same_header) src = l.names[(size_t) *g::range(0, p - 1)];
    else { std::vector<ustr> others; for (size_t k = 0; k < c.loops.size(); k++) if ((int) k != li) for (auto &n : c.loops[k].names) others.push_back(n); src = pick(others); }
    // cell starts, by row
    std::vector<int> starts; for (int i = u.tb; i < u.te; i++) { const Tok &t = W.R.t[(size_t) i]; if (t.ctx == C_LBODY && t.depth == 0 && (t.kind == T_VAL || t.kind == T_OPEN)) starts.push_back(i); }
    if ((int) starts.size() != ncols * (int) l.rows.size()) return false;
    for (int r = (int) l.rows.size() - 1; r >= 0; r--) {
        int at = p < ncols ? starts[(size_t) (r * ncols + p)] : W.R.t[(size_t) starts[(size_t) (r * ncols + ncols - 1)]].vend + 1;
        std::vector<Tok> ins; if (!value_tokens(gen_scalar(E), E, 300 + (uint32_t) r, C_LBODY, 0, ins)) return false;
        insert_toks(P.toks, at, ins);
    }
    int nat = u.tb + 1 + p;
    insert_toks(P.toks, nat, {raw(u8(name_variant(src)))});
    P.first = {CIF_DUP_ITEMNAME}; P.lo_tok = nat; P.hi_tok = nat + 1;
    pos_labels(W.R, W.h, u.tb, P);
    P.pos.push_back(p == 0 ? "header-first" : p == ncols ? "header-last" : "header-middle");
    return true;
}
// split the contents of container c over two containers with the same code (the second under a case variant)
static Container split_off(Container &c) {
    Container s; s.code = name_variant(c.code);
    std::vector<Loop> keep;
    for (auto &l : c.loops) {
        if (l.is_scalar()) {
            Loop a = l, b = l; a.names.clear(); b.names.clear(); a.rows = {{}}; b.rows = {{}};
            for (size_t j = 0; j < l.names.size(); j++) { Loop &d = *g::chance(50) ? a : b; d.names.push_back(l.names[j]); d.rows[0].push_back(l.rows[0][j]); }
            if (!a.names.empty()) keep.push_back(a);
            if (!b.names.empty()) s.loops.push_back(b);
        } else if (*g::chance(50)) keep.push_back(l); else s.loops.push_back(l);
    }
    c.loops = keep;
    std::vector<Container> fk; for (auto &f : c.frames) { if (*g::chance(50)) fk.push_back(f); else s.frames.push_back(f); }
    c.frames = fk;
    return s;
}
// duplicate block code  ->  CIF_DUP_BLOCKCODE, contents merged into the first block (no colliding names by construction: the
// second block holds a part of the host block's own contents)
static bool p_dup_block(Work &W, Env &E, Plan &P) {
    Doc host = W.h;
    int b = *g::range(0, (int) W.h.blocks.size() - 1);
    Container s = split_off(W.h.blocks[(size_t) b]);
    int at = *g::chance(50) ? b + 1 : (int) W.h.blocks.size();
    W.h.blocks.insert(W.h.blocks.begin() + at, s);
    if (!start(W, E, P)) return false;
    Rend C; if (!render(host, E.dialect, E.seed, {}, C)) return false;
    P.control = host; P.recovered = host; P.control_toks = C.t;
    int hdr = -1; for (auto &c : W.R.conts) if (c.blk == at && c.frm < 0) hdr = c.hdr;
    P.first = {CIF_DUP_BLOCKCODE}; P.lo_tok = hdr; P.hi_tok = hdr;
    P.pos.push_back(at == b + 1 ? "adjacent" : "after-other-blocks"); if (at == (int) W.h.blocks.size() - 1) P.pos.push_back("last-block");
    if (hdr == (int) P.toks.size() - 1) P.pos.push_back("before-eof");
    return true;
}
static bool p_dup_frame(Work &W, Env &E, Plan &P) {
    int b = *g::range(0, (int) W.h.blocks.size() - 1);
    if (W.h.blocks[(size_t) b].frames.empty()) add_frame(W.h.blocks[(size_t) b], E);
    Doc host = W.h;
    Container &blk = W.h.blocks[(size_t) b];
    int f = *g::range(0, (int) blk.frames.size() - 1);
    Container s = split_off(blk.frames[(size_t) f]);
    blk.frames.push_back(s);
    W.forces.push_back(Force{b, -1, {{2, (int) blk.frames.size() - 1}}});
    if (!start(W, E, P)) return false;
    Rend C; if (!render(host, E.dialect, E.seed, {}, C)) return false;
    P.control = host; P.recovered = host; P.control_toks = C.t;
    int hdr = -1; for (auto &c : W.R.conts) if (c.blk == b && c.frm == (int) blk.frames.size() - 1) hdr = c.hdr;
    P.first = {CIF_DUP_FRAMECODE}; P.lo_tok = hdr; P.hi_tok = hdr;
    P.pos.push_back("frame"); if (b == (int) W.h.blocks.size() - 1) P.pos.push_back("last-block");
    return true;
}
// invalid block / frame code  ->  CIF_INVALID_BLOCKCODE / CIF_INVALID_FRAMECODE, the code is used anyway.
// The only codes that are invalid yet lexable as a header are (a) longer than 2048-5 characters -- which by necessity also
// makes the line over-long: CIF_OVERLENGTH_LINE is a documented companion and allowed as follow-up -- and (b) holding a
// character outside the CIF character set -- which is, by the same token, a "disallowed character" defect: either code may
// come first, both are allowed, the invalid-code report is required, and the stored code is compared with that character masked.
static bool p_invalid_code(Work &W, Env &E, Plan &P, bool frame, bool longcode) {
    int b = *g::range(0, (int) W.h.blocks.size() - 1);
    if (frame && W.h.blocks[(size_t) b].frames.empty()) add_frame(W.h.blocks[(size_t) b], E);
    Doc host = W.h;
    int f = frame ? *g::range(0, (int) W.h.blocks[(size_t) b].frames.size() - 1) : -1;
    Container &c = cont_of(W.h, b, f);
    int code = frame ? CIF_INVALID_FRAMECODE : CIF_INVALID_BLOCKCODE;
    if (longcode) {
        int n = 0; for (char16_t ch : c.code) if (!(ch >= 0xDC00 && ch <= 0xDFFF)) n++;
        int target = *g::range(2044, 2050);
        c.code += ustr((size_t) (target - n), u'x');
        P.first = {code}; P.follow = {CIF_OVERLENGTH_LINE};
    } else {
        char16_t bad = *rc::gen::element<char16_t>(0x01, 0x7F, 0xFFFE, 0x1F, 0xFDD0);
        ustr pre = c.code + u"QZ", post = u"ZQ";
        c.code = pre + ustr(1, bad) + post;
        P.cn.mask = true; P.cn.pre = pre; P.cn.post = post; P.cn.full = c.code;
        P.first = {CIF_DISALLOWED_CHAR, code}; P.follow = {CIF_DISALLOWED_CHAR, code}; P.must = code;
    }
    if (!start(W, E, P)) return false;
    Rend C; if (!render(host, E.dialect, E.seed, {}, C)) return false;
    P.control = host; P.control_toks = C.t;
    int hdr = -1; for (auto &ct : W.R.conts) if (ct.blk == b && ct.frm == f) hdr = ct.hdr;
    P.lo_tok = hdr; P.hi_tok = hdr + 1;
    if (frame) P.pos.push_back("frame"); if (b == (int) W.h.blocks.size() - 1) P.pos.push_back("last-block"); if (b == 0 && !frame) P.pos.push_back("first-block");
    return true;
}
// a block / frame code that is invalid AND repeated: both recovery rows apply to the one header ("use the code anyway", then
// "reopen the specified block/frame") -> the contents of the two containers are merged under the invalid code.
// (F-INVALID-DUP-FRAME, fixed: the reopening went through the validating public getter and aborted the parse.)
static bool p_invalid_dup(Work &W, Env &E, Plan &P, bool frame) {
    int b = *g::range(0, (int) W.h.blocks.size() - 1);
    if (frame && W.h.blocks[(size_t) b].frames.empty()) add_frame(W.h.blocks[(size_t) b], E);
    Doc host = W.h;
    int f = frame ? *g::range(0, (int) W.h.blocks[(size_t) b].frames.size() - 1) : -1;
    char16_t bad = *rc::gen::element<char16_t>(0x01, 0x7F, 0xFFFE, 0x1F, 0xFDD0);
    ustr pre = cont_of(W.h, b, f).code + u"QZ", post = u"ZQ";
    cont_of(W.h, b, f).code = pre + ustr(1, bad) + post;
    P.cn.mask = true; P.cn.pre = pre; P.cn.post = post; P.cn.full = cont_of(W.h, b, f).code;
    Doc merged = W.h;
    int code = frame ? CIF_INVALID_FRAMECODE : CIF_INVALID_BLOCKCODE, dup = frame ? CIF_DUP_FRAMECODE : CIF_DUP_BLOCKCODE;
    int sb = b, sf = -1;
    if (frame) {
        Container &blk = W.h.blocks[(size_t) b];
        Container s = split_off(blk.frames[(size_t) f]);
        blk.frames.push_back(s); sf = (int) blk.frames.size() - 1;
        W.forces.push_back(Force{b, -1, {{2, sf}}});
    } else {
        Container s = split_off(W.h.blocks[(size_t) b]);
        sb = *g::chance(50) ? b + 1 : (int) W.h.blocks.size();
        W.h.blocks.insert(W.h.blocks.begin() + sb, s);
    }
    if (!start(W, E, P)) return false;
    Rend C; if (!render(host, E.dialect, E.seed, {}, C)) return false;
    P.control = host; P.control_toks = C.t; P.recovered = merged;
    int hdr = -1, hdr2 = -1;
    for (auto &ct : W.R.conts) { if (ct.blk == b && ct.frm == f) hdr = ct.hdr; if (ct.blk == sb && ct.frm == sf) hdr2 = ct.hdr; }
    if (hdr < 0 || hdr2 < 0 || hdr2 < hdr) return false;
    P.first = {CIF_DISALLOWED_CHAR, code}; P.follow = {CIF_DISALLOWED_CHAR, code, dup}; P.must = dup;
    P.lo_tok = hdr; P.hi_tok = hdr + 1;
    if (frame) P.pos.push_back("frame"); if (b == (int) W.h.blocks.size() - 1) P.pos.push_back("last-block");
    return true;
}
// data before the first block header  ->  CIF_NO_BLOCK_HEADER, the content goes to a block with the empty code
static bool p_no_block_header(Work &W, Env &E, Plan &P) {
    Container &b0 = W.h.blocks[0];
    if (b0.loops.empty() && b0.frames.empty()) add_scalar(b0, gen_scalar(E));
    if (!start(W, E, P)) return false;
    P.recovered.blocks[0].code = ustr();
    P.toks.erase(P.toks.begin() + 1);
    P.first = {CIF_NO_BLOCK_HEADER}; P.lo_tok = 1; P.hi_tok = 1;
    int k = W.R.t[2].kind; P.pos.push_back(k == T_NAME ? "starts-with-item" : k == T_LOOPKW ? "starts-with-loop" : "starts-with-frame");
    return true;
}
// partial final packet  ->  CIF_PARTIAL_PACKET, padded with UNKNOWN
static bool find_loop(Work &W, Env &E, int mincols, std::pair<int, int> &cp_, int &li) {
    std::vector<std::pair<std::pair<int, int>, int>> loops;
    for (auto &p : all_conts(W.h)) { const Container &c = cont_of(W.h, p.first, p.second); for (size_t l = 0; l < c.loops.size(); l++) if (!c.loops[l].is_scalar() && (int) c.loops[l].names.size() >= mincols) loops.push_back({p, (int) l}); }
    if (loops.empty() || *g::chance(15)) { auto cs = all_conts(W.h); cp_ = pick(cs); li = add_loop(cont_of(W.h, cp_.first, cp_.second), E, *g::range(mincols, 3), *g::range(1, 3)); }
    else { auto x = pick(loops); cp_ = x.first; li = x.second; }
    return true;
}
static bool loop_unit(const Rend &R, std::pair<int, int> cp_, int li, int &ci, int &ui) {
    for (size_t k = 0; k < R.conts.size(); k++) if (R.conts[k].blk == cp_.first && R.conts[k].frm == cp_.second) for (size_t u = 0; u < R.conts[k].units.size(); u++) if (R.conts[k].units[u].kind == 1 && R.conts[k].units[u].idx == li) { ci = (int) k; ui = (int) u; return true; }
    return false;
}
static std::vector<int> cell_starts(const Rend &R, const Unit &u) { std::vector<int> s; for (int i = u.tb; i < u.te; i++) { const Tok &t = R.t[(size_t) i]; if (t.ctx == C_LBODY && t.depth == 0 && (t.kind == T_VAL || t.kind == T_OPEN)) s.push_back(i); } return s; }
static bool p_partial_packet(Work &W, Env &E, Plan &P) {
    std::pair<int, int> cp_; int li; find_loop(W, E, 2, cp_, li);
    if (!start(W, E, P)) return false;
    int ci, ui; if (!loop_unit(W.R, cp_, li, ci, ui)) return false;
    const Unit &u = W.R.conts[(size_t) ci].units[(size_t) ui];
    Loop &l = cont_of(P.recovered, cp_.first, cp_.second).loops[(size_t) li];
    int ncols = (int) l.names.size(), k = *g::range(1, ncols - 1);
    auto st = cell_starts(W.R, u);
    int cut = st[st.size() - (size_t) k];
    for (int j = ncols - k; j < ncols; j++) l.rows.back()[(size_t) j] = Value::unk();
    P.toks.erase(P.toks.begin() + cut, P.toks.begin() + u.te);
    P.first = {CIF_PARTIAL_PACKET}; P.lo_tok = cut - 1; P.lo_mode = 1; P.hi_tok = cut;
    pos_labels(W.R, W.h, cut, P, cut >= (int) P.toks.size());
    return true;
}
// loop_ without data names  ->  CIF_NULL_LOOP, ignored
static bool p_null_loop(Work &W, Env &E, Plan &P) {
    if (!start(W, E, P)) return false;
    std::vector<Bnd> bs; for (auto &b : boundaries(W.R)) if (ends_loop_or_item(kind_at(W.R.t, b.at))) bs.push_back(b);
    Bnd b = pick(bs);
    insert_toks(P.toks, b.at, {raw(randcase8("loop_", (uint32_t) *g::range(0, 31)))});
    P.first = {CIF_NULL_LOOP}; P.lo_tok = b.at; P.hi_tok = b.at + 1;
    pos_labels(W.R, W.h, std::max(b.at - 1, 0), P, b.at >= (int) W.R.t.size());
    int k = kind_at(W.R.t, b.at); P.pos.push_back(k == T_LOOPKW ? "before-loop" : k == T_BLOCK ? "before-block" : k == T_FRAME ? "before-frame" : k == T_FEND ? "before-frame-end" : "before-eof");
    return true;
}
// loop header without values  ->  CIF_EMPTY_LOOP, "accept": the loop is absent or present without packets (both accepted: the
// table says the empty loop is accepted, the code comment says it may be pruned at the end of the container)
static bool p_empty_loop(Work &W, Env &E, Plan &P) {
    std::pair<int, int> cp_; int li; find_loop(W, E, 1, cp_, li);
    for (int attempt = 0; attempt < 2; attempt++) {
        if (!start(W, E, P)) return false;
        int ci, ui; if (!loop_unit(W.R, cp_, li, ci, ui)) return false;
        const Unit &u = W.R.conts[(size_t) ci].units[(size_t) ui];
        if (!ends_loop_or_item(kind_at(W.R.t, u.te))) { if (attempt) return false; W.forces.push_back(Force{cp_.first, cp_.second, {{1, li}}}); continue; }   // a data name after the header would join it
        auto st = cell_starts(W.R, u);
        P.toks.erase(P.toks.begin() + st[0], P.toks.begin() + u.te);
        P.alt = P.recovered; P.has_alt = true;
        cont_of(P.alt, cp_.first, cp_.second).loops[(size_t) li].rows.clear();
        auto &ls = cont_of(P.recovered, cp_.first, cp_.second).loops; ls.erase(ls.begin() + li);
        P.first = {CIF_EMPTY_LOOP}; P.lo_tok = st[0] - 1; P.lo_mode = 1; P.hi_tok = st[0];
        pos_labels(W.R, W.h, u.tb, P, st[0] >= (int) P.toks.size());
        return true;
    }
    return false;
}

// replace the scalar value held by token i (control document, recovered document, both token lists)
static void replace_scalar(Work &W, Plan &P, int i, const Value &nv, const std::string &control_text, const std::string &planted_text) {
    const Tok &t = W.R.t[(size_t) i];
    *locate(P.control, W.R, t) = nv; *locate(P.recovered, W.R, t) = nv;
    std::string prefix = t.s.substr(0, (size_t) t.keylen);
    auto compose = [&](const std::string &x) { return prefix + ((!x.empty() && x[0] == ';' && !prefix.empty()) ? "\n" : "") + x; };
    P.control_toks[(size_t) i].s = compose(control_text); P.toks[(size_t) i].s = compose(planted_text);
}
static std::vector<int> scalar_tokens(const Rend &R) { std::vector<int> c; for (size_t i = 0; i < R.t.size(); i++) if (R.t[i].kind == T_VAL) c.push_back((int) i); return c; }

// unterminated quoted string ('abc<newline>)  ->  CIF_MISSING_ENDQUOTE, value closed at the end of the line
static bool p_missing_endquote(Work &W, Env &E, Plan &P) {
    if (*g::chance(40)) ensure_composite(W.h, E, -1, false); else ensure_scalar(W.h, E);
    if (!start(W, E, P)) return false;
    auto c = scalar_tokens(W.R); if (c.empty()) return false;
    int i = pick(c);
    bool dq = *g::chance(50); std::string q = dq ? "\"" : "'";
    ustr T = line_text(10, dq ? u"\"" : u"'");
    Value nv = Value::chr(T, true);
    replace_scalar(W, P, i, nv, q + u8(T) + q, q + u8(T));
    P.toks[(size_t) i].nl_after = true;
    P.first = {CIF_MISSING_ENDQUOTE}; P.lo_tok = i; P.hi_tok = i + 1;
    pos_labels(W.R, W.h, i, P);
    return true;
}
// unterminated text field / triple-quoted string as the last thing in the input  ->  CIF_UNCLOSED_TEXT, the value runs to the end
static bool p_unclosed_text(Work &W, Env &E, Plan &P) {
    int b = (int) W.h.blocks.size() - 1; Container &blk = W.h.blocks[(size_t) b];
    bool loop = *g::chance(35);
    if (loop) { int li = add_loop(blk, E, *g::range(1, 2), *g::range(1, 2)); W.forces.push_back(Force{b, -1, {{1, li}}}); }
    else { int col = add_scalar(blk, gen_scalar(E)); W.forces.push_back(Force{b, -1, {{0, col}}}); }
    if (!start(W, E, P)) return false;
    int i = (int) W.R.t.size() - 1;
    if (W.R.t[(size_t) i].kind != T_VAL || W.R.t[(size_t) i].depth != 0) return false;
    int style = *g::range(0, 2);   // 0 text field, 1 ''', 2 """
    ustr T = filter_out(*g::text(g::P_CIF2, 14), style == 0 ? u"\\" : style == 1 ? u"'" : u"\"");
    if (style == 0) for (size_t k = 1; k < T.size(); k++) if (T[k] == u';' && T[k - 1] == u'\n') T[k] = u':';
    std::string open = style == 0 ? ";" : style == 1 ? "'''" : "\"\"\"", close = style == 0 ? "\n;" : open;
    replace_scalar(W, P, i, Value::chr(T, true), open + u8(T) + close, open + u8(T));
    if (style == 0 && !T.empty() && T.back() == u'\n') {
        // ";abc\n<EOF>": the table says the closing delimiter is assumed "at the end of the input" -> "abc\n"; reading the final line
        // terminator as the first half of the assumed "\n;" -> "abc".  The statement does not decide: both accepted.
        P.alt = P.recovered; P.has_alt = true; *locate(P.alt, W.R, W.R.t[(size_t) i]) = Value::chr(T.substr(0, T.size() - 1), true);
    }
    P.final_nl = false;
    P.first = {CIF_UNCLOSED_TEXT}; P.lo_tok = i; P.hi_tok = i + 1;
    pos_labels(W.R, W.h, i, P, true); P.pos.push_back(style == 0 ? "text-field" : "triple-quoted");
    return true;
}
// missing whitespace between a value and what follows it  ->  CIF_MISSING_SPACE, whitespace assumed
static bool p_missing_space(Work &W, Env &E, Plan &P) {
    if (*g::chance(60)) ensure_composite(W.h, E, -1, false); else ensure_scalar(W.h, E);
    if (!start(W, E, P)) return false;
    std::vector<int> c;
    for (size_t i = 1; i + 1 < W.R.t.size(); i++) {
        const Tok &a = W.R.t[i], &b = W.R.t[i + 1];
        if (b.kind == T_CLOSE || b.s.empty() || b.s[0] == ':' || b.s[0] == ';' || b.s[0] == '#') continue;   // no blank is required before a closing bracket
        if (a.kind == T_CLOSE || a.kind == T_VAL) c.push_back((int) i);
    }
    if (c.empty()) return false;
    int i = pick(c); const Tok &a = W.R.t[(size_t) i], &b = W.R.t[(size_t) i + 1];
    std::string variant;
    bool comment = *g::chance(15);   // 'abc'#comment : a comment cannot start a white-space run
    if (a.kind == T_CLOSE) variant = "bracket+x";
    else if ((a.style == S_BARE || a.style == S_NONE) && b.kind == T_OPEN && b.keylen == 0 && *g::chance(70)) variant = "bare+open";   // abc[ ... : the bracket ends the bare word
    else {
        std::string val = a.s.substr((size_t) a.keylen);
        bool quoted_end = a.style == S_SQ || a.style == S_DQ || a.style == S_TSQ || a.style == S_TDQ || a.style == S_TEXT;
        bool empty_same = (val == "''" || val == "\"\"") && b.s[0] == val[0];   // ''' would open a triple-quoted string
        if (!quoted_end || empty_same || *g::chance(30)) {
            bool dq = *g::chance(50); std::string q = dq ? "\"" : "'";
            ustr T = line_text(8, dq ? u"\"" : u"'"); if (T.empty()) T = u"v";
            replace_scalar(W, P, i, Value::chr(T, true), q + u8(T) + q, q + u8(T) + q);
            variant = "quoted+x";
        } else variant = a.style == S_TEXT ? "textfield+x" : (a.style == S_TSQ || a.style == S_TDQ) ? "triple+x" : "quoted+x";
    }
    if (variant == "bare+open" && *g::chance(60)) {
        // the bare word before the bracket: of any length (the scanner compares the first characters of a bare word with the reserved
        // data_/save_ prefixes, so words longer than those prefixes and words that are a prefix of them take other paths)
        static const char *SPECIAL[] = {"dat", "DATA", "sav", "save", "d", "S", "loo", "glob", "stop"};
        std::string w;
        if (*g::chance(35)) w = SPECIAL[(size_t) *g::range(0, 8)];
        else { int n = *g::range(5, 14); uint32_t r = (uint32_t) *g::range(0, 0x3fffffff); for (int k = 0; k < n; k++) w += (char) ((k % 3 == 2 ? '0' : 'a') + (int) ((r >> (2 * k)) & 7)); }
        replace_scalar(W, P, i, Value::chr(u16(w), false), w, w);
        P.pos.push_back(w.size() >= 5 ? "bare-word>=5" : "bare-word-short");
    }
    if (comment && variant != "bare+open") { P.toks[(size_t) i].s += "#comment"; P.toks[(size_t) i].nl_after = true; variant += "+comment"; }
    else { P.toks[(size_t) i].glue = true; P.toks[(size_t) i].nl_after = false; }
    P.first = {CIF_MISSING_SPACE}; P.lo_tok = i; P.lo_mode = 1; P.hi_tok = i + 1;
    // abc[ : the one missing blank is noticed twice, by the bare-word scan that stops at the bracket and by the start of the next token.  The statement
    // does not limit how often a defect is reported: a repeated CIF_MISSING_SPACE is accepted for this variant.
    if (variant == "bare+open") P.follow = {CIF_MISSING_SPACE};
    pos_labels(W.R, W.h, i, P); P.pos.push_back(variant);
    int k = b.kind; P.pos.push_back(k == T_NAME ? "then-name" : k == T_LOOPKW ? "then-loop" : k == T_BLOCK ? "then-block" : k == T_FRAME || k == T_FEND ? "then-save" : b.keylen ? "then-key" : k == T_OPEN ? "then-open" : "then-value");
    return true;
}
// insertion points between complete syntactic elements
static std::vector<int> loop_body_points(const Rend &R) {
    std::vector<int> v; for (size_t i = 0; i < R.t.size(); i++) { const Tok &t = R.t[i]; if (t.ctx == C_LBODY && t.depth == 0 && (t.kind == T_VAL || t.kind == T_OPEN)) v.push_back((int) i); }
    return v;
}
// stray ] or } outside any list / table  ->  CIF_UNEXPECTED_DELIM, ignored
static bool p_unexpected_delim(Work &W, Env &E, Plan &P) {
    (void) E;
    if (!start(W, E, P)) return false;
    std::vector<int> at; for (auto &b : boundaries(W.R)) at.push_back(b.at);
    auto lb = loop_body_points(W.R); bool inloop = !lb.empty() && *g::chance(35);
    int a = inloop ? pick(lb) : pick(at);
    insert_toks(P.toks, a, {raw(*g::chance(50) ? "]" : "}")});
    P.first = {CIF_UNEXPECTED_DELIM}; P.lo_tok = a; P.hi_tok = a + 1;
    pos_labels(W.R, W.h, inloop ? a : std::max(a - 1, 0), P, a >= (int) W.R.t.size());
    return true;
}
// list / table left open before the next data name, keyword, other bracket or the end  ->  CIF_MISSING_DELIM, closed where detected
static bool p_missing_delim(Work &W, Env &E, Plan &P) {
    ensure_composite(W.h, E, -1, *g::chance(70));
    if (!start(W, E, P)) return false;
    std::vector<int> c;
    for (size_t j = 0; j < W.R.t.size(); j++) {
        const Tok &t = W.R.t[j]; if (t.kind != T_CLOSE) continue;
        int nk = kind_at(W.R.t, (int) j + 1);
        bool other_bracket = nk == T_CLOSE && W.R.t[j + 1].br != t.br;
        if (other_bracket || nk == T_NAME || ends_loop_or_item(nk)) c.push_back((int) j);
    }
    if (c.empty()) return false;
    int j = pick(c);
    P.toks.erase(P.toks.begin() + j);
    P.first = {CIF_MISSING_DELIM}; P.lo_tok = j - 1; P.lo_mode = 1; P.hi_tok = j;
    pos_labels(W.R, W.h, j, P, j >= (int) P.toks.size()); P.pos.push_back(W.R.t[(size_t) j].br == ']' ? "list" : "table");
    return true;
}
// table defects: an insertion point between the entries of some table
static bool table_point(Work &W, Env &E, Plan &P, int &open, int &at) {
    ensure_composite(W.h, E, 1, false);
    if (!start(W, E, P)) return false;
    std::vector<std::pair<int, int>> c;
    for (size_t o = 0; o < W.R.t.size(); o++) if (W.R.t[o].kind == T_OPEN && W.R.t[o].br == '{') {
        for (int k = (int) o + 1; k < W.R.t[o].match; k = W.R.t[(size_t) k].vend + 1) c.push_back({(int) o, k});
        c.push_back({(int) o, W.R.t[o].match});
    }
    if (c.empty()) return false;
    auto x = pick(c); open = x.first; at = x.second;
    pos_labels(W.R, W.h, open, P);
    P.pos.push_back(at == open + 1 ? (at == W.R.t[(size_t) open].match ? "empty-table" : "first-entry") : at == W.R.t[(size_t) open].match ? "after-last-entry" : "between-entries");
    return true;
}
static std::string simple_value_text(Env &E, Value &v, bool no_colon, bool no_open) {
    for (;;) {
        v = gen_scalar(E);
        std::string s; int st;
        if (!scalar_text(v, 2, (uint32_t) *g::range(0, 1 << 20), s, st)) continue;
        if (st == S_TEXT || s.find('\n') != std::string::npos) continue;
        if (no_colon && (st == S_BARE) && s.find(':') != std::string::npos) continue;
        if (no_open && (s.find('[') != std::string::npos || s.find('{') != std::string::npos)) continue;
        return s;
    }
}
// value without key  ->  CIF_MISSING_KEY, dropped
static bool p_missing_key(Work &W, Env &E, Plan &P) {
    int open, at; if (!table_point(W, E, P, open, at)) return false;
    std::vector<Tok> ins;
    if (*g::chance(25)) { if (!value_tokens(gen_composite(E, -1, 1), E, 555, C_TABLE, W.R.t[(size_t) open].depth + 1, ins)) return false; P.pos.push_back("composite-value"); }
    else { Value v; ins.push_back(raw(simple_value_text(E, v, true, false))); }
    insert_toks(P.toks, at, ins);
    P.first = {CIF_MISSING_KEY}; P.lo_tok = at; P.hi_tok = at + 1;
    return true;
}
// ":v" -- a colon and a value with no key at all  ->  CIF_NULL_KEY; "use a NULL key" (table) / nothing storable: the entry may be
// dropped or kept under some key; both accepted (entries holding the marker value are removed before comparing)
static bool p_null_key(Work &W, Env &E, Plan &P) {
    int open, at; if (!table_point(W, E, P, open, at)) return false;
    P.cn.marker = u"zqNULLKEYzq";
    int m = *g::range(0, 2);
    // the value attached to the colon (":v") or separated from it (": v").  (With the value attached the library also reports a
    // CIF_MISSING_SPACE after the accepted CIF_NULL_KEY; the property does not constrain later callbacks -- labelled only.)
    if (*g::chance(50)) { insert_toks(P.toks, at, {raw(m == 0 ? ":zqNULLKEYzq" : m == 1 ? ":'zqNULLKEYzq'" : ":\"zqNULLKEYzq\"")}); P.pos.push_back("value-attached"); }
    else insert_toks(P.toks, at, {raw(":"), raw(m == 0 ? "zqNULLKEYzq" : m == 1 ? "'zqNULLKEYzq'" : "\"zqNULLKEYzq\"")});
    P.first = {CIF_NULL_KEY}; P.lo_tok = at; P.hi_tok = at + 1;
    return true;
}
// k:v with an unquoted key  ->  CIF_UNQUOTED_KEY, accepted as key "k"
static bool p_unquoted_key(Work &W, Env &E, Plan &P) {
    int open, at; if (!table_point(W, E, P, open, at)) return false;
    ustr key = ustr(u"zk") + u16(std::to_string(*g::range(0, 99))) + *rc::gen::element<ustr>(u"", u"é", u"_x", u".y", u"α", u"K");
    Value *tv = locate(P.recovered, W.R, W.R.t[(size_t) open]);
    for (auto &e : tv->entries) if (g::nfc_key(e.first) == g::nfc_key(key)) return false;
    Value v; std::string vs = simple_value_text(E, v, false, true);
    tv->entries.push_back({key, v});
    // the value attached to the colon, or separated from it by white space / a line break (the colon then ends the unquoted token)
    if (*g::chance(60)) insert_toks(P.toks, at, {raw(u8(key) + ":" + vs)});
    else { insert_toks(P.toks, at, {raw(u8(key) + ":"), raw(vs)}); P.pos.push_back("value-separated"); }
    P.first = {CIF_UNQUOTED_KEY}; P.lo_tok = at; P.hi_tok = at + 1;
    return true;
}
// a text field as key  ->  CIF_MISQUOTED_KEY, accepted
static bool p_misquoted_key(Work &W, Env &E, Plan &P) {
    int open, at; if (!table_point(W, E, P, open, at)) return false;
    ustr key = ustr(u"zt") + u16(std::to_string(*g::range(0, 99))) + *rc::gen::element<ustr>(u"", u" b", u"\nline2", u"'\"", u"é");
    Value *tv = locate(P.recovered, W.R, W.R.t[(size_t) open]);
    for (auto &e : tv->entries) if (g::nfc_key(e.first) == g::nfc_key(key)) return false;
    Value v; std::string vs = simple_value_text(E, v, false, false);
    tv->entries.push_back({key, v});
    insert_toks(P.toks, at, {raw(";" + u8(key) + "\n;:" + vs)});
    P.first = {CIF_MISQUOTED_KEY}; P.lo_tok = at; P.hi_tok = at + 1;
    return true;
}
// bare data_ / stop_ / global_  ->  CIF_RESERVED_WORD, dropped
static bool p_reserved_word(Work &W, Env &E, Plan &P) {
    if (*g::chance(35)) ensure_composite(W.h, E, -1, false);
    if (!start(W, E, P)) return false;
    std::vector<int> at; for (auto &b : boundaries(W.R)) at.push_back(b.at);
    auto lb = loop_body_points(W.R);
    std::vector<int> le; for (size_t i = 0; i < W.R.t.size(); i++) { const Tok &t = W.R.t[i]; if ((t.ctx == C_LIST && (t.kind == T_VAL || t.kind == T_OPEN)) || (t.kind == T_CLOSE && t.br == ']')) le.push_back((int) i); }
    std::vector<int> te; for (size_t i = 0; i < W.R.t.size(); i++) { const Tok &t = W.R.t[i]; if ((t.ctx == C_TABLE && t.keylen > 0) || (t.kind == T_CLOSE && t.br == '}')) te.push_back((int) i); }
    int m = *g::range(0, 9); int a; bool inner = false;
    if (m < 2 && !lb.empty()) { a = pick(lb); inner = true; } else if (m < 4 && !le.empty()) { a = pick(le); inner = true; } else if (m < 5 && !te.empty()) { a = pick(te); inner = true; P.pos.push_back("between-entries"); }
    else if (m < 6) {   // the table says the word is dropped wherever it stands: also between a data name and its value
        std::vector<int> nv; for (size_t i = 0; i < W.R.t.size(); i++) if (W.R.t[i].kind == T_NAME) nv.push_back((int) i + 1);
        if (nv.empty()) a = pick(at); else { a = pick(nv); inner = true; P.pos.push_back("between-name-and-value"); }
    } else a = pick(at);
    const char *w = *rc::gen::element<const char *>("data_", "stop_", "global_");
    insert_toks(P.toks, a, {raw(randcase8(w, (uint32_t) *g::range(0, 127)))});
    P.first = {CIF_RESERVED_WORD}; P.lo_tok = a; P.hi_tok = a + 1;
    pos_labels(W.R, W.h, inner ? a : std::max(a - 1, 0), P, a >= (int) W.R.t.size()); P.pos.push_back(w);
    if (inner && W.R.t[(size_t) a].kind == T_CLOSE) P.pos.push_back("composite-d" + std::to_string(std::min(W.R.t[(size_t) a].depth + 1, 3)));
    return true;
}
// save frame not terminated before the next data_ header / the next save_x header (max_frame_depth = 1)  ->  CIF_NO_FRAME_TERM;
// at the end of the input  ->  CIF_EOF_IN_FRAME; terminator assumed
static bool p_unterminated_frame(Work &W, Env &E, Plan &P, int mode /*0 next block, 1 next frame, 2 EOF*/) {
    int nb = (int) W.h.blocks.size();
    if (mode == 0 && nb < 2) { Container b; b.code = ustr(u"b") + u16(std::to_string(nb)); if (*g::chance(60)) add_scalar(b, gen_scalar(E)); W.h.blocks.push_back(b); nb++; }
    int b = mode == 2 ? nb - 1 : mode == 0 ? *g::range(0, nb - 2) : *g::range(0, nb - 1);
    Container &blk = W.h.blocks[(size_t) b];
    while ((int) blk.frames.size() < (mode == 1 ? 2 : 1)) add_frame(blk, E);
    int f = *g::range(0, (int) blk.frames.size() - 1), f2 = -1;
    if (mode == 1) { do f2 = *g::range(0, (int) blk.frames.size() - 1); while (f2 == f); W.forces.push_back(Force{b, -1, {{2, f}, {2, f2}}}); }
    else W.forces.push_back(Force{b, -1, {{2, f}}});
    if (!start(W, E, P)) return false;
    int fend = -1; for (auto &c : W.R.conts) if (c.blk == b && c.frm == f) fend = c.fend;
    if (fend < 0) return false;
    int nk = kind_at(W.R.t, fend + 1);
    if ((mode == 0 && nk != T_BLOCK) || (mode == 1 && nk != T_FRAME) || (mode == 2 && nk != -1)) return false;
    P.toks.erase(P.toks.begin() + fend);
    P.first = {mode == 2 ? CIF_EOF_IN_FRAME : CIF_NO_FRAME_TERM}; P.lo_tok = fend - 1; P.lo_mode = 1; P.hi_tok = fend;
    P.pos.push_back("frame"); if (b == nb - 1) P.pos.push_back("last-block"); if (mode == 2) P.pos.push_back("before-eof");
    int pk = W.R.t[(size_t) fend - 1].kind; P.pos.push_back(pk == T_FRAME ? "empty-frame" : W.R.t[(size_t) fend - 1].ctx == C_LBODY ? "after-loop" : "after-item");
    return true;
}
// save_ outside a frame  ->  CIF_UNEXPECTED_TERM, ignored
static bool p_unexpected_term(Work &W, Env &E, Plan &P) {
    (void) E;
    if (!start(W, E, P)) return false;
    std::vector<Bnd> bs; for (auto &b : boundaries(W.R)) if (W.R.conts[(size_t) b.cont].frm < 0) bs.push_back(b);
    Bnd b = pick(bs);
    insert_toks(P.toks, b.at, {raw(randcase8("save_", (uint32_t) *g::range(0, 31)))});
    P.first = {CIF_UNEXPECTED_TERM}; P.lo_tok = b.at; P.hi_tok = b.at + 1;
    pos_labels(W.R, W.h, std::max(b.at - 1, 0), P, b.at >= (int) W.R.t.size());
    P.pos.push_back(b.prev == -1 ? "after-header" : b.prev == 0 ? "after-item" : b.prev == 1 ? "after-loop" : "after-frame");
    return true;
}
// a save frame although max_frame_depth = 0  ->  CIF_FRAME_NOT_ALLOWED, accepted (exactly one frame in the document: each frame is a defect)
static bool p_frame_not_allowed(Work &W, Env &E, Plan &P) {
    int b = *g::range(0, (int) W.h.blocks.size() - 1);
    if (W.h.blocks[(size_t) b].frames.empty()) add_frame(W.h.blocks[(size_t) b], E);
    int keep = *g::range(0, (int) W.h.blocks[(size_t) b].frames.size() - 1);
    for (size_t k = 0; k < W.h.blocks.size(); k++) { auto &fr = W.h.blocks[k].frames; if ((int) k == b) { Container f = fr[(size_t) keep]; fr = {f}; } else fr.clear(); }
    if (!start(W, E, P)) return false;
    int hdr = -1; for (auto &c : W.R.conts) if (c.frm >= 0) hdr = c.hdr;
    P.po.mfd = 0;
    P.first = {CIF_FRAME_NOT_ALLOWED}; P.lo_tok = hdr; P.hi_tok = hdr + 1;
    pos_labels(W.R, W.h, hdr, P);
    return true;
}
// a value with no data name (after a complete item, a header or a frame)  ->  CIF_UNEXPECTED_VALUE, ignored
static bool p_unexpected_value(Work &W, Env &E, Plan &P) {
    if (!start(W, E, P)) return false;
    std::vector<Bnd> bs; for (auto &b : boundaries(W.R)) if (b.prev != 1) bs.push_back(b);   // after a loop it would be one more packet value
    Bnd b = pick(bs);
    Value v = *g::chance(30) ? gen_composite(E, -1, 2) : gen_scalar(E);
    std::vector<Tok> ins; if (!value_tokens(v, E, 777, C_CONT, 0, ins)) return false;
    insert_toks(P.toks, b.at, ins);
    P.first = {CIF_UNEXPECTED_VALUE}; P.lo_tok = b.at; P.hi_tok = b.at;
    pos_labels(W.R, W.h, std::max(b.at - 1, 0), P, b.at >= (int) W.R.t.size());
    P.pos.push_back(b.prev == -1 ? "after-header" : b.prev == 0 ? "after-item" : "after-frame");
    if (v.k == Value::LIST || v.k == Value::TABLE) P.pos.push_back("composite-value");
    return true;
}

// over-length line (2049..2060 characters, terminator excluded)  ->  CIF_OVERLENGTH_LINE, content unchanged;  a line of exactly
// 2048 characters (control = true) must be silent.  Lengths are in characters (code points): the filler may hold supplementary ones.
static ustr filler(int n) {
    ustr s; int supp = *g::range(0, 3), every = supp ? std::max(1, n / (supp + 1)) : 0;
    for (int i = 0; i < n; i++) { if (supp && every && i % every == every - 1 && i + 1 < n) g::push_cp(s, 0x1D4B3); else s += (char16_t) (i % 7 == 3 ? u'v' : u'w'); }
    return s;
}
static bool p_line_length(Work &W, Env &E, Plan &P, bool control) {
    int variant = *g::range(0, 3);   // 0 comment, 1 quoted value, 2 text-field line, 3 line of a triple-quoted string
    if (variant) { if (*g::chance(30)) ensure_composite(W.h, E, -1, false); else ensure_scalar(W.h, E); }
    if (!start(W, E, P)) return false;
    int L = control ? (*g::chance(75) ? 2048 : *g::range(2040, 2047)) : *g::range(2049, 2060);
    int i;
    // (F-KEYCOL, fixed: the column counter missed the colon of every table key; lines holding keys are no longer avoided.)
    bool avoid_key = false; bool dropped = false, blanks = false;
    auto keyed_line = [&](const Tok &t) { return t.keylen > 0 && (variant == 0 ? t.s.find('\n') == std::string::npos : true); };
    if (variant == 0) {
        std::vector<int> c0; for (int k = 0; k < (int) W.R.t.size(); k++) { if (avoid_key && keyed_line(W.R.t[(size_t) k])) { dropped = true; continue; } c0.push_back(k); }
        if (dropped) count_excluded("F-KEYCOL");
        i = pick(c0);
        if (keyed_line(W.R.t[(size_t) i])) P.pos.push_back("line-has-key");
        std::string &s = P.toks[(size_t) i].s; size_t nl = s.rfind('\n');
        int have = cplen8(nl == std::string::npos ? s : s.substr(nl + 1));
        blanks = *g::chance(25);   // the line is made long by a comment, or by trailing blanks / tabs
        if (blanks) { for (int k = have; k < L; k++) s += (k % 5 == 2) ? '\t' : ' '; } else s += " #" + u8(filler(L - have - 2));
        P.lo_tok = i; P.lo_mode = 1;
    } else {
        std::vector<int> c; for (int k : scalar_tokens(W.R)) { if (avoid_key && variant != 2 && keyed_line(W.R.t[(size_t) k])) { dropped = true; continue; } c.push_back(k); }
        if (dropped) count_excluded("F-KEYCOL");
        if (c.empty()) return false;
        i = pick(c); const Tok &t = W.R.t[(size_t) i];
        int plen = cplen8(t.s.substr(0, (size_t) t.keylen));
        if (variant == 1) {
            bool dq = *g::chance(50); std::string q = dq ? "\"" : "'";
            ustr T = filler(L - plen - 2); Value nv = Value::chr(T, true);
            replace_scalar(W, P, i, nv, q + u8(T) + q, q + u8(T) + q);
            P.control_toks[(size_t) i].s = W.R.t[(size_t) i].s; *locate(P.control, W.R, t) = *locate(W.h, W.R, t);   // the control keeps the host's own value
            P.lo_tok = i;
            if (t.keylen > 0) P.pos.push_back("line-has-key");
        } else {
            int nlines = *g::range(1, 3), li = *g::range(0, nlines - 1);
            bool text = variant == 2;
            ustr T;
            for (int k = 0; k < nlines; k++) {
                if (k) T += u'\n';
                if (k != li) { T += (k % 2) ? u"ab c" : u"x"; continue; }
                int n = L;
                if (text) { if (k == 0) n -= 1; }
                else { if (k == 0) n -= 3 + plen; if (k == nlines - 1) n -= 3; }
                T += filler(n);
            }
            std::string open = text ? ";" : (*g::chance(50) ? "'''" : "\"\"\""), close = text ? "\n;" : open;
            replace_scalar(W, P, i, Value::chr(T, true), open + u8(T) + close, open + u8(T) + close);
            P.control_toks[(size_t) i].s = W.R.t[(size_t) i].s; *locate(P.control, W.R, t) = *locate(W.h, W.R, t);
            P.lo_tok = i; P.lo_add = li + ((text && t.keylen > 0) ? 1 : 0);
            if (!text && li == 0 && t.keylen > 0) P.pos.push_back("line-has-key");
        }
    }
    P.toks[(size_t) i].nl_before = P.toks[(size_t) i].nl_after = true;
    P.hi_tok = i + 1;
    if (!control) P.first = {CIF_OVERLENGTH_LINE};
    pos_labels(W.R, W.h, i, P);
    P.pos.push_back(variant == 0 ? (blanks ? "trailing-blanks" : "in-comment") : variant == 1 ? "quoted-value" : variant == 2 ? "text-field-line" : "triple-quoted-line");
    P.pos.push_back("len" + std::to_string(L));
    return true;
}
// disallowed character  ->  CIF_DISALLOWED_CHAR, accepted (whether the stored text keeps it or a replacement is not constrained)
static bool p_disallowed_char(Work &W, Env &E, Plan &P) {
    bool v1 = E.dialect != 2;
    uint32_t bad = v1 ? *rc::gen::element<uint32_t>(0xE9, 0x394, 0x4E2D, 0xA0, 0x80) : *rc::gen::element<uint32_t>(0x01, 0x7F, 0xFFFE, 0x08, 0x1F, 0x85, 0xFDD0, 0xFDEF, 0x1FFFE, 0x10FFFF);
    ustr badu; g::push_cp(badu, bad);
    bool comment = *g::chance(20);
    if (!comment) { if (!v1 && *g::chance(40)) ensure_composite(W.h, E, -1, false); else ensure_scalar(W.h, E); }
    if (!start(W, E, P)) return false;
    int i;
    if (comment) {
        i = *g::range(0, (int) W.R.t.size() - 1);
        P.toks[(size_t) i].s += " # c" + u8(badu) + "x"; P.toks[(size_t) i].nl_after = true;
        P.lo_tok = i; P.lo_mode = 1; P.pos.push_back("in-comment");
    } else {
        auto c = scalar_tokens(W.R); if (c.empty()) return false;
        i = pick(c);
        ustr pre = ustr(u"zq") + u16(std::to_string(*g::range(0, 99))) + (*g::chance(50) ? ustr(u" a") : ustr()), post = (*g::chance(50) ? ustr(u"b ") : ustr()) + u"qz";
        ustr T = pre + badu + post, Tc = pre + u"-" + post;
        int style = *g::range(0, v1 ? 3 : 5);   // sq dq text bare tsq tdq
        if (style == 3) { pre = filter_out(pre, u" "); post = filter_out(post, u" "); T = pre + badu + post; Tc = pre + u"-" + post; }
        static const char *op[] = {"'", "\"", ";", "", "'''", "\"\"\""};
        std::string o = op[style], cl = style == 2 ? "\n;" : o;
        replace_scalar(W, P, i, Value::chr(T, style != 3), o + u8(Tc) + cl, o + u8(T) + cl);
        *locate(P.control, W.R, W.R.t[(size_t) i]) = Value::chr(Tc, style != 3);   // the control holds an ordinary character in its place
        P.cn.mask = true; P.cn.pre = pre; P.cn.post = post; P.cn.full = T;
        P.lo_tok = i; P.lo_add = (style == 2 && W.R.t[(size_t) i].keylen > 0) ? 1 : 0;
        P.pos.push_back(style < 2 ? "quoted-value" : style == 2 ? "text-field" : style == 3 ? "bare-value" : "triple-quoted");
    }
    P.hi_tok = i + 1;
    P.first = {CIF_DISALLOWED_CHAR};
    if (v1) P.po.enc = 1;
    // U+0080 under CIF 1.1 breaks two rules at once (a C1 control, and not ASCII): it may be reported once per rule
    if (v1 && bad == 0x80) P.follow = {CIF_DISALLOWED_CHAR};
    char nm[24]; snprintf(nm, sizeof nm, "U+%04X", (unsigned) bad); P.pos.push_back(nm);
    pos_labels(W.R, W.h, i, P);
    return true;
}

// ---- the planting table -------------------------------------------------------------------------------------------------------
struct Row { const char *name; int weight; std::function<bool(Work &, Env &, Plan &)> plant; bool cif11; };
static const std::vector<Row> &table() {
    static const std::vector<Row> t = {
        {"missing-value", 3, p_missing_value, false},
        {"missing-value-table", 2, p_missing_value_table, false},
        {"dup-scalar", 3, p_dup_scalar, false},
        {"dup-loop-name", 3, [](Work &w, Env &e, Plan &p) { return p_dup_loop_name(w, e, p, false); }, false},
        {"dup-loop-name-same-header", 2, [](Work &w, Env &e, Plan &p) { return p_dup_loop_name(w, e, p, true); }, false},
        {"dup-block", 2, p_dup_block, false},
        {"dup-frame", 2, p_dup_frame, false},
        {"invalid-block-long", 2, [](Work &w, Env &e, Plan &p) { return p_invalid_code(w, e, p, false, true); }, false},
        {"invalid-block-char", 2, [](Work &w, Env &e, Plan &p) { return p_invalid_code(w, e, p, false, false); }, false},
        {"invalid-frame-long", 2, [](Work &w, Env &e, Plan &p) { return p_invalid_code(w, e, p, true, true); }, false},
        {"invalid-frame-char", 2, [](Work &w, Env &e, Plan &p) { return p_invalid_code(w, e, p, true, false); }, false},
        {"invalid-and-dup-block", 1, [](Work &w, Env &e, Plan &p) { return p_invalid_dup(w, e, p, false); }, false},
        {"invalid-and-dup-frame", 1, [](Work &w, Env &e, Plan &p) { return p_invalid_dup(w, e, p, true); }, false},
        {"no-block-header", 2, p_no_block_header, false},
        {"partial-packet", 3, p_partial_packet, false},
        {"null-loop", 2, p_null_loop, false},
        {"empty-loop", 2, p_empty_loop, false},
        {"missing-endquote", 3, p_missing_endquote, false},
        {"unclosed-text", 2, p_unclosed_text, false},
        {"missing-space", 4, p_missing_space, false},
        {"unexpected-delim", 2, p_unexpected_delim, false},
        {"missing-delim", 3, p_missing_delim, false},
        {"missing-key", 2, p_missing_key, false},
        {"null-key", 2, p_null_key, false},
        {"unquoted-key", 2, p_unquoted_key, false},
        {"misquoted-key", 2, p_misquoted_key, false},
        {"reserved-word", 3, p_reserved_word, false},
        {"no-frame-term-block", 2, [](Work &w, Env &e, Plan &p) { return p_unterminated_frame(w, e, p, 0); }, false},
        {"no-frame-term-nested", 2, [](Work &w, Env &e, Plan &p) { return p_unterminated_frame(w, e, p, 1); }, false},
        {"eof-in-frame", 2, [](Work &w, Env &e, Plan &p) { return p_unterminated_frame(w, e, p, 2); }, false},
        {"unexpected-term", 2, p_unexpected_term, false},
        {"frame-not-allowed", 2, p_frame_not_allowed, false},
        {"unexpected-value", 3, p_unexpected_value, false},
        {"overlength-line", 3, [](Work &w, Env &e, Plan &p) { return p_line_length(w, e, p, false); }, false},
        {"control-2048", 2, [](Work &w, Env &e, Plan &p) { return p_line_length(w, e, p, true); }, false},
        {"disallowed-char", 3, p_disallowed_char, false},
        {"disallowed-char-cif11", 2, p_disallowed_char, true},
    };
    return t;
}

static bool make_case(const Row &row, const Doc &host, Env &E, CaseFile &c) {
    Work W; W.h = host; fix_host(W.h, E.dialect);
    Plan P; P.cls = row.name; P.dialect = E.dialect;
    bool want_nl = *g::chance(70);   // the input may also end right after its last token
    if (!row.plant(W, E, P)) return false;
    if (P.final_nl) P.final_nl = want_nl;
    if (!P.final_nl && P.cls == "overlength-line" && P.lo_tok == (int) P.toks.size() - 1) {
        // (F-LASTLINE-LEN, fixed: an over-long last line that is not terminated was never measured.)
        P.pos.push_back("unterminated-last-line");
    }
    if (!P.final_nl && std::find(P.pos.begin(), P.pos.end(), "before-eof") != P.pos.end()) P.pos.push_back("no-final-eol");
    uint32_t sepseed = mix(E.seed, 4242);
    Built pb = build(P.toks, sepseed, P.final_nl), cb = build(P.control_toks, sepseed, true);
    int n = (int) P.toks.size();
    if (P.lo_tok < 0 || P.lo_tok >= n) return false;
    long lo = (P.lo_mode ? pb.el : pb.sl)[(size_t) P.lo_tok] + P.lo_add;
    long hi = P.hi_tok >= n ? pb.eof_line : pb.el[(size_t) P.hi_tok];
    c.set("cls", P.cls);
    { std::string ps; std::vector<std::string> seen; for (auto &p : P.pos) if (std::find(seen.begin(), seen.end(), p) == seen.end()) { seen.push_back(p); ps += p + " "; } c.set("pos", ps); }
    c.set("bytes", pb.bytes); c.set("code", ints_str(P.first)); c.set("follow", ints_str(P.follow)); if (P.must) c.seti("must", P.must);
    c.seti("lo", lo); c.seti("hi", std::max(lo, hi));
    c.set("expected", cm::ser(P.recovered)); if (P.has_alt) c.set("expected2", cm::ser(P.alt));
    if (P.cn.mask) { c.set("mask_pre", ser_u16(P.cn.pre)); c.set("mask_post", ser_u16(P.cn.post)); c.set("mask_full", ser_u16(P.cn.full)); }
    if (!P.cn.marker.empty()) c.set("drop_marker", ser_u16(P.cn.marker));
    c.seti("mfd", P.po.mfd); c.seti("enc", P.po.enc);
    c.set("control", cb.bytes); c.set("control_expected", cm::ser(P.control));
    return true;
}

int main(int argc, char **argv) {
    Engine e;
    e.name = "C12_defects";
    e.run = []() {
        { cif_tp *w = nullptr; if (cif_create(&w) == CIF_OK) (void) cif_destroy(w); }
        return rc::check("C12 every class of input defect is reported with its code and recovered as documented", []() {
            const auto &tb = table();
            // development aid only (never set by vcheck): C12_ONLY=<class>[,<class>...] restricts the planting table
            static const std::string only = getenv("C12_ONLY") ? std::string(",") + getenv("C12_ONLY") + "," : std::string();
            auto enabled = [&](const Row &r) { return only.empty() || only.find(std::string(",") + r.name + ",") != std::string::npos; };
            int total = 0; for (auto &r : tb) if (enabled(r)) total += r.weight;
            RC_PRE(total > 0);
            int ticket = *g::range(0, total - 1); size_t ri = 0;
            for (;; ri++) { if (!enabled(tb[ri])) continue; if (ticket < tb[ri].weight) break; ticket -= tb[ri].weight; }
            const Row &row = tb[ri];
            Env E; E.dialect = row.cif11 ? 1 : 2; E.seed = (uint32_t) *g::range(0, 0x3fffffff);
            g::DocOpts o; o.dialect = row.cif11 ? cp::CIF11 : cp::CIF2; o.max_blocks = 3; o.max_items = 4; o.max_loops = 2; o.max_cols = 3; o.max_rows = 3; o.max_frames = 2; o.frame_depth = 1;
            o.vo.prof = row.cif11 ? g::P_CIF11 : g::P_CIF2; o.vo.numb_kind = false; o.vo.maxlen = 10; o.vo.maxdepth = 3; o.vo.maxmembers = 3; o.vo.composites = !row.cif11;
            E.vo = o.vo;
            Doc host = *g::doc(o);
            CaseFile c;
            if (!make_case(row, host, E, c)) { count_excluded(std::string("not-plantable:") + row.name); RC_DISCARD("not plantable"); }
            VH_BEGIN(c);
            bool nt = false; { std::istringstream in(c.get("pos")); std::string p; while (in >> p) if (p == "frame" || p == "loop-header" || p == "loop-body" || p == "middle-item" || p == "last-item" || p.compare(0, 11, "composite-d") == 0) nt = true; }
            if (nt) nontrivial(fnv(c.get("bytes")));
            if (c.get("bytes").size() < 260) sample("[" + c.get("cls") + "] " + c.get("bytes"));
            std::string m = run_case(c);
            if (!m.empty()) { record_fail(c, m); RC_FAIL(m); }
        });
    };
    e.replay = run_case;
    e.classify = [](const CaseFile &c) {
        const std::string cls = c.get("cls"), pos = " " + c.get("pos");
        return std::string();
    };
    return engine_main(argc, argv, e);
}
