// C09: block codes, frame codes, data names (case-folded normalised equivalence) and table keys (canonical equivalence
// only) are matched as documented; cif_normalize is idempotent and agrees with an independent pipeline; names / codes /
// keys are accepted exactly when valid.
//
// One engine, five case "modes" (all serialisable, all replayable through run_case):
//   norm    cif_normalize on a base string, a variant and a near miss (+ srclen prefix)
//   lookup  block / frame / scalar item / loop item / packet item created under A, probed under two other spellings
//   keys    table keys created under A, probed under two other spellings (criterion: NFC equality)
//   valid   one arbitrary string offered to every creating function; accept/reject compared with the statement's rules
//   sweep   a range of code points: validity of "_a<cp>b", "_ab<cp>", key "<cp>"; normalisation of cased/decomposable cps
// The expectations of every probe are computed inside run_case from the independent oracle (cm::norm_name / cm::nfc and a
// second, hand-written NFD + per-character folding), never taken on trust from the generator.
#include "../common/gens.hpp"
#include <algorithm>
#include <cstring>
#include <iostream>
#include <memory>
#include <unicode/uchar.h>
#include <unicode/unorm2.h>
#include <unicode/ustring.h>
#include <rapidcheck/detail/Configuration.h>
using namespace vh;
typedef std::vector<uint32_t> CPS;
// Memory bound.  ASan records the allocation stack of every malloc in its stack depot.  Below this engine's own frames lie
// librapidcheck / ICU frames compiled without frame pointers, so deep contexts pick up ever-new garbage frames and the depot grows
// without bound (per 8000 cases of sub-check 1: +4 MB at malloc_context_size=6, +10 MB at 8, +45 MB at 10, ~+550 MB at 30).
// The driver sets malloc_context_size=6 in ASAN_OPTIONS; this is only the matching default for runs by hand.
extern "C" const char *__asan_default_options() { return "malloc_context_size=6:quarantine_size_mb=32"; }

// ------------------------------------------------------------------------------------------------ small helpers
static CPS to_cps(const ustr &s) {   // lenient: an unpaired surrogate is delivered as itself
    CPS o;
    for (size_t i = 0; i < s.size(); i++) {
        uint32_t c = s[i];
        if (c >= 0xD800 && c <= 0xDBFF && i + 1 < s.size() && s[i + 1] >= 0xDC00 && s[i + 1] <= 0xDFFF) { c = 0x10000 + ((c - 0xD800) << 10) + (s[i + 1] - 0xDC00); i++; }
        o.push_back(c);
    }
    return o;
}
static ustr from_cps(const CPS &v) { return g::from_cps(v); }
static ustr cp_str(uint32_t c) { ustr s; g::push_cp(s, c); return s; }
static bool is_surr(uint32_t c) { return c >= 0xD800 && c <= 0xDFFF; }
static bool is_c1(uint32_t c) { return c >= 0x80 && c <= 0x9F; }
static bool is_nonchar(uint32_t c) { return (c >= 0xFDD0 && c <= 0xFDEF) || (c & 0xFFFE) == 0xFFFE; }
static bool has_c1(const ustr &s) { for (char16_t c : s) if (is_c1(c)) return true; return false; }
static int ccc(uint32_t c) { return is_surr(c) ? 0 : (int) u_getCombiningClass((UChar32) c); }
static int count_marks(const ustr &s) { int n = 0; for (uint32_t c : to_cps(s)) if (ccc(c) != 0) n++; return n; }
static std::string show(const ustr &s) { ustr t = s.size() > 40 ? s.substr(0, 40) : s; return "\"" + uesc(t) + (s.size() > 40 ? "\"...(" + std::to_string(s.size()) + " units)" : "\""); }
static std::string rcname(int rc) { return cm::code_name(rc); }

// ------------------------------------------------------------------------------------------------ validity, from the statement
// V_ANY: the statement does not decide (U+FEFF, which CIF 2.0 bars from names but the statement does not list; codes of
// 2044..2048 code points, where "within the line limit" can be read with or without the data_/save_ prefix)
enum Verdict { V_OK = 0, V_BAD = 1, V_ANY = 2 };
static Verdict chars_verdict(const ustr &s, bool key, int *ncp = nullptr) {
    bool any = false; int n = 0;
    for (size_t i = 0; i < s.size(); i++) {
        uint32_t c = s[i];
        if (c >= 0xD800 && c <= 0xDBFF) {
            if (i + 1 < s.size() && s[i + 1] >= 0xDC00 && s[i + 1] <= 0xDFFF) { c = 0x10000 + ((c - 0xD800) << 10) + (s[i + 1] - 0xDC00); i++; }
            else return V_BAD;                                   // unpaired high surrogate
        } else if (c >= 0xDC00 && c <= 0xDFFF) return V_BAD;     // unpaired low surrogate
        n++;
        if (c < 0x20) { if (key && (c == 9 || c == 10 || c == 13)) continue; return V_BAD; }   // C0 control / whitespace
        if (c == 0x20) { if (key) continue; return V_BAD; }
        if (c == 0x7F || is_c1(c)) return V_BAD;                 // DEL and the C1 controls
        if (is_nonchar(c)) return V_BAD;
        if (c == 0xFEFF) any = true;
    }
    if (ncp) *ncp = n;
    return any ? V_ANY : V_OK;
}
static Verdict name_verdict(const ustr &s) {
    if (s.size() < 2 || s[0] != u'_') return V_BAD;
    int n = 0; Verdict v = chars_verdict(s, false, &n);
    if (v == V_BAD || n > 2048) return V_BAD;
    return v;
}
static Verdict code_verdict(const ustr &s) {
    if (s.empty()) return V_BAD;
    int n = 0; Verdict v = chars_verdict(s, false, &n);
    if (v == V_BAD || n > 2048) return V_BAD;
    if (n > 2043) return V_ANY;
    return v;
}
static Verdict key_verdict(const ustr &s) { return chars_verdict(s, true); }
static int cplen(const ustr &s) { int n = 0; for (char16_t c : s) if (!(c >= 0xDC00 && c <= 0xDFFF)) n++; return n; }
// Fixed finding F-NORMLEN (regression witness replay/C09/fixed-F-NORMLEN.case): cif_container_set_value() refused a valid new name whose
// *normalised* form is longer than 2048 code points when it had to start the container's scalar loop.  Label only.
static bool normlen_class(const ustr &name) { return name_verdict(name) != V_BAD && cplen(cm::norm_name(name)) > 2048; }
static const char *vname(Verdict v) { return v == V_OK ? "valid" : v == V_BAD ? "invalid" : "unconstrained"; }
// "" when rc is what the verdict allows
static std::string expect_v(int rc, Verdict v, int badcode, const std::string &what) {
    bool ok = v == V_OK ? rc == CIF_OK : v == V_BAD ? rc == badcode : (rc == CIF_OK || rc == badcode);
    if (ok) return "";
    return what + " returned " + rcname(rc) + " but the string is " + vname(v) + " (expected " + (v == V_BAD ? rcname(badcode) : std::string("CIF_OK")) + ")";
}

// ------------------------------------------------------------------------------------------------ second oracle: own NFD and folding
static const UNormalizer2 *nfc_inst() { static const UNormalizer2 *n = nullptr; if (!n) { UErrorCode ec = U_ZERO_ERROR; n = unorm2_getNFCInstance(&ec); } return n; }
static void own_decomp(uint32_t c, CPS &out, int depth = 0) {
    if (is_surr(c) || depth > 8) { out.push_back(c); return; }
    UChar buf[8]; UErrorCode ec = U_ZERO_ERROR;
    int32_t n = unorm2_getRawDecomposition(nfc_inst(), (UChar32) c, buf, 8, &ec);
    if (U_FAILURE(ec) || n < 0) { out.push_back(c); return; }
    for (int32_t i = 0; i < n;) { UChar32 d; U16_NEXT(buf, i, n, d); own_decomp((uint32_t) d, out, depth + 1); }
}
static CPS own_nfd(const CPS &in) {
    CPS out;
    for (uint32_t c : in) own_decomp(c, out);
    size_t i = 0;
    while (i < out.size()) {   // canonical ordering: stable sort of every maximal run of non-starters by combining class
        if (ccc(out[i]) == 0) { i++; continue; }
        size_t j = i; while (j < out.size() && ccc(out[j]) != 0) j++;
        std::stable_sort(out.begin() + (long) i, out.begin() + (long) j, [](uint32_t a, uint32_t b) { return ccc(a) < ccc(b); });
        i = j;
    }
    return out;
}
static CPS own_fold(const CPS &in) {   // full case folding is context free: fold code point by code point
    CPS out;
    for (uint32_t c : in) {
        if (is_surr(c)) { out.push_back(c); continue; }
        ustr one = cp_str(c); UChar dst[16]; UErrorCode ec = U_ZERO_ERROR;
        int32_t n = u_strFoldCase(dst, 16, (const UChar *) one.data(), (int32_t) one.size(), U_FOLD_CASE_DEFAULT, &ec);
        if (U_FAILURE(ec)) { out.push_back(c); continue; }
        for (uint32_t d : to_cps(ustr((const char16_t *) dst, (size_t) n))) out.push_back(d);
    }
    return out;
}
static bool is_nfc(const ustr &s) { UErrorCode ec = U_ZERO_ERROR; return unorm2_isNormalized(nfc_inst(), (const UChar *) s.data(), (int32_t) s.size(), &ec) && U_SUCCESS(ec); }

// the library under test: cif_normalize on exactly `len` units held in an exact-size heap array (no terminator unless asked),
// so that reading past srclen is an ASan report
static std::string lib_norm(const ustr &x, bool use_srclen, ustr &out) {
    size_t n = x.size() + (use_srclen ? 0 : 1);
    std::unique_ptr<UChar[]> buf(new UChar[n ? n : 1]);
    if (!x.empty()) memcpy(buf.get(), x.data(), x.size() * sizeof(UChar));
    if (!use_srclen) buf[x.size()] = 0;
    UChar *r = nullptr;
    int rc = cif_normalize(buf.get(), use_srclen ? (int32_t) x.size() : -1, &r);
    if (rc != CIF_OK) return "cif_normalize(" + show(x) + (use_srclen ? ", srclen" : ", -1") + ") returned " + rcname(rc);
    if (!r) return "cif_normalize returned CIF_OK but no result";
    out = cm::take(r);   // reads up to the terminator: an unterminated result is an ASan heap over-read
    return "";
}
// all single-string clauses of sub-property (1)
static std::string norm_checks(const ustr &x) {
    ustr r, r2; std::string m;
    if (!(m = lib_norm(x, false, r)).empty()) return m;
    ustr want = cm::norm_name(x);
    if (r != want) return "cif_normalize(" + show(x) + ") = " + show(r) + " but the independent NFD/fold/NFC pipeline gives " + show(want);
    if (r.find(u'\0') != ustr::npos) return "result has an embedded NUL";
    if (!is_nfc(r)) return "cif_normalize(" + show(x) + ") = " + show(r) + " is not in NFC";
    CPS mine = own_nfd(own_fold(own_nfd(to_cps(x)))), theirs = own_nfd(to_cps(r));
    if (mine != theirs) return "cif_normalize(" + show(x) + ") = " + show(r) + " is not canonically equivalent to fold(NFD(x)) = " + show(from_cps(mine)) + " (hand-written decomposition/reordering oracle)";
    if (!(m = lib_norm(r, false, r2)).empty()) return m;
    if (r2 != r) return "cif_normalize is not idempotent on " + show(x) + ": once " + show(r) + ", twice " + show(r2);
    if (!(m = lib_norm(x, true, r2)).empty()) return m;
    if (r2 != r) return "cif_normalize(" + show(x) + ") with srclen = length (no terminator) gives " + show(r2) + ", with -1 " + show(r);
    int rc = cif_normalize((const UChar *) x.c_str(), -1, nullptr);
    if (rc != CIF_OK) return "cif_normalize(x, -1, NULL) returned " + rcname(rc);
    return "";
}

#define CK(call) do { int rc_ = (call); if (rc_ != CIF_OK) { msg = std::string(#call) + " returned " + rcname(rc_); goto done; } } while (0)
#define U(s) ((const UChar *) (s).c_str())
#define WANT(rcv, exp, what) do { int r_ = (rcv), e_ = (exp); if (r_ != e_) { msg = std::string(what) + " returned " + rcname(r_) + ", expected " + rcname(e_); goto done; } } while (0)

// ------------------------------------------------------------------------------------------------ mode norm
static std::string run_norm(const CaseFile &c) {
    ustr a = deser_u16(c.get("a")), b = deser_u16(c.get("b")), n = deser_u16(c.get("n"));
    long k = c.geti("k");
    for (const ustr *s : {&a, &b, &n}) {
        // any well-formed, NUL-free text is in cif_normalize's domain
        for (size_t i = 0; i < s->size(); i++) {
            char16_t u = (*s)[i];
            if (u == 0) return "bad case file: NUL in string";
            if (u >= 0xD800 && u <= 0xDBFF) { if (i + 1 >= s->size() || (*s)[i + 1] < 0xDC00 || (*s)[i + 1] > 0xDFFF) return "bad case file: ill-formed UTF-16"; i++; }
            else if (u >= 0xDC00 && u <= 0xDFFF) return "bad case file: ill-formed UTF-16";
        }
    }
    if (k < 0 || (size_t) k > a.size() || ((size_t) k < a.size() && a[(size_t) k] >= 0xDC00 && a[(size_t) k] <= 0xDFFF)) return "bad case file: k splits a surrogate pair or is out of range";
    CaseGuard guard;
    std::string msg;
    do {
        if (!(msg = norm_checks(a)).empty()) break;
        if (!(msg = norm_checks(b)).empty()) break;
        if (!(msg = norm_checks(n)).empty()) break;
        ustr ra, rb, rn, rp;
        if (!(msg = lib_norm(a, false, ra)).empty() || !(msg = lib_norm(b, false, rb)).empty() || !(msg = lib_norm(n, false, rn)).empty()) break;
        bool eq_ab = cm::norm_name(a) == cm::norm_name(b), eq_an = cm::norm_name(a) == cm::norm_name(n);
        // the second oracle must agree with the first about equivalence, else the certification itself is in doubt
        bool eq_ab2 = own_nfd(own_fold(own_nfd(to_cps(a)))) == own_nfd(own_fold(own_nfd(to_cps(b))));
        if (eq_ab != eq_ab2) { msg = "ORACLE DISAGREEMENT on " + show(a) + " vs " + show(b); break; }
        if (eq_ab != (ra == rb)) { msg = show(a) + " and " + show(b) + (eq_ab ? " are equivalent but normalise differently: " : " are not equivalent but normalise identically: ") + show(ra) + " / " + show(rb); break; }
        if (eq_an != (ra == rn)) { msg = show(a) + " and " + show(n) + (eq_an ? " are equivalent but normalise differently: " : " are not equivalent but normalise identically: ") + show(ra) + " / " + show(rn); break; }
        label(eq_ab ? (a == b ? "norm:variant-identical" : "norm:variant-equivalent") : "norm:variant-not-equivalent");
        label(eq_an ? "norm:nearmiss-equivalent" : "norm:nearmiss-different");
        // srclen: a prefix of k units, with more text (and no terminator within reach) behind it
        ustr pre = a.substr(0, (size_t) k);
        {
            std::unique_ptr<UChar[]> buf(new UChar[a.size() ? a.size() : 1]);
            if (!a.empty()) memcpy(buf.get(), a.data(), a.size() * sizeof(UChar));
            UChar *r = nullptr; int rc = cif_normalize(buf.get(), (int32_t) k, &r);
            if (rc != CIF_OK) { msg = "cif_normalize(" + show(a) + ", " + std::to_string(k) + ") returned " + rcname(rc); break; }
            rp = cm::take(r);
        }
        if (rp != cm::norm_name(pre)) { msg = "cif_normalize(" + show(a) + ", srclen=" + std::to_string(k) + ") = " + show(rp) + ", expected the normalisation of the prefix " + show(pre) + " = " + show(cm::norm_name(pre)); break; }
        if ((size_t) k < a.size()) label("norm:proper-prefix");
    } while (0);
    if (msg.empty()) msg = guard.check();
    return msg;
}

// ------------------------------------------------------------------------------------------------ mode lookup
static const char *KIND[] = {"block", "frame", "scalar-item", "loop-item", "packet-item"};
static std::string value_text(cif_value_tp *v) {
    UChar *t = nullptr;
    if (!v || cif_value_kind(v) != CIF_CHAR_KIND || cif_value_get_text(v, &t) != CIF_OK) return "<not a char value>";
    return u8(cm::take(t));
}
// names of a loop, in the library's order; "" on success
static std::string loop_names(cif_loop_tp *loop, std::vector<ustr> &out) {
    UChar **names = nullptr; int rc = cif_loop_get_names(loop, &names);
    if (rc != CIF_OK) return "cif_loop_get_names returned " + rcname(rc);
    for (UChar **p = names; *p; p++) out.push_back(cm::take(*p));
    cm::ufree(names);
    return "";
}
static bool contains(const std::vector<ustr> &v, const ustr &s) { return std::find(v.begin(), v.end(), s) != v.end(); }

// Found here and (independently) by C19, fixed since as F-PKTKEY-UAF: an entry made by cif_packet_create() under a spelling that
// is already its own normalised form shared one allocation between the hash key and the "original" key, and
// cif_packet_set_item() under a different equivalent spelling freed it (use after free / double free).  pktalias() recognises
// that class (label only); replay/C09/fixed-F-PKTKEY-UAF.case is the regression witness.
static bool pktalias(const ustr &created, std::initializer_list<const ustr *> setters) {
    if (cm::norm_name(created) != created) return false;
    for (const ustr *s : setters) if (*s != created && cm::norm_name(*s) == created) return true;
    return false;
}
static int make_packet(cif_packet_tp **pkt, const std::vector<ustr> &names) {
    std::vector<UChar *> arr; for (auto &n : names) arr.push_back((UChar *) U(n)); arr.push_back(nullptr);
    return cif_packet_create(pkt, arr.data());
}

static std::string run_lookup(const CaseFile &c) {
    int kind = (int) c.geti("kind");
    if (kind < 0 || kind > 4) return "bad case file (kind)";
    ustr a = deser_u16(c.get("a")), pr[2] = {deser_u16(c.get("b")), deser_u16(c.get("n"))};
    bool item = kind >= 2;
    for (const ustr *s : {&a, &pr[0], &pr[1]}) {
        Verdict v = item ? name_verdict(*s) : code_verdict(*s);
        if (v != V_OK) return "bad case file: lookup strings must be valid";
        if ((*s)[0] == 0xFEFF) return "bad case file: leading U+FEFF";
    }
    label(std::string("lookup:") + KIND[kind]);
    if (item && (normlen_class(a) || normlen_class(pr[0]) || normlen_class(pr[1]))) label(std::string("lookup:name-with-normalised-form>2048:") + KIND[kind]);
    ustr na = cm::norm_name(a);
    for (int i = 0; i < 2; i++) {
        bool eq = cm::norm_name(pr[i]) == na;
        label(std::string(i == 0 ? "lookup:variant-" : "lookup:nearmiss-") + (eq ? (pr[i] == a ? "identical" : "hit") : "miss"));
    }
    // a second name that is certainly distinct from a and both probes
    ustr second = u"_c09.second";
    for (int t = 0; t < 4; t++) { bool clash = cm::norm_name(second) == na || cm::norm_name(second) == cm::norm_name(pr[0]) || cm::norm_name(second) == cm::norm_name(pr[1]); if (!clash) break; second += u'2'; }

    CaseGuard guard;
    std::string msg;
    std::map<ustr, ustr> model;   // normalised -> spelling it was created under
    cif_tp *cif = nullptr; cif_block_tp *blk = nullptr; cif_container_tp *h = nullptr; cif_loop_tp *loop = nullptr, *l2 = nullptr;
    cif_packet_tp *pkt = nullptr; cif_value_tp *v1 = nullptr, *v2 = nullptr, *got = nullptr;
    CK(cif_value_create(CIF_UNK_KIND, &v1)); CK(cif_value_copy_char(v1, u"va"));
    CK(cif_value_create(CIF_UNK_KIND, &v2)); CK(cif_value_copy_char(v2, u"vb"));
    if (kind != 4) { CK(cif_create(&cif)); CK(cif_create_block(cif, u"c09", &blk)); }

    if (kind == 0 || kind == 1) {
        const int NOSUCH = kind == 0 ? CIF_NOSUCH_BLOCK : CIF_NOSUCH_FRAME, DUP = kind == 0 ? CIF_DUP_BLOCKCODE : CIF_DUP_FRAMECODE;
        auto create = [&](const ustr &code, cif_container_tp **out) { return kind == 0 ? cif_create_block(cif, U(code), out) : cif_container_create_frame(blk, U(code), out); };
        auto lookup = [&](const ustr &code, cif_container_tp **out) { return kind == 0 ? cif_get_block(cif, U(code), out) : cif_container_get_frame(blk, U(code), out); };
        auto code_of = [&](cif_container_tp *cont, ustr &out) { UChar *t = nullptr; int rc = cif_container_get_code(cont, &t); if (rc == CIF_OK) out = cm::take(t); return rc; };
        if (kind == 0) model[cm::norm_name(u"c09")] = u"c09";
        { bool dup = model.count(na) != 0; int rc = create(a, &h); WANT(rc, dup ? DUP : CIF_OK, "creating under A");
          if (rc == CIF_OK) { ustr code; CK(code_of(h, code)); if (code != a) { msg = "code of the new container is " + show(code) + ", created as " + show(a); goto done; } cif_container_free(h); h = nullptr; model[na] = a; } }
        for (int pass = 0; pass < 2; pass++) {         // pass 0: look up; pass 1: try to create a duplicate, then look up again
            for (int i = 0; i < 2; i++) {
                ustr np = cm::norm_name(pr[i]); bool hit = model.count(np) != 0;
                if (pass == 1) {
                    int rc = create(pr[i], &h);
                    WANT(rc, hit ? DUP : CIF_OK, std::string("creating a ") + KIND[kind] + " under " + show(pr[i]) + " while " + (hit ? show(model[np]) + " exists" : "no equivalent code exists"));
                    if (rc == CIF_OK) { model[np] = pr[i]; hit = true; cif_container_free(h); h = nullptr; }
                }
                int rc = lookup(pr[i], &h);
                WANT(rc, hit ? CIF_OK : NOSUCH, std::string("looking up ") + KIND[kind] + " " + show(pr[i]) + " (" + (hit ? "equivalent to existing " + show(model[np]) : "equivalent to nothing present") + ")");
                if (rc == CIF_OK) {
                    ustr code; CK(code_of(h, code));
                    if (code != model[np]) { msg = "container found under " + show(pr[i]) + " reports code " + show(code) + ", created as " + show(model[np]); goto done; }
                    cif_container_free(h); h = nullptr;
                }
                WANT(lookup(pr[i], nullptr), hit ? CIF_OK : NOSUCH, "lookup with a NULL handle pointer");
            }
        }
        // number of containers = number of equivalence classes created
        { cif_container_tp **all = nullptr; size_t cnt = 0;
          CK(kind == 0 ? cif_get_all_blocks(cif, &all) : cif_container_get_all_frames(blk, &all));
          for (cif_container_tp **p = all; *p; p++) { cnt++; cif_container_free(*p); }
          cm::ufree(all);
          if (cnt != model.size()) { msg = "container count " + std::to_string(cnt) + ", expected " + std::to_string(model.size()); goto done; } }
    } else if (kind == 2 || kind == 3) {
        const int PRESENT = kind == 2 ? CIF_OK : CIF_AMBIGUOUS_ITEM;   // looped items get two packets
        if (kind == 2) CK(cif_container_set_value(blk, U(a), v1));
        else {
            UChar *names[] = {(UChar *) U(a), (UChar *) U(second), nullptr};
            CK(cif_container_create_loop(blk, u"cat", names, &loop));
            // the packet names the item by the first probe that is equivalent to A (else by A itself)
            ustr pn = cm::norm_name(pr[0]) == na ? pr[0] : cm::norm_name(pr[1]) == na ? pr[1] : a;
            if (pktalias(pn, {&a})) label("lookup:packet-respelled-normalised-name");
            CK((make_packet(&pkt, {pn})));
            CK(cif_packet_set_item(pkt, U(a), v1));
            { const UChar **kn = nullptr; size_t cnt = 0; CK(cif_packet_get_names(pkt, &kn)); for (const UChar **p = kn; *p; p++) cnt++; cm::ufree(kn);
              if (cnt != 1) { msg = "packet created for " + show(pn) + " holds " + std::to_string(cnt) + " items after set_item under the equivalent " + show(a); goto done; } }
            WANT(cif_loop_add_packet(loop, pkt), CIF_OK, "cif_loop_add_packet (packet names the item " + show(pn) + ", loop created with the equivalent " + show(a) + ")");
            WANT(cif_loop_add_packet(loop, pkt), CIF_OK, "second cif_loop_add_packet");
            cif_packet_free(pkt); pkt = nullptr; cif_loop_free(loop); loop = nullptr;
        }
        model[na] = a;
        // --- look up under every probe
        for (int i = 0; i < 2; i++) {
            ustr np = cm::norm_name(pr[i]); bool hit = model.count(np) != 0;
            std::string why = " " + show(pr[i]) + (hit ? " (equivalent to existing " + show(model[np]) + ")" : " (equivalent to nothing present)");
            int rc = cif_container_get_value(blk, U(pr[i]), &got);
            WANT(rc, hit ? PRESENT : CIF_NOSUCH_ITEM, "cif_container_get_value" + why);
            if (hit && value_text(got) != "va") { msg = "value found under" + why + " is " + value_text(got) + ", stored va"; goto done; }
            cif_value_free(got); got = nullptr;
            WANT(cif_container_get_value(blk, U(pr[i]), nullptr), hit ? PRESENT : CIF_NOSUCH_ITEM, "cif_container_get_value(NULL)" + why);
            rc = cif_container_get_item_loop(blk, U(pr[i]), &l2);
            WANT(rc, hit ? CIF_OK : CIF_NOSUCH_ITEM, "cif_container_get_item_loop" + why);
            if (rc == CIF_OK) {
                std::vector<ustr> nm; if (!(msg = loop_names(l2, nm)).empty()) goto done;
                if (!contains(nm, model[np])) { msg = "loop found under" + why + " does not list the creation spelling " + show(model[np]) + " (first name: " + (nm.empty() ? "<none>" : show(nm[0])) + ")"; goto done; }
                if (nm.size() != (kind == 2 ? 1u : 2u)) { msg = "loop lists " + std::to_string(nm.size()) + " names"; goto done; }
                cif_loop_free(l2); l2 = nullptr;
            }
        }
        // --- duplicate creation through cif_container_create_loop (a miss creates a zero-packet loop, removed again)
        for (int i = 0; i < 2; i++) {
            ustr np = cm::norm_name(pr[i]); bool hit = model.count(np) != 0;
            UChar *names[] = {(UChar *) U(pr[i]), nullptr};
            int rc = cif_container_create_loop(blk, u"cat2", names, &l2);
            WANT(rc, hit ? CIF_DUP_ITEMNAME : CIF_OK, "cif_container_create_loop with " + show(pr[i]) + (hit ? " while " + show(model[np]) + " exists" : " (no equivalent item)"));
            if (rc == CIF_OK) {
                cif_loop_free(l2); l2 = nullptr;
                WANT(cif_container_get_item_loop(blk, U(pr[i]), nullptr), CIF_OK, "get_item_loop of the item just created");
                WANT(cif_container_get_value(blk, U(pr[i]), nullptr), CIF_NOSUCH_ITEM, "get_value of an item in a zero-packet loop");
                WANT(cif_container_remove_item(blk, U(pr[i])), CIF_OK, "remove_item of the item just created");
            }
        }
        // --- duplicate creation through cif_loop_add_item (a miss adds the item; it stays)
        CK(cif_container_get_item_loop(blk, U(a), &loop));
        for (int i = 0; i < 2; i++) {
            ustr np = cm::norm_name(pr[i]); bool hit = model.count(np) != 0;
            int rc = cif_loop_add_item(loop, U(pr[i]), v1);
            WANT(rc, hit ? CIF_DUP_ITEMNAME : CIF_OK, "cif_loop_add_item with " + show(pr[i]) + (hit ? " while " + show(model[np]) + " exists" : " (no equivalent item)"));
            if (rc == CIF_OK) { model[np] = pr[i]; WANT(cif_container_get_value(blk, U(pr[i]), nullptr), PRESENT, "get_value of the added item"); }
        }
        { std::vector<ustr> nm; if (!(msg = loop_names(loop, nm)).empty()) goto done;
          for (auto &e : model) if (!contains(nm, e.second)) { msg = "loop names do not list the creation spelling " + show(e.second); goto done; }
          if (nm.size() != model.size() + (kind == 3 ? 1 : 0)) { msg = "loop lists " + std::to_string(nm.size()) + " names, expected " + std::to_string(model.size() + (kind == 3 ? 1 : 0)); goto done; } }
        cif_loop_free(loop); loop = nullptr;
        // --- set under a probe: updates the existing item (all are present by now or are created as scalars)
        for (int i = 0; i < 2; i++) {
            ustr np = cm::norm_name(pr[i]); bool hit = model.count(np) != 0;
            WANT(cif_container_set_value(blk, U(pr[i]), v2), CIF_OK, "cif_container_set_value under " + show(pr[i]));
            if (!hit) model[np] = pr[i];
            int rc = cif_container_get_value(blk, U(model[np]), &got);
            if (rc != CIF_OK && rc != CIF_AMBIGUOUS_ITEM) { msg = "get_value under the creation spelling " + show(model[np]) + " after set_value under " + show(pr[i]) + " returned " + rcname(rc); goto done; }
            if (value_text(got) != "vb") { msg = "set_value under " + show(pr[i]) + " did not update the item created as " + show(model[np]) + ": value is " + value_text(got); goto done; }
            cif_value_free(got); got = nullptr;
        }
        // --- remove under a probe
        for (int i = 0; i < 2; i++) {
            ustr np = cm::norm_name(pr[i]); bool hit = model.count(np) != 0;
            ustr created = hit ? model[np] : ustr();
            WANT(cif_container_remove_item(blk, U(pr[i])), hit ? CIF_OK : CIF_NOSUCH_ITEM, "cif_container_remove_item under " + show(pr[i]) + (hit ? " (equivalent to existing " + show(created) + ")" : " (already removed / never present)"));
            if (hit) {
                model.erase(np);
                WANT(cif_container_get_value(blk, U(created), nullptr), CIF_NOSUCH_ITEM, "get_value under the creation spelling after removal");
                WANT(cif_container_get_item_loop(blk, U(pr[i]), nullptr), CIF_NOSUCH_ITEM, "get_item_loop after removal");
            }
        }
    } else {   // kind 4: packet items, no database
        if (pktalias(a, {&pr[0], &pr[1]})) label("lookup:packet-respelled-normalised-name");
        CK((make_packet(&pkt, {a, second})));
        model[na] = a; model[cm::norm_name(second)] = second;
        { const UChar **kn = nullptr; std::vector<ustr> nm; CK(cif_packet_get_names(pkt, &kn)); for (const UChar **p = kn; *p; p++) nm.push_back(ustr((const char16_t *) *p)); cm::ufree(kn);
          if (nm.size() != 2 || nm[0] != a || nm[1] != second) { msg = "cif_packet_get_names after cif_packet_create([" + show(a) + ", " + show(second) + "]) lists " + std::to_string(nm.size()) + " names, first " + (nm.empty() ? "<none>" : show(nm[0])); goto done; } }
        CK(cif_packet_set_item(pkt, U(a), v1));
        for (int pass = 0; pass < 3; pass++) {   // 0: get, 1: set (then get), 2: remove (then get)
            for (int i = 0; i < 2; i++) {
                ustr np = cm::norm_name(pr[i]); bool hit = model.count(np) != 0;
                std::string why = " " + show(pr[i]) + (hit ? " (equivalent to present " + show(model[np]) + ")" : " (equivalent to nothing present)");
                if (pass == 1) { WANT(cif_packet_set_item(pkt, U(pr[i]), v2), CIF_OK, "cif_packet_set_item" + why); if (!hit) model[np] = pr[i]; hit = true; }
                if (pass == 2) { WANT(cif_packet_remove_item(pkt, U(pr[i]), nullptr), hit ? CIF_OK : CIF_NOSUCH_ITEM, "cif_packet_remove_item" + why); model.erase(np); hit = false; }
                cif_value_tp *inner = nullptr;
                WANT(cif_packet_get_item(pkt, U(pr[i]), &inner), hit ? CIF_OK : CIF_NOSUCH_ITEM, "cif_packet_get_item" + why);
                if (hit && value_text(inner) != (pass == 0 ? "va" : "vb")) { msg = "packet item found under" + why + " has value " + value_text(inner); goto done; }
                const UChar **kn = nullptr; size_t cnt = 0; CK(cif_packet_get_names(pkt, &kn)); for (const UChar **p = kn; *p; p++) cnt++; cm::ufree(kn);
                if (cnt != model.size()) { msg = "packet holds " + std::to_string(cnt) + " items, expected " + std::to_string(model.size()) + " after pass " + std::to_string(pass) + why; goto done; }
            }
        }
    }
done:
    cif_packet_free(pkt); cif_value_free(v1); cif_value_free(v2); cif_value_free(got);
    if (loop) cif_loop_free(loop);
    if (l2) cif_loop_free(l2);
    if (h) cif_container_free(h);
    if (blk) cif_container_free(blk);
    if (cif) { int rc = cif_destroy(cif); if (rc != CIF_OK && msg.empty()) msg = "cif_destroy returned " + rcname(rc); }
    if (msg.empty()) msg = guard.check();
    return msg;
}

// ------------------------------------------------------------------------------------------------ mode keys
static std::string keys_of(cif_value_tp *t, std::vector<ustr> &out) {
    const UChar **keys = nullptr; int rc = cif_value_get_keys(t, &keys);
    if (rc != CIF_OK) return "cif_value_get_keys returned " + rcname(rc);
    for (const UChar **p = keys; *p; p++) out.push_back(ustr((const char16_t *) *p));
    cm::ufree(keys);
    std::sort(out.begin(), out.end());
    return "";
}
static std::string keys_match(cif_value_tp *t, const std::map<ustr, ustr> &model, const std::string &when) {
    std::vector<ustr> have, want; std::string m = keys_of(t, have);
    if (!m.empty()) return m;
    for (auto &e : model) want.push_back(e.second);
    std::sort(want.begin(), want.end());
    if (have == want) return "";
    std::string s = "cif_value_get_keys " + when + " lists [";
    for (auto &k : have) s += show(k) + " ";
    s += "], expected the most recently set spellings [";
    for (auto &k : want) s += show(k) + " ";
    return s + "]";
}
static std::string run_keys(const CaseFile &c) {
    ustr a = deser_u16(c.get("a")), pr[2] = {deser_u16(c.get("b")), deser_u16(c.get("n"))};
    for (const ustr *s : {&a, &pr[0], &pr[1]}) if (key_verdict(*s) != V_OK) return "bad case file: keys must be valid";
    ustr na = cm::nfc(a);
    for (int i = 0; i < 2; i++) {
        bool eq = cm::nfc(pr[i]) == na, ceq = cm::norm_name(pr[i]) == cm::norm_name(a);
        label(std::string(i == 0 ? "keys:variant-" : "keys:nearmiss-") + (eq ? (pr[i] == a ? "identical" : "nfc-equal") : ceq ? "case-variant-only" : "different"));
    }
    if (a.empty()) label("keys:empty-key");
    CaseGuard guard;
    std::string msg;
    std::map<ustr, ustr> model;   // NFC form -> most recently set spelling
    cif_value_tp *t = nullptr, *v1 = nullptr, *v2 = nullptr, *inner = nullptr;
    CK(cif_value_create(CIF_TABLE_KIND, &t));
    CK(cif_value_create(CIF_UNK_KIND, &v1)); CK(cif_value_copy_char(v1, u"va"));
    CK(cif_value_create(CIF_UNK_KIND, &v2)); CK(cif_value_copy_char(v2, u"vb"));
    WANT(cif_value_set_item_by_key(t, U(a), v1), CIF_OK, "cif_value_set_item_by_key under " + show(a));
    model[na] = a;
    if (!(msg = keys_match(t, model, "after the first set")).empty()) goto done;
    if (c.geti("stored")) {
        // keys are matched by NFC equivalence wherever the table lives: store it in a managed CIF, read it back, go on with the copy read back
        label("keys:stored-and-read-back");
        cif_tp *kcif = nullptr; cif_block_tp *kblk = nullptr; cif_value_tp *back = nullptr;
        int r1 = cif_create(&kcif), r2 = r1 == CIF_OK ? cif_create_block(kcif, u"k", &kblk) : r1;
        int r3 = r2 == CIF_OK ? cif_container_set_value(kblk, u"_first", nullptr) : r2;          // so that _t is not the container's first scalar (another path)
        int r4 = r3 == CIF_OK ? cif_container_set_value(kblk, u"_t", t) : r3;
        int r5 = r4 == CIF_OK ? cif_container_get_value(kblk, u"_t", &back) : r4;
        if (kblk) cif_container_free(kblk);
        if (kcif) (void) cif_destroy(kcif);
        if (r5 != CIF_OK) { cif_value_free(back); msg = std::string("storing the table in a CIF and reading it back failed: ") + cm::code_name(r5); goto done; }
        cif_value_free(t); t = back;
        if (!(msg = keys_match(t, model, "after a round trip through a managed CIF")).empty()) goto done;
    }
    for (int pass = 0; pass < 4; pass++) {   // 0: get; 1: set under the probe; 2: set under A again; 3: remove under the probe
        if (pass == 2) {
            WANT(cif_value_set_item_by_key(t, U(a), v1), CIF_OK, "cif_value_set_item_by_key under A again");
            model[na] = a;
            if (!(msg = keys_match(t, model, "after setting under " + show(a) + " again")).empty()) goto done;
            continue;
        }
        for (int i = 0; i < 2; i++) {
            ustr np = cm::nfc(pr[i]); bool hit = model.count(np) != 0;
            std::string why = " " + show(pr[i]) + (hit ? " (canonically equivalent to present " + show(model[np]) + ")" : " (canonically equivalent to no key present)");
            if (pass == 1) { WANT(cif_value_set_item_by_key(t, U(pr[i]), v2), CIF_OK, "cif_value_set_item_by_key" + why); model[np] = pr[i]; hit = true; }
            if (pass == 3) {
                cif_value_tp *removed = nullptr;
                int rc = i == 0 ? cif_value_remove_item_by_key(t, U(pr[i]), &removed) : cif_value_remove_item_by_key(t, U(pr[i]), nullptr);
                cif_value_free(removed);
                WANT(rc, hit ? CIF_OK : CIF_NOSUCH_ITEM, "cif_value_remove_item_by_key" + why);
                model.erase(np); hit = false;
            }
            inner = nullptr;
            WANT(cif_value_get_item_by_key(t, U(pr[i]), &inner), hit ? CIF_OK : CIF_NOSUCH_ITEM, "cif_value_get_item_by_key" + why);
            WANT(cif_value_get_item_by_key(t, U(pr[i]), nullptr), hit ? CIF_OK : CIF_NOSUCH_ITEM, "cif_value_get_item_by_key(NULL)" + why);
            if (hit && pass == 1 && value_text(inner) != "vb") { msg = "entry found under" + why + " has value " + value_text(inner) + " after being set to vb"; goto done; }
            if (hit && pass == 0 && value_text(inner) != "va") { msg = "entry found under" + why + " has value " + value_text(inner) + ", stored va"; goto done; }
            if (!(msg = keys_match(t, model, "after pass " + std::to_string(pass) + " with" + why)).empty()) goto done;
            size_t cnt = 0; CK(cif_value_get_element_count(t, &cnt));
            if (cnt != model.size()) { msg = "table holds " + std::to_string(cnt) + " entries, expected " + std::to_string(model.size()); goto done; }
        }
    }
done:
    cif_value_free(t); cif_value_free(v1); cif_value_free(v2);
    if (msg.empty()) msg = guard.check();
    return msg;
}

// ------------------------------------------------------------------------------------------------ mode valid
static std::string run_valid(const CaseFile &c) {
    ustr s = deser_u16(c.get("s"));
    if (s.find(u'\0') != ustr::npos) return "bad case file: NUL";
    Verdict vc = code_verdict(s), vk = key_verdict(s);
    std::vector<ustr> nms{s};
    if (s.empty() || s[0] != u'_') nms.push_back(u"_" + s);
    label(std::string("valid:code-") + vname(vc)); label(std::string("valid:key-") + vname(vk));
    for (auto &nm : nms) label(std::string("valid:name-") + vname(name_verdict(nm)));
    { int n = 0; chars_verdict(s, true, &n); if (n >= 2040) label("valid:length>=2040"); }
    if (has_c1(s)) label("valid:has-C1-control");
    for (auto &nm : nms) if (normlen_class(nm)) { label("valid:name-with-normalised-form>2048"); break; }
    ustr fixed = u"_c09.fixed";
    for (auto &nm : nms) if (cm::norm_name(nm) == cm::norm_name(fixed)) fixed += u"2";

    CaseGuard guard;
    std::string msg;
    cif_tp *cif = nullptr; cif_block_tp *blk = nullptr; cif_container_tp *h = nullptr; cif_loop_tp *base = nullptr, *l2 = nullptr;
    cif_packet_tp *pkt0 = nullptr, *pkt = nullptr; cif_value_tp *t = nullptr;
    CK(cif_create(&cif)); CK(cif_create_block(cif, u"c09v", &blk));
    { UChar *names[] = {(UChar *) U(fixed), nullptr}; CK(cif_container_create_loop(blk, u"base", names, &base)); CK(cif_packet_create(&pkt0, names)); }
    CK(cif_value_create(CIF_TABLE_KIND, &t));
    // --- codes
    if (!(cm::norm_name(s) == cm::norm_name(u"c09v") && vc != V_BAD)) {
        int rc = cif_create_block(cif, U(s), &h);
        if (!(msg = expect_v(rc, vc, CIF_INVALID_BLOCKCODE, "cif_create_block(" + show(s) + ")")).empty()) goto done;
        if (rc == CIF_OK) {
            UChar *code = nullptr; CK(cif_container_get_code(h, &code)); ustr got = cm::take(code);
            if (vc == V_OK && got != s) { msg = "block created as " + show(s) + " reports code " + show(got); goto done; }
            cif_container_free(h); h = nullptr;
        }
    }
    { int rc = cif_container_create_frame(blk, U(s), &h);
      if (!(msg = expect_v(rc, vc, CIF_INVALID_FRAMECODE, "cif_container_create_frame(" + show(s) + ")")).empty()) goto done;
      if (rc == CIF_OK) { cif_container_free(h); h = nullptr; } }
    // --- data names
    for (auto &nm : nms) {
        Verdict v = name_verdict(nm); std::string q = "(" + show(nm) + ")"; int rc;
        { UChar *names[] = {(UChar *) U(nm), nullptr};
          rc = cif_container_create_loop(blk, nullptr, names, &l2);
          if (!(msg = expect_v(rc, v, CIF_INVALID_ITEMNAME, "cif_container_create_loop" + q)).empty()) goto done;
          if (rc == CIF_OK) { cif_loop_free(l2); l2 = nullptr; WANT(cif_container_remove_item(blk, U(nm)), CIF_OK, "remove_item after create_loop" + q); }
          rc = cif_packet_create(&pkt, names);
          if (!(msg = expect_v(rc, v, CIF_INVALID_ITEMNAME, "cif_packet_create" + q)).empty()) goto done;
          if (rc == CIF_OK) { cif_packet_free(pkt); } pkt = nullptr; }
        { UChar *names[] = {(UChar *) u"_c09.other", (UChar *) U(nm), nullptr};   // the offender in second position
          if (cm::norm_name(nm) != cm::norm_name(u"_c09.other")) {
              rc = cif_container_create_loop(blk, u"two", names, &l2);
              if (!(msg = expect_v(rc, v, CIF_INVALID_ITEMNAME, "cif_container_create_loop([_c09.other, " + show(nm) + "])")).empty()) goto done;
              if (rc == CIF_OK) { cif_loop_free(l2); l2 = nullptr; WANT(cif_container_remove_item(blk, U(nm)), CIF_OK, "remove_item"); WANT(cif_container_remove_item(blk, u"_c09.other"), CIF_OK, "remove_item"); }
              else (void) cif_container_remove_item(blk, u"_c09.other");   // whether a refused call leaves anything behind is C05's business
              rc = cif_packet_create(&pkt, names);
              if (!(msg = expect_v(rc, v, CIF_INVALID_ITEMNAME, "cif_packet_create([_c09.other, " + show(nm) + "])")).empty()) goto done;
              if (rc == CIF_OK) { cif_packet_free(pkt); } pkt = nullptr;
          } }
        rc = cif_container_set_value(blk, U(nm), nullptr);
        if (!(msg = expect_v(rc, v, CIF_INVALID_ITEMNAME, "cif_container_set_value" + q)).empty()) goto done;
        if (rc == CIF_OK) WANT(cif_container_remove_item(blk, U(nm)), CIF_OK, "remove_item after set_value" + q);
        rc = cif_loop_add_item(base, U(nm), nullptr);
        if (!(msg = expect_v(rc, v, CIF_INVALID_ITEMNAME, "cif_loop_add_item" + q)).empty()) goto done;
        if (rc == CIF_OK) WANT(cif_container_remove_item(blk, U(nm)), CIF_OK, "remove_item after loop_add_item" + q);
        rc = cif_packet_set_item(pkt0, U(nm), nullptr);
        if (!(msg = expect_v(rc, v, CIF_INVALID_ITEMNAME, "cif_packet_set_item" + q)).empty()) goto done;
        if (rc == CIF_OK) WANT(cif_packet_remove_item(pkt0, U(nm), nullptr), CIF_OK, "packet_remove_item after set_item" + q);
        if (v == V_BAD) {   // documented: invalid names are simply absent
            WANT(cif_container_get_value(blk, U(nm), nullptr), CIF_NOSUCH_ITEM, "cif_container_get_value with the invalid name " + q);
            WANT(cif_packet_get_item(pkt0, U(nm), nullptr), CIF_NOSUCH_ITEM, "cif_packet_get_item with the invalid name " + q);
            WANT(cif_packet_remove_item(pkt0, U(nm), nullptr), CIF_NOSUCH_ITEM, "cif_packet_remove_item with the invalid name " + q);
        }
    }
    // --- table key
    { int rc = cif_value_set_item_by_key(t, U(s), nullptr);
      if (!(msg = expect_v(rc, vk, CIF_INVALID_INDEX, "cif_value_set_item_by_key(" + show(s) + ")")).empty()) goto done;
      if (rc == CIF_OK) {
          std::vector<ustr> ks; if (!(msg = keys_of(t, ks)).empty()) goto done;
          if (ks.size() != 1 || ks[0] != s) { msg = "table key set as " + show(s) + " is listed as " + (ks.empty() ? "<none>" : show(ks[0])); goto done; }
          WANT(cif_value_remove_item_by_key(t, U(s), nullptr), CIF_OK, "remove_item_by_key of the key just set");
      } else if (vk == V_BAD) {
          WANT(cif_value_get_item_by_key(t, U(s), nullptr), CIF_NOSUCH_ITEM, "cif_value_get_item_by_key with an invalid key");
          WANT(cif_value_remove_item_by_key(t, U(s), nullptr), CIF_NOSUCH_ITEM, "cif_value_remove_item_by_key with an invalid key");
      } }
done:
    cif_packet_free(pkt0); cif_packet_free(pkt); cif_value_free(t);
    if (base) cif_loop_free(base);
    if (l2) cif_loop_free(l2);
    if (h) cif_container_free(h);
    if (blk) cif_container_free(blk);
    if (cif) { int rc = cif_destroy(cif); if (rc != CIF_OK && msg.empty()) msg = "cif_destroy returned " + rcname(rc); }
    if (msg.empty()) msg = guard.check();
    return msg;
}

// ------------------------------------------------------------------------------------------------ mode sweep
static bool norm_interesting(uint32_t c) {
    if (is_surr(c)) return false;
    if ((uint32_t) u_toupper((UChar32) c) != c || (uint32_t) u_tolower((UChar32) c) != c || (uint32_t) u_totitle((UChar32) c) != c || (uint32_t) u_foldCase((UChar32) c, U_FOLD_CASE_DEFAULT) != c) return true;
    if (ccc(c) != 0) return true;
    CPS d; own_decomp(c, d); if (d.size() != 1 || d[0] != c) return true;
    CPS f = own_fold(CPS{c}); if (f.size() != 1 || f[0] != c) return true;
    UErrorCode ec = U_ZERO_ERROR; UChar buf[8];
    if (unorm2_getDecomposition(nfc_inst(), (UChar32) c, buf, 8, &ec) >= 0) return true;
    return false;
}
// one code point; returns "" or the failure.  pkt/table work only (no database).
static std::string sweep_cp(uint32_t cp, long &normed) {
    std::string msg;
    ustr ch = cp_str(cp);
    ustr nm1 = u"_a" + ch + u"b", nm2 = u"_ab" + ch, key1 = ch, key2 = u"k " + ch;
    cif_packet_tp *pkt = nullptr; cif_value_tp *t = nullptr;
    for (const ustr *nm : {&nm1, &nm2}) {
        Verdict v = name_verdict(*nm);
        UChar *names[] = {(UChar *) U(*nm), nullptr};
        int rc = cif_packet_create(&pkt, names);
        if (!(msg = expect_v(rc, v, CIF_INVALID_ITEMNAME, "cif_packet_create([" + show(*nm) + "])")).empty()) goto done;
        if (rc == CIF_OK) {
            if (!is_surr(cp)) {
                // the packet item must be found under the simple case mappings of the character exactly when the oracle says so
                uint32_t maps[4] = {(uint32_t) u_toupper((UChar32) cp), (uint32_t) u_tolower((UChar32) cp), (uint32_t) u_totitle((UChar32) cp), (uint32_t) u_foldCase((UChar32) cp, U_FOLD_CASE_DEFAULT)};
                for (uint32_t mcp : maps) {
                    if (mcp == cp) continue;
                    ustr probe = nm == &nm1 ? u"_A" + cp_str(mcp) + u"B" : u"_Ab" + cp_str(mcp);
                    if (name_verdict(probe) != V_OK) continue;
                    bool hit = cm::norm_name(probe) == cm::norm_name(*nm);
                    WANT(cif_packet_get_item(pkt, U(probe), nullptr), hit ? CIF_OK : CIF_NOSUCH_ITEM, "cif_packet_get_item(" + show(probe) + ") in a packet created with " + show(*nm));
                }
                ustr dprobe = cm::nfd(*nm);
                if (dprobe != *nm) WANT(cif_packet_get_item(pkt, U(dprobe), nullptr), CIF_OK, "cif_packet_get_item(NFD spelling " + show(dprobe) + ") in a packet created with " + show(*nm));
            }
            cif_packet_free(pkt); pkt = nullptr;
        }
    }
    CK(cif_value_create(CIF_TABLE_KIND, &t));
    for (const ustr *k : {&key1, &key2}) {
        int rc = cif_value_set_item_by_key(t, U(*k), nullptr);
        if (!(msg = expect_v(rc, key_verdict(*k), CIF_INVALID_INDEX, "cif_value_set_item_by_key(" + show(*k) + ")")).empty()) goto done;
        if (rc == CIF_OK && !is_surr(cp)) {
            ustr d = cm::nfd(*k);
            WANT(cif_value_get_item_by_key(t, U(d), nullptr), CIF_OK, "cif_value_get_item_by_key(NFD spelling) of key " + show(*k));
            ustr up = *k; up.replace(up.size() - ch.size(), ch.size(), cp_str((uint32_t) u_toupper((UChar32) cp)));
            ustr lo = *k; lo.replace(lo.size() - ch.size(), ch.size(), cp_str((uint32_t) u_tolower((UChar32) cp)));
            for (const ustr *v : {&up, &lo}) if (key_verdict(*v) == V_OK)
                WANT(cif_value_get_item_by_key(t, U(*v), nullptr), cm::nfc(*v) == cm::nfc(*k) ? CIF_OK : CIF_NOSUCH_ITEM, "cif_value_get_item_by_key(case variant " + show(*v) + ") of key " + show(*k));
        }
    }
    if (norm_interesting(cp) && chars_verdict(ch, true) != V_BAD) {
        normed++;
        uint32_t u = (uint32_t) u_toupper((UChar32) cp), l = (uint32_t) u_tolower((UChar32) cp), tt = (uint32_t) u_totitle((UChar32) cp);
        std::vector<CPS> strs = {{cp}, {cp, 0x323, 0x301}, {cp, 0x301, 0x323, 0x345}, {0x3B1, 0x301, cp, 0x345}, {0x61, 0x327, cp, 0x323}, {u, l, tt, cp}, {0x1100, cp, 0x11A8}, {cp, 0x1161, 0x11A8}};
        for (auto &x : strs) if (!(msg = norm_checks(from_cps(x))).empty()) goto done;
        // the case partners must normalise identically exactly when the oracle says so
        for (uint32_t m : {u, l, tt}) if (m != cp) {
            ustr ra, rb;
            if (!(msg = lib_norm(ch, false, ra)).empty() || !(msg = lib_norm(cp_str(m), false, rb)).empty()) goto done;
            bool eq = cm::norm_name(ch) == cm::norm_name(cp_str(m));
            if (eq != (ra == rb)) { msg = show(ch) + " and its case partner " + show(cp_str(m)) + (eq ? " should" : " should not") + " normalise identically"; goto done; }
        }
    }
done:
    cif_packet_free(pkt); cif_value_free(t);
    return msg;
}
static std::string run_sweep(const CaseFile &c) {
    long lo = c.geti("lo"), hi = c.geti("hi"), step = std::max(1L, c.geti("step", 1)), normed = 0, tested = 0;
    if (lo < 1 || hi > 0x10FFFF || lo > hi) return "bad case file (sweep range)";
    CaseGuard guard;
    std::string msg;
    cif_tp *cif = nullptr; cif_block_tp *blk = nullptr;
    if (c.geti("db")) {   // also offer the code point as the FIRST character of a block code and a frame code (needs a managed CIF)
        if (cif_create(&cif) != CIF_OK || cif_create_block(cif, u"c09s", &blk) != CIF_OK) msg = "cannot set up a managed CIF";
    }
    for (long cp = lo; cp <= hi && msg.empty(); cp += step) {
        if (is_c1((uint32_t) cp)) note("sweep_c1_controls", 1);
        msg = sweep_cp((uint32_t) cp, normed); tested++;
        if (msg.empty() && cif) {
            ustr code = cp_str((uint32_t) cp) + u"a"; Verdict v = code_verdict(code); cif_container_tp *h = nullptr;
            int rc = cif_create_block(cif, U(code), &h);
            msg = expect_v(rc, v, CIF_INVALID_BLOCKCODE, "cif_create_block(" + show(code) + ")");
            if (rc == CIF_OK) { int r2 = cif_container_destroy(h); if (r2 != CIF_OK && msg.empty()) msg = "cif_container_destroy returned " + rcname(r2); }
            if (msg.empty()) {
                h = nullptr; rc = cif_container_create_frame(blk, U(code), &h);
                msg = expect_v(rc, v, CIF_INVALID_FRAMECODE, "cif_container_create_frame(" + show(code) + ")");
                if (rc == CIF_OK) { int r2 = cif_container_destroy(h); if (r2 != CIF_OK && msg.empty()) msg = "cif_container_destroy returned " + rcname(r2); }
            }
            note("sweep_codes_in_db", 1);
        }
        if (!msg.empty()) { char b[48]; snprintf(b, sizeof b, "[sweep U+%04lX] ", cp); msg = b + msg; }
    }
    if (blk) cif_container_free(blk);
    if (cif) { int rc = cif_destroy(cif); if (rc != CIF_OK && msg.empty()) msg = "cif_destroy returned " + rcname(rc); }
    note("sweep_codepoints", tested); note("sweep_normalised", normed);
    if (msg.empty()) msg = guard.check();
    return msg;
}

static std::string run_case(const CaseFile &c) {
    std::string mode = c.get("mode");
    if (mode == "norm") return run_norm(c);
    if (mode == "lookup") return run_lookup(c);
    if (mode == "keys") return run_keys(c);
    if (mode == "valid") return run_valid(c);
    if (mode == "sweep") return run_sweep(c);
    return "bad case file (mode)";
}

// ================================================================================================ generators
namespace gg {
using rc::Gen;
static Gen<uint32_t> of(std::vector<uint32_t> v) { return rc::gen::elementOf(std::move(v)); }
static Gen<uint32_t> rng(int lo, int hi) { return rc::gen::map(g::range(lo, hi), [](int c) { return (uint32_t) c; }); }
static const std::vector<uint32_t> MARKS = {0x301, 0x323, 0x327, 0x345, 0x308, 0x300, 0x304, 0x307, 0x30C, 0x31B, 0x328, 0x334, 0x342, 0x313, 0x314, 0x315, 0x35C, 0x360,
                                            0x5B0, 0x93C, 0x3099, 0xF74, 0x302A, 0x302E, 0x20D0, 0x653, 0x1D165, 0x1E8D0};
static const std::vector<uint32_t> BASES = {'a', 'e', 'o', 'u', 'A', 'E', 'i', 'I', 'j', 'J', 's', 'S', 'k', 'K', 0x3B1, 0x3C9, 0x391, 0x3A9, 0x3B7, 0x397, 0x3B9, 0x1FB3, 0x1FBC, 0x212B, 0x212A, 0x2126,
                                            0x130, 0x131, 0x1F0, 0x17F, 0xC5, 0xE5, 0x1EA1, 0xE7, 0xC7, 0x1E9E, 0xDF, 0x3C5, 0x3A5};
// one code point that is valid in names, codes and keys
static Gen<uint32_t> name_cp() {
    auto ascii = rc::gen::map(g::range(0, 61), [](int i) { return (uint32_t) "abcdefghijklmnopqrstuvwxyzABCDEFGHIJKLMNOPQRSTUVWXYZ0123456789"[i]; });
    auto punct = of({'_', '.', '-', '[', ']', '$', '#', '\'', '"', ';', '{', '}', ':', '/', '~', '!', '?', '\\'});
    auto greek = of({0x391, 0x3B1, 0x3A9, 0x3C9, 0x3A3, 0x3C3, 0x3C2, 0x345, 0x1FB3, 0x1FBC, 0x1FB4, 0x1FB7, 0x1F80, 0x1F88, 0x390, 0x3B0, 0x3AC, 0x1F71, 0x386, 0x3B9, 0x399, 0x1FBE, 0x3CA, 0x1FC3, 0x1FF3,
                     0x1FFC, 0x3D0, 0x3F4, 0x3B8, 0x3D1, 0x1FD3, 0x1FE3, 0x37F, 0x3F3});
    auto special = of({0x1E9E, 0xDF, 0x149, 0x1F0, 0x130, 0x131, 'i', 'I', 0x17F, 's', 'S', 0xB5, 0x3BC, 0xFB00, 0xFB01, 0xFB03, 0xFB05, 0xFB06, 0x587, 0x1E96, 0x1E97, 0x1E98, 0x1E99, 0x1E9A, 0x1E9B, 0x1C4,
                       0x1C5, 0x1C6, 0x1F1, 0x1F2, 0x1F3, 0x13A0, 0xAB70, 0x13F8, 0x10A0, 0x2D00, 0x1C90, 0x10D0, 'K', 'k', 0x212A, 0xE5, 0xC5, 0x1E60, 0x1E61, 0x1C88, 0xA64A, 0xA64B, 0x2C2F, 0x2C5F});
    auto hangul = rc::gen::weightedOneOf<uint32_t>({{4, rng(0xAC00, 0xD7A3)}, {3, rng(0x1100, 0x1112)}, {3, rng(0x1161, 0x1175)}, {3, rng(0x11A8, 0x11C2)}, {2, of({0xAC00, 0xAC1C, 0xD788, 0xD7A3, 0x11A7, 0x1160, 0x115F})}});
    auto single = of({0x212B, 0x2126, 0x212A, 0x1F71, 0x340, 0x341, 0x343, 0x344, 0x374, 0x37E, 0x387, 0x2000, 0x2001, 0x2329, 0x232A, 0xF900, 0xFA0E, 0xFB1D, 0xFB2A, 0x958, 0x2ADC, 0x1D15E, 0x1D1BB,
                      0x2F800, 0x2FA1D, 0x9CB, 0x1026, 0x110AB, 0x1109A, 0xF43, 0xF73, 0xF75, 0xF81, 0x1B06, 0x22ED});
    auto supp = of({0x10400, 0x10428, 0x1044F, 0x1E900, 0x1E922, 0x1E943, 0x10C80, 0x10CC0, 0x118A0, 0x118C0, 0x16E40, 0x16E60, 0x104B0, 0x104D8, 0x1D4B3, 0x1F600, 0x20000, 0x10FFFD, 0x10000, 0xE0001,
                    0x10570, 0x10597});
    auto misc = of({0xA0, 0xAD, 0x200D, 0x200C, 0x2028, 0x2029, 0x3000, 0xFFFD, 0xE000, 0xFDCF, 0xFDF0, 0xD7FF, 0xFFFC, 0x2060, 0x4E2D, 0x410, 0x44F, 0x430, 0x7E, 0x21});
    auto anybmp = rc::gen::map(g::range(0x80, 0xFFFD), [](int c) { return (uint32_t) (c <= 0x9F ? c + 0x20 : (c >= 0xD800 && c <= 0xDFFF) ? 0x1E9E : (c >= 0xFDD0 && c <= 0xFDEF) ? 0xFDCF : c == 0xFEFF ? 0x2060 : c); });
    auto anysupp = rc::gen::map(g::range(0x10000, 0x10FFFD), [](int c) { return (uint32_t) (((c & 0xFFFE) == 0xFFFE) ? c - 2 : c); });
    return rc::gen::weightedOneOf<uint32_t>({{20, ascii}, {3, punct}, {8, rng(0xC0, 0x24F)}, {10, greek}, {13, special}, {8, hangul}, {14, of(MARKS)}, {8, single}, {6, supp}, {4, misc}, {3, anybmp}, {3, anysupp}});
}
// a short text made of single characters and of clusters built to stress NFD -> fold -> NFC
static CPS core(int maxitems) {
    CPS out; int n = *g::range(1, maxitems);
    for (int i = 0; i < n; i++) {
        int k = *g::range(0, 99);
        if (k < 28) {            // base + 1..4 marks in arbitrary (often non-canonical) order
            out.push_back(*of(BASES)); int m = *g::range(1, 4);
            for (int j = 0; j < m; j++) out.push_back(*of(MARKS));
        } else if (k < 38) {     // Hangul: L V [T] jamo, or LV syllable + T, or a whole syllable
            int h = *g::range(0, 2);
            if (h == 0) { out.push_back(*rng(0x1100, 0x1112)); out.push_back(*rng(0x1161, 0x1175)); if (*g::chance(60)) out.push_back(*rng(0x11A8, 0x11C2)); }
            else if (h == 1) { out.push_back(0xAC00 + 28 * (uint32_t) *g::range(0, 19 * 21 - 1)); out.push_back(*rng(0x11A8, 0x11C2)); }
            else out.push_back(*rng(0xAC00, 0xD7A3));
        } else if (k < 44) {     // Greek word ending in sigma (final-sigma context for whole-string case mapping)
            for (uint32_t c : {0x3BF, 0x3B4, 0x3BF}) out.push_back(*g::chance(50) ? c : (uint32_t) u_toupper((UChar32) c));
            out.push_back(*of({0x3C3, 0x3C2, 0x3A3}));
        } else out.push_back(*name_cp());
    }
    return out;
}
static ustr str_map(const ustr &s, int how) {   // whole-string (context sensitive) case mappings, root locale
    std::vector<UChar> buf(s.size() * 3 + 16); UErrorCode ec = U_ZERO_ERROR; int32_t n;
    if (how == 0) n = u_strToUpper(buf.data(), (int32_t) buf.size(), (const UChar *) s.data(), (int32_t) s.size(), "", &ec);
    else if (how == 1) n = u_strToLower(buf.data(), (int32_t) buf.size(), (const UChar *) s.data(), (int32_t) s.size(), "", &ec);
    else n = u_strFoldCase(buf.data(), (int32_t) buf.size(), (const UChar *) s.data(), (int32_t) s.size(), U_FOLD_CASE_DEFAULT, &ec);
    if (U_FAILURE(ec)) return s;
    return ustr((const char16_t *) buf.data(), (size_t) n);
}
typedef std::function<bool(const ustr &)> Cert;
// a spelling variant of `a` from position `from` on; every step is kept only when `same` certifies it
static ustr variant(const ustr &a, size_t from, bool with_case, const Cert &same) {
    CPS cur = to_cps(a);
    int steps = *g::range(1, 6);
    for (int s = 0; s < steps && cur.size() > from; s++) {
        CPS cand = cur;
        int op = *g::range(0, with_case ? 9 : 4);
        size_t i = from + (size_t) *g::range(0, (int) (cur.size() - from) - 1);
        if (op <= 1) {            // NFC or NFD of a segment
            size_t j = i + 1 + (size_t) *g::range(0, (int) (cur.size() - i) - 1);
            CPS seg(cur.begin() + (long) i, cur.begin() + (long) j);
            CPS rep = to_cps(op == 0 ? cm::nfc(from_cps(seg)) : cm::nfd(from_cps(seg)));
            cand.assign(cur.begin(), cur.begin() + (long) i); cand.insert(cand.end(), rep.begin(), rep.end()); cand.insert(cand.end(), cur.begin() + (long) j, cur.end());
        } else if (op <= 3) {     // swap two adjacent marks of different classes (try the nearest such pair at or after i)
            for (size_t p = i; p + 1 < cand.size(); p++) if (ccc(cand[p]) != 0 && ccc(cand[p + 1]) != 0 && ccc(cand[p]) != ccc(cand[p + 1])) { std::swap(cand[p], cand[p + 1]); break; }
        } else if (op == 4) {     // own NFD of everything (decomposes singletons, reorders marks)
            CPS tail(cur.begin() + (long) from, cur.end()); tail = own_nfd(tail);
            cand.assign(cur.begin(), cur.begin() + (long) from); cand.insert(cand.end(), tail.begin(), tail.end());
        } else if (op <= 7) {     // one character: simple or full case mapping
            int how = *g::range(0, 5); uint32_t c = cur[i]; CPS rep;
            if (how == 0) rep = {(uint32_t) u_toupper((UChar32) c)}; else if (how == 1) rep = {(uint32_t) u_tolower((UChar32) c)}; else if (how == 2) rep = {(uint32_t) u_totitle((UChar32) c)};
            else rep = to_cps(str_map(cp_str(c), how - 3));
            cand.erase(cand.begin() + (long) i); cand.insert(cand.begin() + (long) i, rep.begin(), rep.end());
        } else {                  // the whole string through a context-sensitive mapping
            CPS tail(cur.begin() + (long) from, cur.end()); tail = to_cps(str_map(from_cps(tail), *g::range(0, 2)));
            cand.assign(cur.begin(), cur.begin() + (long) from); cand.insert(cand.end(), tail.begin(), tail.end());
        }
        if (cand != cur && same(from_cps(cand))) cur = cand;
    }
    return from_cps(cur);
}
// a near miss of `a`: an edit after which `differs` holds (falls back to appending 'x', which always differs)
static ustr near_miss(const ustr &a, size_t from, const Cert &differs) {
    static const uint32_t LOOK[][2] = {{'i', 0x131}, {'I', 0x130}, {0x131, 'i'}, {0x130, 'I'}, {'K', 0xFF2B}, {'k', 0xFF4B}, {'a', 0xFF41}, {'A', 0x391}, {'o', 0x3BF}, {'s', 0x17F}, {0xDF, 0x3B2}, {0xB5, 0x3BC},
                                       {0x3C3, 0x3C2}, {0x212B, 'A'}, {0xC5, 'A'}, {0xE9, 'e'}, {'e', 0x435}, {0xFB01, 'f'}, {0x1E9E, 0xDF}, {0x3B9, 0x345}, {0x345, 0x3B9}, {0x1100, 0x3131}, {'1', 0xB9}};
    CPS cur = to_cps(a);
    for (int attempt = 0; attempt < 3; attempt++) {
        CPS cand = cur;
        int op = *g::range(0, 6);
        size_t n = cur.size() - from;
        size_t i = from + (n ? (size_t) *g::range(0, (int) n - 1) : 0);
        if (op == 0) cand.insert(cand.begin() + (long) (from + (size_t) *g::range(0, (int) n)), (uint32_t) 0x200D);
        else if (op == 1 && n) {   // a look-alike (first applicable from a random start), else the compatibility form, else another character
            bool done = false;
            for (size_t p = i; p < cand.size() && !done; p++) for (auto &lk : LOOK) if (cand[p] == lk[0]) { cand[p] = lk[1]; done = true; break; }
            if (!done) {
                UErrorCode ec = U_ZERO_ERROR; const UNormalizer2 *kc = unorm2_getNFKCInstance(&ec); ustr one = cp_str(cand[i]); UChar buf[40];
                int32_t k = unorm2_normalize(kc, (const UChar *) one.data(), (int32_t) one.size(), buf, 40, &ec);
                ustr comp = U_SUCCESS(ec) ? ustr((const char16_t *) buf, (size_t) k) : one;
                if (comp != one && chars_verdict(comp, false) == V_OK) { CPS rep = to_cps(comp); cand.erase(cand.begin() + (long) i); cand.insert(cand.begin() + (long) i, rep.begin(), rep.end()); }
                else cand[i] = *name_cp();
            }
        } else if (op == 2 && n) {   // change one mark, or add one
            bool done = false;
            for (size_t p = i; p < cand.size() && !done; p++) if (ccc(cand[p]) != 0) { cand[p] = *of(MARKS); done = true; }
            if (!done) cand.insert(cand.begin() + (long) i + 1, *of(MARKS));
        } else if (op == 3 && n > 1) cand.erase(cand.begin() + (long) i);
        else if (op == 4 && n > 1) std::swap(cand[i], cand[i + 1 < cand.size() ? i + 1 : from]);   // transpose two characters
        else cand.push_back(*name_cp());
        ustr s = from_cps(cand);
        if (differs(s)) return s;
    }
    return a + u"x";
}
} // namespace gg

// ================================================================================================ case builders (inside rapidcheck)
// like g::chance, but shrinks towards "no" (g::chance shrinks towards "yes"): for options that make a case bigger
static bool rare(int pct) { return *g::range(0, 99) >= 100 - pct; }
static bool differ_case_and_form(const ustr &a, const ustr &b) { return cm::nfd(a) != cm::nfd(b) && gg::str_map(a, 2) != gg::str_map(b, 2); }
// pad three spellings with ASCII so that the longest reaches `target` code points (b gets the pad in upper case)
static void pad3(ustr &a, ustr &b, ustr &n, int target, bool upper_b) {
    int longest = std::max(cplen(a), std::max(cplen(b), cplen(n))), pad = target - longest;
    for (int i = 0; i < pad; i++) { char16_t ch = (char16_t) ('a' + i % 26); a += ch; n += ch; b += upper_b ? (char16_t) (ch - 32) : ch; }
}
static CaseFile build_norm() {
    CPS ca = gg::core(6);
    if (rare(10)) { ca.insert(ca.begin() + *g::range(0, (int) ca.size()), *gg::of({0x20, 0x9, 0xA, 0xD, 0x7F, 0x1, 0xFEFF, 0xFFFD, 0x85, 0x9F})); }   // cif_normalize takes any text
    if (rare(8)) { CPS one = ca; int rep = *g::range(2, 120); for (int i = 0; i < rep; i++) ca.insert(ca.end(), one.begin(), one.end()); }   // long: buffer growth paths
    ustr a = from_cps(ca), na = cm::norm_name(a);
    ustr b = gg::variant(a, 0, true, [&](const ustr &s) { return cm::norm_name(s) == na; });
    ustr n = gg::near_miss(a, 0, [&](const ustr &s) { return cm::norm_name(s) != na; });
    CPS cb = to_cps(a); int kcp = *g::range(0, (int) cb.size()); cb.resize((size_t) kcp);
    CaseFile c; c.set("mode", "norm"); c.set("a", ser_u16(a)); c.set("b", ser_u16(b)); c.set("n", ser_u16(n)); c.seti("k", (long) from_cps(cb).size());
    return c;
}
static CaseFile build_lookup() {
    int kind = *g::range(0, 4); bool item = kind >= 2; size_t from = item ? 1 : 0;
    CPS ca = gg::core(5);
    if (item) ca.insert(ca.begin(), (uint32_t) '_');
    ustr a = from_cps(ca), na = cm::norm_name(a);
    auto ok = [&](const ustr &s) { return (item ? name_verdict(s) : code_verdict(s)) == V_OK; };
    ustr b = gg::variant(a, from, true, [&](const ustr &s) { return ok(s) && cm::norm_name(s) == na; });
    ustr n = gg::near_miss(a, from, [&](const ustr &s) { return ok(s) && cm::norm_name(s) != na; });
    if (rare(6)) {
        pad3(a, b, n, (item ? 2048 : 2043) - *g::range(0, 2), *g::chance(70));
    }
    CaseFile c; c.set("mode", "lookup"); c.seti("kind", kind); c.set("a", ser_u16(a)); c.set("b", ser_u16(b)); c.set("n", ser_u16(n));
    return c;
}
static CaseFile build_keys() {
    CPS ca;
    if (*g::range(0, 99) >= 4) {
        ca = gg::core(4);
        int ws = *g::range(0, 2);
        for (int i = 0; i < ws; i++) ca.insert(ca.begin() + *g::range(0, (int) ca.size()), *gg::of({0x20, 0x20, 0x9, 0xA, 0xD}));
    }
    ustr a = from_cps(ca), na = cm::nfc(a), fa = cm::norm_name(a);
    auto ok = [&](const ustr &s) { return key_verdict(s) == V_OK; };
    ustr b = gg::variant(a, 0, false, [&](const ustr &s) { return ok(s) && cm::nfc(s) == na; });
    ustr n = a;
    if (*g::chance(65)) n = gg::variant(a, 0, true, [&](const ustr &s) { return ok(s) && cm::nfc(s) != na && cm::norm_name(s) == fa; });   // differs in case only
    if (n == a) n = gg::near_miss(a, 0, [&](const ustr &s) { return ok(s) && cm::nfc(s) != na; });
    CaseFile c; c.set("mode", "keys"); c.set("a", ser_u16(a)); c.set("b", ser_u16(b)); c.set("n", ser_u16(n));
    c.seti("stored", *g::chance(35) ? 1 : 0);   // the table goes through a managed CIF (serialisation) before the probes
    return c;
}
static CPS invalid_ingredient() {
    int k = *g::range(0, 99);
    if (k < 20) return {*gg::of({0x20, 0x9, 0xA, 0xD})};
    if (k < 34) return {*gg::rng(0x1, 0x1F)};
    if (k < 42) return {0x7F};
    if (k < 50) return {*gg::rng(0x80, 0x9F)};                       // C1 controls
    if (k < 58) return {*gg::rng(0xFDD0, 0xFDEF)};
    if (k < 68) return {*gg::of({0xFFFE, 0xFFFF, 0x1FFFE, 0x1FFFF, 0x10FFFE, 0x10FFFF, 0x5FFFE, 0xEFFFF, 0x2FFFE, 0xFFFFF})};
    if (k < 76) return {*gg::rng(0xD800, 0xDBFF)};
    if (k < 84) return {*gg::rng(0xDC00, 0xDFFF)};
    if (k < 90) return {*gg::rng(0xDC00, 0xDFFF), *gg::rng(0xD800, 0xDBFF)};   // reversed pair
    if (k < 93) return {0xFEFF};                                       // unconstrained
    if (k < 96) return {*gg::rng(0xD800, 0xDBFF), *gg::rng(0xD800, 0xDBFF)};                                      // two high surrogates in a row
    if (k < 98) return {*gg::rng(0xD800, 0xDBFF), *gg::rng(0xD800, 0xDBFF), (uint32_t) 'b'};                      // ... followed by an ordinary character
    return {*gg::rng(0xD800, 0xDBFF), (uint32_t) 'a'};                // high surrogate followed by a non-surrogate
}
static CaseFile build_valid() {
    int shape = *rc::gen::weightedElement<int>({{14, 0}, {10, 1}, {36, 2}, {8, 3}, {16, 4}, {16, 5}});
    CPS cs;
    auto insert_bad = [&](CPS &v, size_t minpos) {
        CPS bad = invalid_ingredient(); int where = *g::range(0, 2);
        size_t pos = where == 0 ? minpos : where == 1 ? v.size() : minpos + (size_t) *g::range(0, (int) (v.size() - minpos));
        v.insert(v.begin() + (long) pos, bad.begin(), bad.end());
    };
    if (shape == 0) { cs = gg::core(5); cs.insert(cs.begin(), (uint32_t) '_'); }
    else if (shape == 1) cs = gg::core(5);
    else if (shape == 2) { cs = gg::core(3); bool nm = *g::chance(60); if (nm) cs.insert(cs.begin(), (uint32_t) '_'); insert_bad(cs, nm && *g::chance(80) ? 1 : 0); }
    else if (shape == 3) cs = to_cps(*rc::gen::element<ustr>(u"", u"_", u"__", u"_ ", u" ", u"_\t", u"a b", u"_a b", u"_a", u"a", u"_\n", u" _a", u"_a ", u"a_", u"\r"));
    else {
        static const int LEN[] = {2040, 2042, 2043, 2044, 2045, 2047, 2048, 2049, 2050, 2100};
        int total = LEN[*g::range(0, 9)];
        bool nm = *g::chance(50); if (nm) cs.push_back((uint32_t) '_');
        CPS pat; int pl = *g::range(1, 8); for (int i = 0; i < pl; i++) pat.push_back(*g::chance(60) ? (uint32_t) ('a' + *g::range(0, 25)) : *gg::name_cp());
        for (size_t i = 0; (int) cs.size() < total; i++) cs.push_back(pat[i % pat.size()]);
        if (shape == 5) { cs.resize(cs.size() - 1); insert_bad(cs, nm ? 1 : 0); if ((int) cs.size() > total) cs.resize((size_t) total); }
    }
    for (auto &cp : cs) if (cp == 0) cp = 1;
    CaseFile c; c.set("mode", "valid"); c.set("s", ser_u16(from_cps(cs)));
    return c;
}

static std::string brief(const CaseFile &c) {
    std::string mode = c.get("mode"), s = mode;
    if (mode == "lookup") s += std::string(":") + KIND[c.geti("kind")];
    for (const char *k : {"a", "b", "n", "s"}) if (c.kv.count(k)) s += std::string(" ") + k + "=" + show(deser_u16(c.get(k)));
    if (mode == "norm") s += " k=" + c.get("k");
    return s;
}
// one generated case: count it, classify it, run it
static void drive(const CaseFile &c) {
    VH_BEGIN(c);
    std::string mode = c.get("mode");
    if (mode == "valid") {
        ustr s = deser_u16(c.get("s"));
        bool nt = !s.empty() && s != u"_" && (code_verdict(s) != V_OK || name_verdict(s) != V_OK || key_verdict(s) != V_OK);
        if (nt) nontrivial(fnv(mode + c.get("s")));
    } else {
        ustr a = deser_u16(c.get("a")), b = deser_u16(c.get("b"));
        if ((a != b && differ_case_and_form(a, b)) || count_marks(a) >= 2) nontrivial(fnv(mode + c.get("kind") + "|" + c.get("a") + "|" + c.get("b") + "|" + c.get("n")));
        if (a != b && differ_case_and_form(a, b)) label(mode + ":variant-differs-in-case-and-form");
        if (count_marks(a) >= 2) label(mode + ":>=2-marks");
    }
    static long seen = 0;
    if (c.serialize().size() < 400 && (mode != "norm" || seen++ % 8 == 0)) sample(brief(c));
    std::string m = run_case(c);
    if (!m.empty()) { record_fail(c, m); RC_FAIL(m); }
}
template <typename F> static bool check_n(const std::string &desc, double mult, int seed_offset, F &&body) {
    rc::detail::TestParams p = rc::detail::configuration().testParams;
    p.maxSuccess = std::max(1, (int) (p.maxSuccess * mult)); p.seed += (uint64_t) seed_offset;
    rc::detail::TestMetadata md; md.id = desc; md.description = desc;
    std::cerr << "\n- " << desc << " (" << p.maxSuccess << " cases)\n";
    auto result = rc::detail::checkTestable(std::forward<F>(body), md, p);
    rc::detail::printResultMessage(result, std::cerr); std::cerr << std::endl;
    return result.template is<rc::detail::SuccessResult>();
}

// ================================================================================================ sweep driver
static int g_workers_quick = 8, g_workers_thorough = 16;
static const uint32_t INTERESTING[] = {0x1F, 0x20, 0x7E, 0x7F, 0x80, 0x9F, 0xA0, 0xD7FF, 0xD800, 0xDBFF, 0xDC00, 0xDFFF, 0xE000, 0xFDCF, 0xFDD0, 0xFDEF, 0xFDF0, 0xFEFF, 0xFFFD, 0xFFFE, 0xFFFF, 0x10000, 0x1FFFD, 0x1FFFE,
                                       0x1FFFF, 0x20000, 0xEFFFE, 0xFFFFF, 0x100000, 0x10FFFD, 0x10FFFE, 0x10FFFF, 0x212A, 0x212B, 0x2126, 0x1E9E, 0x149, 0x1F0, 0x130, 0x131, 0x345, 0x1FB3, 0x3C2, 0x3C3, 0x3A3,
                                       0xAC00, 0xAC01, 0xD7A3, 0x10400, 0x10428, 0x1E900, 0x1E922, 0x1D15E, 0x2F800, 0xFB01, 0xFB03, 0x958, 0x2ADC, 0xF900, 0x200D};
static const uint32_t INTERESTING_RANGES[][2] = {{0x1, 0x24F}, {0x300, 0x3FF}, {0x1100, 0x11FF}, {0x1E00, 0x1FFF}, {0x10400, 0x1044F}, {0x1E900, 0x1E94B}, {0xFB00, 0xFB4F}, {0xFDC0, 0xFE00}, {0xFFF0, 0x1000F}};
static bool run_sweeps() {
    bool thorough = tier() == "thorough";
    int nw = std::max(1, thorough ? g_workers_thorough : g_workers_quick), w = 0;
    { const std::string &id = worker_id(); size_t u = id.find('_'); w = atoi(id.substr(u == std::string::npos ? 0 : u + 1).c_str()) % nw; }
    long vseed = (long) (rc::detail::configuration().testParams.seed / 1000);
    std::vector<CaseFile> cases;
    auto add = [&](long lo, long hi, long step, int db) { CaseFile c; c.set("mode", "sweep"); c.seti("lo", lo); c.seti("hi", hi); c.seti("step", step); c.seti("db", db); cases.push_back(c); };
    long idx = 0;
    for (long ci = 0; ci <= 0x10FFFF / 0x400; ci++, idx++) {
        if (idx % nw != w) continue;
        if (thorough) add(std::max(1L, ci * 0x400), ci * 0x400 + 0x3FF, 1, 1);
        else { long lo = ci * 0x400 + (vseed % 8); add(std::max(1L, lo), ci * 0x400 + 0x3FF, 8, 0); }   // deterministic 1/8 sample, residue chosen by VERIF_SEED
    }
    if (!thorough) {
        for (uint32_t cp : INTERESTING) if (idx++ % nw == w) add(cp, cp, 1, 1);
        for (auto &r : INTERESTING_RANGES) for (long lo = r[0]; lo <= r[1]; lo += 0x40) if (idx++ % nw == w) add(lo, std::min((long) r[1], lo + 0x3F), 1, 1);
    }
    note(thorough ? "sweep_exhaustive" : "sweep_sampled", 1);
    bool ok = true;
    for (auto &c : cases) {
        begin_case(c); label("sweep:chunk");
        std::string m = run_case(c);
        if (m.empty()) continue;
        ok = false;
        CaseFile one = c; unsigned long cp = 0;
        if (sscanf(m.c_str(), "[sweep U+%lX]", &cp) == 1) { one.seti("lo", (long) cp); one.seti("hi", (long) cp); one.seti("step", 1); }
        fprintf(stderr, "SWEEP MISMATCH %s\n", m.c_str());
        record_fail(one, m);
        break;
    }
    return ok;
}

int main(int argc, char **argv) {
    for (int i = 1; i + 1 < argc; i++) {
        if (!strcmp(argv[i], "--workers-quick")) g_workers_quick = atoi(argv[i + 1]);
        if (!strcmp(argv[i], "--workers-thorough")) g_workers_thorough = atoi(argv[i + 1]);
    }
    Engine e;
    e.name = "C09_names";
    e.run = []() {
        { cif_tp *w = nullptr; if (cif_create(&w) == CIF_OK) (void) cif_destroy(w); }   // warm up lazy global initialisation (SQLite, ICU data)
        { UChar *r = nullptr; if (cif_normalize(u"Åͅ", -1, &r) == CIF_OK) cm::ufree(r); (void) cm::norm_name(u"Åͅ"); }
        bool ok = true;
        const char *only_env = getenv("C09_ONLY"); std::string only = only_env ? only_env : "";   // debugging aid: run one sub-property
        auto want = [&](const char *m) { return only.empty() || only == m; };
        if (want("norm")) ok = check_n("C09(1) cif_normalize: idempotent, equal on equivalent / different on inequivalent spellings, equal to the independent pipeline, srclen", 8, 0, []() { drive(build_norm()); }) && ok;
        if (ok && want("lookup")) ok = check_n("C09(2) blocks, frames, items and packet items are found / duplicate / removable under exactly the equivalent spellings", 2, 1, []() { drive(build_lookup()); }) && ok;
        if (ok && want("keys")) ok = check_n("C09(3) table keys match by canonical equivalence only and enumerate in the most recently set spelling", 4, 2, []() { drive(build_keys()); }) && ok;
        if (ok && want("valid")) ok = check_n("C09(4) names, codes and keys are accepted exactly when valid, else refused with the documented code", 2, 3, []() { drive(build_valid()); }) && ok;
        if (ok && want("sweep")) ok = run_sweeps();
        return ok;
    };
    e.replay = run_case;
    e.classify = [](const CaseFile &) { return std::string(); };   // no open known finding: F-C1CTRL, F-NORMLEN, F-PKTKEY-UAF are fixed
    return engine_main(argc, argv, e);
}
