// C18: string analysis and quoting rules agree with what the parser reads back.
//  A. the statistics of cif_analyze_string are recomputed naively from their definitions in cif.h
//  B. the recommended delimiter is well-formed, permitted by the arguments, fits the length limit, and a CIF 2.0 probe
//     document presenting the string with it parses silently to exactly that string (stored value read back)
//  C. minimality: bare / single-quoted form is recommended whenever a single-line string admits it with room to spare
//  D. cif_value_set_quoted / cif_value_try_quoted(NOT_QUOTED) succeed exactly for the strings CIF 2.0 allows
//     whitespace-delimited ("?" -> UNK, "." -> NA); the parser agrees with the predicate on the bare token
//  E. cif_is_reserved_string <=> reserved first character or reserved-word form
// One case = one string (+ the limit used for the "line ends exactly at the limit" presentations); every case runs all
// 16 combinations allow_unquoted x allow_triple_quoted x length_limit for the cheap checks and probes the parser once
// per *distinct* recommendation (all probes of one string share one probe document).
#include "../common/gens.hpp"
#include "../common/cifprint.hpp"
#include "../common/parsehelp.hpp"
#include <algorithm>
using namespace vh;
using cm::Value;

static const int LIMITS[4] = {8, 20, 80, 2048};
static const int PARSER_LIMIT = 2048;

// ---------------------------------------------------------------------------------------------- oracles
struct Stats { long length = 0, num_lines = 1, first = 0, last = 0, max = 0, semi = 0; bool text_delim = false, tws_strict = false, tws_loose = false; };

// straight from the field documentation in cif.h; line terminators are LF, CR and CR LF (one terminator)
static Stats naive_stats(const ustr &s) {
    Stats st; std::vector<long> lens; long cur = 0, run = 0; size_t n = s.size();
    st.length = (long) n;
    for (size_t i = 0; i < n;) {
        char16_t c = s[i]; size_t tl = 0;
        if (c == u'\n') tl = 1; else if (c == u'\r') tl = (i + 1 < n && s[i + 1] == u'\n') ? 2 : 1;
        if (tl) {
            if (i > 0) { char16_t p = s[i - 1]; if (p == u' ' || p == u'\t') st.tws_strict = true; if (p == 0x0B) st.tws_loose = true; }
            if (i + tl < n && s[i + tl] == u';') st.text_delim = true;
            lens.push_back(cur); cur = 0; run = 0; i += tl; continue;
        }
        cur++;
        if (c == u';') { run++; st.semi = std::max(st.semi, run); } else run = 0;
        i++;
    }
    lens.push_back(cur);
    if (n > 0) { char16_t p = s[n - 1]; if (p == u' ' || p == u'\t' || p == 0x0B) st.tws_loose = true; }   // blanks at the very end: header and code differ -> unconstrained
    st.num_lines = (long) lens.size(); st.first = lens.front(); st.last = lens.back();
    for (long l : lens) st.max = std::max(st.max, l);
    return st;
}

// every code point is one a CIF 2.0 file may contain (U+FEFF kept out: it doubles as a byte-order mark)
static bool cif2_clean(const ustr &s) {
    for (size_t i = 0; i < s.size(); i++) {
        uint32_t c = s[i];
        if (c >= 0xD800 && c <= 0xDBFF) {
            if (i + 1 < s.size() && s[i + 1] >= 0xDC00 && s[i + 1] <= 0xDFFF) { uint32_t cp = 0x10000 + ((c - 0xD800) << 10) + (s[i + 1] - 0xDC00); i++; if ((cp & 0xFFFE) == 0xFFFE) return false; continue; }
            return false;
        }
        if (c >= 0xDC00 && c <= 0xDFFF) return false;
        if (c == 9 || c == 10 || c == 13) continue;
        if (c < 0x20 || c == 0x7F) return false;
        if (c >= 0x80 && c < 0xA0) return false;
        if (c >= 0xFDD0 && c <= 0xFDEF) return false;
        if (c == 0xFFFE || c == 0xFFFF || c == 0xFEFF) return false;
    }
    return true;
}
static bool has_char(const ustr &s, char16_t c) { return s.find(c) != ustr::npos; }
// CIF 2.0 allows this text as a whitespace-delimited CHAR value (at some position of a line)
static bool bare_char_ok(const ustr &s) { return g::can_be_bare2(s) && s != u"?" && s != u"."; }
static bool has_ws(const ustr &s) { for (char16_t c : s) if (g::is_ws(c)) return true; return false; }
static bool has_bracket(const ustr &s) { for (char16_t c : s) if (c == '[' || c == ']' || c == '{' || c == '}') return true; return false; }

static std::string show(const ustr &s) { std::string e = uesc(s); if (e.size() > 160) e = e.substr(0, 70) + "...(" + std::to_string(s.size()) + " units)..." + e.substr(e.size() - 70); return "\"" + e + "\""; }

struct UBuf {   // exact-size heap copy: an over-read of the NUL-terminated argument trips ASan
    UChar *p; explicit UBuf(const ustr &s) : p(cm::udup(s)) {} ~UBuf() { cm::ufree(p); }
    UBuf(const UBuf &) = delete; UBuf &operator=(const UBuf &) = delete;
};

// known findings (root causes confirmed by hand): id of the finding this string runs into, or ""
static std::string known_class(const ustr &s) {
    // (F-CRLF-FIRST -- first terminator CR LF gave length_first 0 -- is fixed in /repo: no class is excluded any more)
    (void) s;
    return "";
}
// smallest change that takes a generated string out of a known finding's class (the class stays counted)
static ustr dodge_known(ustr s) {
    for (int guard = 0; guard < 8; guard++) {
        std::string k = known_class(s);
        if (k.empty()) break;
        count_excluded(k);
        if (k == "F-CRLF-FIRST") s.insert(0, u"\n");
    }
    return s;
}

// ---------------------------------------------------------------------------------------------- probe documents
struct Probe { ustr name; bool quoted; std::string what; };
struct DocBuilder {
    ustr doc = u"#\\#CIF_2.0\ndata_a\n"; std::vector<Probe> probes; int n = 0;
    ustr next_name(char16_t stem) { ustr nm = u"_"; nm += stem; nm += u16(std::to_string(n++)); return nm; }
    // P1: at the start of a line after one blank (the blank is dropped when the line would exceed the parser's limit)
    void line_start(const ustr &open, const ustr &s, const ustr &close, long first_line_units, const std::string &what) {
        ustr nm = next_name(u'a');
        doc += nm; doc += u'\n';
        bool one_line = s.find(u'\n') == ustr::npos;
        if (1 + (long) open.size() + first_line_units + (one_line ? (long) close.size() : 0) <= PARSER_LIMIT) doc += (s.size() % 3 == 1) ? u'\t' : u' ';
        doc += open; doc += s; doc += close; doc += u'\n';
        probes.push_back({nm, !open.empty(), what + " at line start"});
    }
    // P2: single-line token placed mid-line so that the line is exactly L units long (when it can be)
    bool exact_fit(const ustr &open, const ustr &s, const ustr &close, int L, const std::string &what) {
        long tok = (long) (open.size() + s.size() + close.size());
        ustr nm = next_name(u'b');
        long nml = (long) nm.size();
        if (nml + 1 + tok <= L) {
            long pad = L - nml - tok;   // >= 1 blanks between name and value
            ustr pn = next_name(u'p');
            long k = L - ((long) pn.size() + 1 + 1 + nml + 1 + tok);   // "_pN xxxx _bM token"
            if (k >= 1 && (s.size() % 2) == 0) { doc += pn; doc += u' '; doc += ustr((size_t) k, u'x'); doc += u' '; doc += nm; doc += u' '; }
            else { doc += nm; doc += ustr((size_t) pad, u' '); }
            doc += open; doc += s; doc += close; doc += u'\n';
            probes.push_back({nm, !open.empty(), what + " ending at column " + std::to_string(L)});
            return true;
        }
        if (tok <= L && !(open.empty() && !s.empty() && s[0] == u';')) {   // only fits alone on its line: a line terminator is whitespace too
            doc += nm; doc += u'\n'; doc += open; doc += s; doc += close; doc += u'\n';
            probes.push_back({nm, !open.empty(), what + " alone on a line of " + std::to_string(tok)});
            return true;
        }
        n--;   // name not used
        return false;
    }
    void mid_line(const ustr &open, const ustr &s, const ustr &close, const std::string &what) {
        ustr nm = next_name(u'm');
        doc += nm; doc += u' '; doc += open; doc += s; doc += close; doc += u'\n';
        probes.push_back({nm, !open.empty(), what + " mid-line"});
    }
    void text_field(const ustr &body, const std::string &what) {
        ustr nm = next_name(u't');
        doc += nm; doc += u"\n;"; doc += body; doc += u"\n;\n";
        probes.push_back({nm, true, what});
    }
};

static std::string excerpt(const ustr &doc) { std::string e = uesc(doc); if (e.size() > 700) e = e.substr(0, 340) + " ...... " + e.substr(e.size() - 340); return e; }

// parse the probe document; every probe item must hold exactly s with the expected quoted flag
static std::string run_probes(const DocBuilder &b, const ustr &s) {
    std::string msg; struct cif_parse_opts_s *opts = nullptr; cif_tp *cif = nullptr; cif_block_tp *blk = nullptr; ph::ErrLog log;
    if (cif_parse_options_create(&opts) != CIF_OK) return "cif_parse_options_create failed";
    if (getenv("C18_DUMP")) {   // triage aid: line numbers, lengths (units) and heads of the probe document
        size_t ln = 1, b0 = 0;
        for (size_t i = 0; i <= b.doc.size(); i++) if (i == b.doc.size() || b.doc[i] == u'\n') { printf("DOC %3zu len=%5zu %s\n", ln++, i - b0, uesc(b.doc.substr(b0, std::min<size_t>(i - b0, 70))).c_str()); b0 = i + 1; }
    }
    int rc = ph::parse_bytes(u8(b.doc), opts, &cif, &log);
    if (!log.errs.empty()) msg = "probe document triggered the error callback: " + ph::errs_str(log);
    else if (rc != CIF_OK) msg = std::string("cif_parse returned ") + cm::code_name(rc);
    else if (!cif) msg = "no CIF produced";
    else if ((rc = cif_get_block(cif, u"a", &blk)) != CIF_OK) msg = std::string("cif_get_block returned ") + cm::code_name(rc);
    else {
        for (auto &p : b.probes) {
            cif_value_tp *v = nullptr; Value got;
            rc = cif_container_get_value(blk, (const UChar *) p.name.c_str(), &v);
            if (rc != CIF_OK) { msg = p.what + ": item " + u8(p.name) + " not found (" + cm::code_name(rc) + ")"; break; }
            rc = cm::from_cif(v, got); cif_value_free(v);
            if (rc != CIF_OK) { msg = "from_cif failed"; break; }
            if ((got.k != Value::CHAR && got.k != Value::NUMB) || got.text != s || got.quoted != p.quoted) {
                msg = p.what + ": read back " + cm::ser(got).substr(0, 300) + ", expected the " + (p.quoted ? "quoted" : "unquoted") + " string " + show(s);
                break;
            }
        }
    }
    if (!msg.empty()) msg += "\n  probe document: " + excerpt(b.doc);
    if (blk) cif_container_free(blk);
    if (cif) { int d = cif_destroy(cif); if (d != CIF_OK && msg.empty()) msg = "cif_destroy failed"; }
    cm::ufree(opts);
    return msg;
}

// converse of D: when the predicate says "not allowed bare" (and s has no whitespace), the bare token must not be read,
// silently, as the unquoted string s
static std::string run_converse(const ustr &s) {
    std::string msg; struct cif_parse_opts_s *opts = nullptr; cif_tp *cif = nullptr; cif_block_tp *blk = nullptr; ph::ErrLog log;
    ustr doc = u"#\\#CIF_2.0\ndata_a\n_x "; doc += s; doc += u"\n";
    if (cif_parse_options_create(&opts) != CIF_OK) return "cif_parse_options_create failed";
    int rc = ph::parse_bytes(u8(doc), opts, &cif, &log);
    if (log.errs.empty() && rc == CIF_OK && cif && cif_get_block(cif, u"a", &blk) == CIF_OK) {
        cif_value_tp *v = nullptr; Value got;
        if (cif_container_get_value(blk, u"_x", &v) == CIF_OK) {
            if (cm::from_cif(v, got) == CIF_OK && (got.k == Value::CHAR || got.k == Value::NUMB) && !got.quoted && got.text == s)
                msg = "oracle/parser disagreement: CIF 2.0 does not allow " + show(s) + " whitespace-delimited, yet the parser read the bare token silently as that unquoted string";
            cif_value_free(v);
        }
    }
    if (blk) cif_container_free(blk);
    if (cif) (void) cif_destroy(cif);
    cm::ufree(opts);
    return msg;
}

// ---------------------------------------------------------------------------------------------- D and E
static std::string check_set_quoted(const ustr &s, const UBuf &buf, bool relaxed) {
    const char *fn = relaxed ? "cif_value_try_quoted" : "cif_value_set_quoted";
    cif_value_tp *v = nullptr; std::string msg; Value got;
    if (cif_value_create(CIF_UNK_KIND, &v) != CIF_OK) return "cif_value_create failed";
    int rc = cif_value_copy_char(v, buf.p);
    if (rc != CIF_OK) { cif_value_free(v); return std::string("cif_value_copy_char returned ") + cm::code_name(rc); }
    if (cif_value_is_quoted(v) == CIF_NOT_QUOTED) { cif_value_free(v); return "cif_value_copy_char did not mark the value quoted"; }
    rc = relaxed ? cif_value_try_quoted(v, CIF_NOT_QUOTED) : cif_value_set_quoted(v, CIF_NOT_QUOTED);
    int frc = cm::from_cif(v, got);
    cif_value_free(v);
    if (frc != CIF_OK) return "from_cif failed";
    bool unchanged = got.k == Value::CHAR && got.text == s && got.quoted;
    std::string st = std::string(cm::code_name(rc)) + " leaving " + cm::ser(got).substr(0, 200);
    if (s == u"?") { if (rc != CIF_OK || got.k != Value::UNK) msg = " on \"?\" must give the unknown value: " + st; label("setq:unk/na"); }
    else if (s == u".") { if (rc != CIF_OK || got.k != Value::NA) msg = " on \".\" must give the not-applicable value: " + st; }
    else if (g::can_be_bare2(s)) {
        if (rc != CIF_OK || got.k != Value::CHAR || got.text != s || got.quoted) msg = " must succeed (CIF 2.0 allows " + show(s) + " whitespace-delimited): " + st;
        if (!relaxed) label("setq:ok");
    } else {
        // refused; the relaxed variant reports success (and does nothing) when only brackets/braces stand in the way
        bool only_brackets = !s.empty() && !g::has_reserved_first(s) && !g::is_reserved_word_form(s) && !has_ws(s) && has_bracket(s);
        if (!unchanged) msg = " must leave a value it does not set unquoted unchanged (" + show(s) + "): " + st;
        else if (relaxed && only_brackets) {
            label("tryq:brackets-only");
            // a leading '[' or ']' is not allowed bare in CIF 1.1 either (only in CIF 1.0): either result accepted there
            bool lead_sq = s[0] == '[' || s[0] == ']';
            if (rc != CIF_OK && !(lead_sq && rc == CIF_ARGUMENT_ERROR)) msg = " must fail silently for a string only CIF 2.0 forbids bare (" + show(s) + "): " + st;
        } else {
            if (rc != CIF_ARGUMENT_ERROR) msg = " must return CIF_ARGUMENT_ERROR (CIF 2.0 does not allow " + show(s) + " whitespace-delimited): " + st;
            if (!relaxed) label("setq:refused");
        }
    }
    return msg.empty() ? msg : fn + std::string("(NOT_QUOTED)") + msg;
}

// ---------------------------------------------------------------------------------------------- the case
static std::string check_string(const ustr &s, int blim, bool converse) {
    std::string msg;
    UBuf buf(s);
    if (!buf.p) return "harness allocation failed";
    const Stats st = naive_stats(s);
    const bool clean = cif2_clean(s), has_cr = has_char(s, u'\r');
    const bool single = st.num_lines == 1;
    if (!clean) label("non-cif2-characters"); else if (has_cr) label("has-CR");
    if (!single) label("multi-line");
    if (st.text_delim) label("newline-semicolon");

    // ---- E
    {
        bool want = g::has_reserved_first(s) || g::is_reserved_word_form(s);
        int got = cif_is_reserved_string(buf.p);
        if ((got != 0) != want) return "cif_is_reserved_string(" + show(s) + ") = " + std::to_string(got) + ", expected " + (want ? "non-zero" : "0");
        if (g::has_reserved_first(s)) label("reserved:first-char"); else if (want) label("reserved:word-form");
    }
    // ---- D (strings a CIF 2.0 file cannot contain at all are outside the statement)
    if (clean) {
        msg = check_set_quoted(s, buf, false); if (!msg.empty()) return msg;
        msg = check_set_quoted(s, buf, true); if (!msg.empty()) return msg;
    }

    // ---- A, B (consistency, permission, fit), C over all 16 argument combinations
    struct Want { ustr delim; bool at_blim = false, plain = false, enc = false; };
    std::vector<Want> wants;
    for (int au = 1; au >= 0; au--) for (int at = 1; at >= 0; at--) for (int L : LIMITS) {
        struct cif_string_analysis_s a; memset(&a, 0x5A, sizeof a);
        int rc = cif_analyze_string(buf.p, au, at, L, &a);
        std::string where = "cif_analyze_string(" + show(s) + ", allow_unquoted=" + std::to_string(au) + ", allow_triple_quoted=" + std::to_string(at) + ", length_limit=" + std::to_string(L) + "): ";
        if (rc != CIF_OK) return where + "returned " + cm::code_name(rc);
#define STAT(field, want) if ((long) a.field != (long) (want)) return where + #field " = " + std::to_string((long) a.field) + ", expected " + std::to_string((long) (want))
        STAT(length, st.length); STAT(num_lines, st.num_lines); STAT(length_first, st.first); STAT(length_last, st.last);
        STAT(length_max, st.max); STAT(max_semi_run, st.semi);
#undef STAT
        if ((a.contains_text_delim != 0) != st.text_delim) return where + "contains_text_delim = " + std::to_string(a.contains_text_delim) + ", expected " + (st.text_delim ? "non-zero" : "0");
        if (st.tws_strict && !a.has_trailing_ws) return where + "has_trailing_ws = 0 although a space or tab precedes a line terminator";
        if (!st.tws_strict && !st.tws_loose && a.has_trailing_ws) return where + "has_trailing_ws = " + std::to_string(a.has_trailing_ws) + " although no blank precedes a line terminator or the end";
        unsigned dl = a.delim_length;
        if (dl > 3) return where + "delim_length = " + std::to_string(dl);
        ustr d; for (unsigned i = 0; i < dl; i++) d += (char16_t) a.delim[i];
        bool dok = a.delim[dl] == 0 && ((dl == 0) || (dl == 1 && (d == u"'" || d == u"\"")) || (dl == 2 && d == u"\n;") || (dl == 3 && (d == u"'''" || d == u"\"\"\"")));
        if (!dok) return where + "delim_length = " + std::to_string(dl) + " does not match delim[] = " + show(d);
        if (dl == 0 && !au) return where + "recommends whitespace-delimited form although allow_unquoted = 0";
        if (dl == 3 && !at) return where + "recommends triple quotes although allow_triple_quoted = 0";
        if (dl <= 1 && !single) return where + "recommends " + (dl ? "single-quote" : "whitespace") + " delimiters for a string of " + std::to_string(st.num_lines) + " lines";
        if (dl == 0 && st.length > L) return where + "recommends whitespace-delimited form for " + std::to_string(st.length) + " units, over the limit";
        if (dl == 1 && st.max + 2 > L) return where + "recommends " + u8(d) + " although length_max + 2 = " + std::to_string(st.max + 2) + " exceeds the limit";
        if (dl == 3 && single && st.length + 6 > L) return where + "recommends " + u8(d) + " although length + 6 = " + std::to_string(st.length + 6) + " exceeds the limit";
        if (dl == 3 && !single && (st.first + 3 > L || st.last + 3 > L || st.max > L)) return where + "recommends " + u8(d) + " although a line (first+3, last+3 or longest) exceeds the limit";
        if (dl == 0 && (s == u"?" || s == u".")) return where + "recommends whitespace-delimited form, which denotes the " + (s == u"?" ? "unknown" : "not-applicable") + " value, not this string";
        if (dl == 0 && !s.empty() && s[0] == u';') return where + "recommends whitespace-delimited form for a string beginning with a semicolon (cif.h: always a quoted form)";
        if (clean && single) {   // C: minimality
            if (au && bare_char_ok(s) && s[0] != u';' && st.length <= L - 2) {
                if (dl != 0) return where + "recommends " + show(d) + " although the string can be whitespace-delimited with room to spare";
            } else if ((!has_char(s, u'\'') || !has_char(s, u'"')) && st.length + 2 <= L - 2) {
                if (dl > 1) return where + "recommends " + show(d) + " although the string can be single-quoted with room to spare";
            }
        }
        Want *w = nullptr;
        for (auto &x : wants) if (x.delim == d) w = &x;
        if (!w) { wants.push_back(Want()); w = &wants.back(); w->delim = d; }
        if (L == blim) w->at_blim = true;
        if (dl == 2) {
            bool plain = !a.contains_text_delim && !a.has_reserved_start && a.length_max <= L
                         && st.first + 1 <= PARSER_LIMIT && st.max <= PARSER_LIMIT;   // my own guard: the opening ';' shares the first line
            if (plain) w->plain = true; else w->enc = true;
        }
    }
    for (int L : LIMITS) if (L - 7 <= st.max && st.max <= L + 1) label("near-limit-" + std::to_string(L));
    if (s.size() < 60) {
        std::string recs;
        for (auto &w : wants) recs += (recs.empty() ? "" : " | ") + (w.delim.empty() ? std::string("bare") : w.delim == u"\n;" ? std::string("text") : u8(w.delim));
        sample(show(s) + " -> " + recs);
    }

    // ---- B: parser agreement (only strings a CIF 2.0 document can contain, and no CR: the parser folds CR into LF)
    if (!clean || has_cr) return "";
    DocBuilder b;
    bool bare_probed = false;
    for (auto &w : wants) {
        const ustr &d = w.delim;
        if (d == u"\n;") {
            if (w.plain) { b.text_field(s, "plain text field (analysis: no text delimiter inside, no reserved start, no over-long line)"); label("probe:text-plain"); }
            if (w.enc) {
                cp::PrintOpts po; po.line_limit = PARSER_LIMIT; cp::PrintInfo pi; bool ok = true;
                cp::Tape tape; uint64_t h = fnv(ser_u16(s)); for (int i = 0; i < 64; i++) { h ^= h << 13; h ^= h >> 7; h ^= h << 17; tape.t.push_back((uint32_t) (h >> 11)); }
                ustr body = cp::encode_text_field(s, tape, po, pi, ok);
                auto overlong = [](const ustr &bd) {   // physical lines of the field (the first one carries the opening ';')
                    long cur = 1; for (char16_t ch : bd) { if (ch == u'\n') cur = 0; else if (++cur > PARSER_LIMIT) return true; } return false;
                };
                if (ok && overlong(body)) {   // my encoder's fold can overshoot by one when it extends a cut over a run of ';': not the library's business
                    label("probe:text-encoder-retry"); po.line_limit = PARSER_LIMIT - 8; tape.pos = 0;
                    body = cp::encode_text_field(s, tape, po, pi, ok);
                    if (ok && overlong(body)) ok = false;
                }
                if (ok) { b.text_field(body, "text field through my prefix/fold encoder"); label("probe:text-encoded"); }
                else label("probe:text-not-encodable");
            }
            label("rec:text");
            continue;
        }
        std::string what = d.empty() ? "whitespace-delimited" : u8(d) + "-delimited";
        label(d.empty() ? "rec:bare" : d == u"'" ? "rec:sq" : d == u"\"" ? "rec:dq" : d == u"'''" ? "rec:tsq" : "rec:tdq");
        if (d.empty()) bare_probed = true;
        b.line_start(d, s, d, st.first, what);
        if (w.at_blim) {
            if (single) { if (b.exact_fit(d, s, d, blim, what)) label("probe:exact-fit-" + std::to_string(blim)); }
            else if (6 + (long) d.size() + st.first <= PARSER_LIMIT) b.mid_line(d, s, d, what);
        }
    }
    // D: the parser reads the bare token as that unquoted string whenever the predicate holds
    if (bare_char_ok(s) && st.length + 6 <= PARSER_LIMIT) {
        if (s[0] == u';') { b.mid_line(ustr(), s, ustr(), "bare token (set_quoted predicate holds; leading semicolon)"); label("probe:bare-semicolon-midline"); }
        else if (!bare_probed) { b.line_start(ustr(), s, ustr(), st.first, "bare token (set_quoted predicate holds)"); label("probe:bare-not-recommended"); }
    }
    msg = run_probes(b, s);
    if (!msg.empty()) return msg;
    if (converse && !s.empty() && !has_ws(s) && !bare_char_ok(s) && st.length + 4 <= PARSER_LIMIT) { label("probe:converse"); msg = run_converse(s); }
    return msg;
}

static bool is_nontrivial(const ustr &s) {
    int kinds = 0; const char16_t sig[] = {u'\'', u'"', u';', u'\\', u'\n'};
    for (char16_t c : sig) if (has_char(s, c)) kinds++;
    if (kinds >= 2) return true;
    Stats st = naive_stats(s);
    for (int L : LIMITS) if (st.max >= L - 7 && st.max <= L + 1) return true;
    return false;
}

static std::string run_case(const CaseFile &c) {
    if (!c.kv.count("s")) return "bad case file (no s)";
    ustr s = deser_u16(c.get("s"));
    if (has_char(s, u'\0')) return "bad case file (NUL in s)";
    int blim = (int) c.geti("blim", 2048);
    CaseGuard guard;
    std::string msg = check_string(s, blim, c.geti("converse", 1) != 0);
    if (msg.empty()) msg = guard.check();
    return msg;
}

// ---------------------------------------------------------------------------------------------- exhaustive part
static const char16_t *SYM[] = {u"a", u"1", u" ", u"\t", u"\n", u"'", u"\"", u";", u"\\", u"#", u"_", u"$", u"[", u"]", u"{", u"}", u"?", u".", u":",
                                u"data_", u"save_", u"loop_", u"stop_", u"global_"};
static const int NSYM = 24;
static const char16_t *SUB[] = {u"a", u" ", u"\n", u"'", u"\"", u";", u"\\", u"_", u"]", u"."};
static const int NSUB = 10;

static bool one_case(const ustr &s, int blim, const char *genlabel) {
    CaseFile c; c.set("s", ser_u16(s)); c.seti("blim", blim);
    begin_case(c);
    label(genlabel);
    if (is_nontrivial(s)) nontrivial(fnv(c.get("s")));
    std::string m = run_case(c);
    if (!m.empty()) { record_fail(c, m); printf("MISMATCH %s\n", esc(m).c_str()); return false; }
    return true;
}

static bool exhaustive(long nworkers, long widx) {
    bool thorough = tier() == "thorough";
    long idx = 0, done = 0;
    auto level = [&](const char16_t **alpha, int k, int len, const char *lab) {
        long total = 1; for (int i = 0; i < len; i++) total *= k;
        for (long v = 0; v < total; v++, idx++) {
            if (idx % nworkers != widx) continue;
            ustr s; long r = v;
            for (int i = 0; i < len; i++) { s += alpha[r % k]; r /= k; }
            std::string kf = known_class(s);
            if (!kf.empty()) { count_excluded(kf); continue; }
            done++;
            if (!one_case(s, LIMITS[(idx / nworkers) % 4], lab)) return false;
        }
        return true;
    };
    for (int len = 0; len <= (thorough ? 4 : 3); len++) if (!level(SYM, NSYM, len, "gen:exhaustive")) return false;
    if (thorough && !level(SUB, NSUB, 5, "gen:exhaustive-len5")) return false;
    note("exhaustive_strings", done);
    return true;
}

// ---------------------------------------------------------------------------------------------- random part
static ustr mixcase(const ustr &w) { ustr o = w; for (auto &c : o) if (c >= 'a' && c <= 'z' && *g::chance(40)) c -= 32; return o; }
static ustr fix_pairs(ustr s) {   // a cut may have split a surrogate pair: replace stray halves
    for (size_t i = 0; i < s.size(); i++) {
        bool hi = s[i] >= 0xD800 && s[i] <= 0xDBFF, lo = s[i] >= 0xDC00 && s[i] <= 0xDFFF;
        if (hi && i + 1 < s.size() && s[i + 1] >= 0xDC00 && s[i + 1] <= 0xDFFF) { i++; continue; }
        if (hi || lo) s[i] = u'a';
    }
    return s;
}
// bring a single line to exactly T units: cut, or insert a run of filler at a generated position
static ustr to_length(ustr s, long T) {
    if (T < 0) T = 0;
    if ((long) s.size() > T) return fix_pairs(s.substr(0, (size_t) T));
    char16_t fill = *rc::gen::element<char16_t>(u'a', u'a', u'a', u'x', u'7', u';', u'.', u'\\', 0xE9);
    size_t at = (size_t) *g::range(0, (int) s.size());
    if (at < s.size() && s[at] >= 0xDC00 && s[at] <= 0xDFFF) at++;
    s.insert(at, ustr((size_t) (T - (long) s.size()), fill));
    return s;
}
static ustr insert_at(ustr s, const ustr &what, int where /*0 start 1 middle 2 end*/) {
    size_t at = where == 0 ? 0 : where == 2 ? s.size() : s.size() / 2;
    if (at < s.size() && s[at] >= 0xDC00 && s[at] <= 0xDFFF) at++;
    s.insert(at, what); return s;
}

static ustr gen_string(int &blim) {
    blim = LIMITS[*g::range(0, 3)];
    int fam = *rc::gen::weightedElement<int>({{10, 0}, {3, 1}, {9, 2}, {18, 3}, {12, 4}, {9, 5}, {6, 6}, {9, 7}, {8, 8}, {10, 9}, {6, 10}});
    switch (fam) {
    case 0: label("gen:text"); return *g::text(g::P_CIF2, 300);
    case 1: label("gen:text-6000"); return *g::text(g::P_CIF2, 6000);
    case 2: label("gen:line"); return *g::text(g::P_CIF2_LINE, 120);
    case 3: {   // single line with its length at limit-7 .. limit+1
        label("gen:boosted-line");
        int L = blim; long T = L + *g::range(-7, 1);
        int style = *g::range(0, 6);
        ustr base;
        switch (style) {
        case 0: base = *g::bare_text(g::P_CIF2, 30); break;                                   // stays bare-able
        case 1: base = insert_at(*g::bare_text(g::P_CIF2, 30), u" ", *g::range(0, 2)); break;  // needs quotes
        case 2: base = u"a'b"; break;
        case 3: base = u"a\"b"; break;
        case 4: base = *rc::gen::element<ustr>(u"'\"", u"a'\"b", u"\"'x", u"''\"\"", u"'''\"", u"\"\"\"'"); break;   // needs triple quotes or a text field
        case 5: base = *g::text(g::P_CIF2_LINE, 40); break;
        default: base = u"x"; break;
        }
        ustr s = to_length(base, T);
        if (style == 4 && *g::chance(30) && !s.empty()) s.back() = *g::chance(50) ? u'\'' : u'"';
        return s;
    }
    case 4: {   // ''' and """ at start / middle / end, trailing quote characters
        label("gen:triple-placement");
        ustr s = *g::text(*g::chance(70) ? g::P_CIF2_LINE : g::P_CIF2, 24);
        int n = *g::range(1, 3);
        for (int i = 0; i < n; i++) s = insert_at(s, *rc::gen::element<ustr>(u"'''", u"\"\"\"", u"''", u"\"\"", u"'", u"\"", u"'''", u"\"\"\""), *g::range(0, 2));
        if (*g::chance(35)) s += *rc::gen::element<ustr>(u"'", u"\"", u"''", u"\"\"");
        if (*g::chance(25) && !has_char(s, u'\n')) s = to_length(s, blim + *g::range(-9, 1));
        return s;
    }
    case 5: {   // reserved words in mixed case with and without suffix
        label("gen:reserved-word");
        ustr w = mixcase(*rc::gen::element<ustr>(u"data_", u"save_", u"loop_", u"stop_", u"global_", u"data_", u"save_", u"data", u"loop", u"global", u"stop", u"dat_", u"globa_"));
        ustr suf = *rc::gen::weightedOneOf<ustr>({{4, rc::gen::just(ustr())}, {3, rc::gen::element<ustr>(u"x", u"_", u"1", u"é", u"?", u"'", u";", u"[", u" ", u"\n")}, {2, g::text(g::P_CIF2_LINE, 6)}});
        ustr pre = *rc::gen::weightedElement<ustr>({{8, ustr()}, {1, u"x"}, {1, u" "}, {1, u";"}, {1, u"é"}});
        return pre + w + suf;
    }
    case 6: {   // runs of semicolons
        label("gen:semicolons");
        auto frag = rc::gen::element<ustr>(u";", u";;", u";;;;;;;", u"\n;", u"a", u"\n", u" ", u"'", u"\"", u"\\", u";\n");
        auto v = *rc::gen::container<std::vector<ustr>>(frag);
        ustr s; for (auto &f : v) s += f;
        if (*g::chance(25)) s = insert_at(s, ustr((size_t) (blim + *g::range(-3, 1)), u';'), *g::range(0, 2));
        return s;
    }
    case 7: {   // first line looks like a prefix / fold marker
        label("gen:protocol-like");
        ustr P = *rc::gen::weightedOneOf<ustr>({{3, rc::gen::just(ustr())}, {5, g::text(g::P_CIF2_LINE, 6)}, {3, rc::gen::element<ustr>(u";", u";'\"", u"'\"", u"> ", u"a\\b", u";a", u"\\")}});
        ustr s = P + *rc::gen::element<ustr>(u"\\", u"\\\\", u"\\", u"\\\\\\") + *rc::gen::element<ustr>(u"", u"", u" ", u"\t", u" \t ", u"x");
        if (*g::chance(50)) s = insert_at(s, u"'\"", 0);   // keeps single-line strings away from single quotes
        if (*g::chance(60)) s += u"\n" + *g::text(g::P_CIF2, 30);
        return s;
    }
    case 8: {   // multi-line, first and last lines near limit-3
        label("gen:multi-line-near-limit");
        int L = blim;
        ustr first = to_length(*g::text(g::P_CIF2_LINE, 8), L - 3 + *g::range(-3, 1));
        ustr last = to_length(*g::text(g::P_CIF2_LINE, 8), L - 3 + *g::range(-3, 1));
        ustr mid = *g::chance(50) ? ustr() : to_length(u"m", L + *g::range(-1, 1)) + u"\n";
        int which = *g::range(0, 2);   // which of the lines are long
        if (which == 1) first = *g::text(g::P_CIF2_LINE, 8); else if (which == 2) last = *g::text(g::P_CIF2_LINE, 8);
        return first + u"\n" + mid + last;
    }
    case 9: {   // statistics only: any UTF-16 with CR, CR LF, VT, trailing blanks
        label("gen:stats-any");
        auto frag = rc::gen::weightedOneOf<ustr>({{8, g::text(g::P_ANY, 12)}, {8, rc::gen::element<ustr>(u"\r", u"\r\n", u"\n", u"\x0B", u" \r\n", u"\t\r", u" \n", u"\x0B\n", u";", u"\r;", u"\r\n;", u"\n;", u" ", u"\n\r", u"\r\r\n", u";;;")}});
        auto v = *rc::gen::container<std::vector<ustr>>(frag);
        ustr s; for (auto &f : v) s += f;
        ustr o; for (char16_t ch : s) if (ch) o += ch;
        return o;
    }
    default: {  // short strings over the significant alphabet plus non-ASCII letters
        label("gen:short-significant");
        auto sym = rc::gen::element<ustr>(u"a", u"1", u" ", u"\t", u"\n", u"'", u"\"", u";", u"\\", u"#", u"_", u"$", u"[", u"]", u"{", u"}", u"?", u".", u":", u",", u"data_", u"save_", u"loop_",
                                          u"stop_", u"global_", u"é", u"\U0001D4B3", u"\u03b1", u"-", u"+", u"1.5(3)", u"e");
        int n = *g::range(0, 8);
        ustr s; for (int i = 0; i < n; i++) s += *sym;
        return s;
    }
    }
}

int main(int argc, char **argv) {
    long wq = 8, wt = 16;   // worker counts (stride of the exhaustive enumeration); bin/checks/C18.py passes them
    for (int i = 1; i + 1 < argc; i++) {
        if (std::string(argv[i]) == "--workers-quick") wq = atol(argv[i + 1]);
        if (std::string(argv[i]) == "--workers-thorough") wt = atol(argv[i + 1]);
    }
    Engine e;
    e.name = "C18_analyze";
    e.run = [wq, wt]() {
        { cif_tp *w = nullptr; if (cif_create(&w) == CIF_OK) (void) cif_destroy(w); }   // warm up lazy global initialisation
        long nw = std::max(1L, tier() == "thorough" ? wt : wq), widx = 0;
        { const std::string &id = worker_id(); size_t u = id.rfind('_'); widx = atol(id.substr(u == std::string::npos ? 0 : u + 1).c_str()); }
        if (widx < nw) { if (!exhaustive(nw, widx)) return false; }
        return rc::check("C18 string analysis and quoting rules agree with the parser", []() {
            int blim = 2048;
            ustr s = gen_string(blim);
            ustr o; for (char16_t ch : s) if (ch) o += ch;   // NUL-free
            s = o;
            s = dodge_known(s);
            CaseFile c; c.set("s", ser_u16(s)); c.seti("blim", blim);
            begin_case(c);
            if (is_nontrivial(s)) nontrivial(fnv(c.get("s")));
            std::string m = run_case(c);
            if (!m.empty()) { record_fail(c, m); RC_FAIL(m); }
        });
    };
    e.replay = run_case;
    e.classify = [](const CaseFile &c) { return c.kv.count("s") ? known_class(deser_u16(c.get("s"))) : std::string(); };
    return engine_main(argc, argv, e);
}
