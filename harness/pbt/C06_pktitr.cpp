// C06: packet iterators deliver each packet once; update/remove act on the packet most recently delivered; close commits,
// abort reverts; misuse is refused with CIF_MISUSE; afterwards the CIF is free for ordinary operations.
// A generated loop (1-5 items x 0-8 packets, optionally the scalar loop) and a generated script of iterator calls
// (including life-cycle violations) are run against the library and against a small iterator state-machine model.
#include "../common/docgen.hpp"
#include <sstream>
using namespace vh;
using cm::Container;
using cm::Doc;
using cm::Loop;
using cm::Value;

enum { A_NEXT_NEW, A_NEXT_REUSE, A_NEXT_NULL, A_UPDATE, A_UPDATE_FOREIGN, A_UPDATE_EMPTY, A_REMOVE, A_OTHER_FAIL, N_ACT };
static const char *ACT[] = {"next(new)", "next(reuse)", "next(NULL)", "update", "update(foreign)", "update(empty)", "remove", "failing-call-elsewhere"};
struct Step { int act; long a, b; std::string v1, v2; };

static std::string ser_steps(const std::vector<Step> &st) {
    std::string o;
    for (auto &s : st) o += std::to_string(s.act) + " " + std::to_string(s.a) + " " + std::to_string(s.b) + " |" + esc(s.v1) + " |" + esc(s.v2) + "\n";
    return o;
}
static std::vector<Step> parse_steps(const std::string &t) {
    std::vector<Step> out; std::istringstream in(t); std::string line;
    while (std::getline(in, line)) {
        if (line.empty()) continue;
        Step s{}; size_t b1 = line.find(" |"), b2 = b1 == std::string::npos ? b1 : line.find(" |", b1 + 2);
        std::istringstream hs(line.substr(0, b1)); hs >> s.act >> s.a >> s.b;
        if (b1 != std::string::npos) s.v1 = unesc(line.substr(b1 + 2, b2 == std::string::npos ? std::string::npos : b2 - b1 - 2));
        if (b2 != std::string::npos) s.v2 = unesc(line.substr(b2 + 2));
        out.push_back(s);
    }
    return out;
}
static Value pv(const std::string &s) { Value v; if (!cm::parse_value(s, v)) v = Value::unk(); return v; }
static std::string rowkey(const std::vector<Value> &r) { std::string k; for (auto &v : r) { k += cm::ser(v); k += "|"; } return k; }

#define FAILMSG(m) do { msg = (m); goto done; } while (0)

static std::string run_case(const CaseFile &c) {
    Doc d;
    if (!cm::parse_doc(c.get("doc"), d) || d.blocks.empty() || d.blocks[0].loops.empty()) return "bad case file";
    std::vector<Step> steps = parse_steps(c.get("script"));
    const bool do_abort = c.geti("abort") != 0, destroyed = c.geti("destroyed") != 0;
    Loop &ml = d.blocks[0].loops[0];          // the loop under test
    const bool scalar = ml.is_scalar();
    CaseGuard guard;
    std::string msg;
    cif_tp *cif = nullptr; cif_container_tp *blk = nullptr; cif_loop_tp *lh = nullptr, *lh2 = nullptr, *stale = nullptr; cif_pktitr_tp *it = nullptr;
    cif_packet_tp *reuse = nullptr, *fresh = nullptr;
    // model state
    std::vector<std::vector<Value>> snapshot = ml.rows, cur = ml.rows;
    std::vector<bool> delivered(cur.size(), false), removed(cur.size(), false);
    int current = -1;        // index of the packet most recently delivered, -1 none, -2 just removed
    bool finished = false, unknown_current = false;
    size_t consumed = 0;     // packets delivered so far (some, taken through a NULL packet pointer, are not identified)
    int n_ok_edit = 0, n_next = 0, n_misuse = 0, n_other_fail = 0;
    int rc, want = 0;
    {
    rc = cm::build(d, &cif);
    if (rc != CIF_OK) { count_excluded("unbuildable"); label("unbuildable"); goto done; }
    if (cif_get_block(cif, (const UChar *) d.blocks[0].code.c_str(), &blk) != CIF_OK) FAILMSG("cannot get block");
    if (cif_container_get_item_loop(blk, (const UChar *) ml.names[0].c_str(), &lh) != CIF_OK) FAILMSG("cannot get loop handle");
    if (destroyed) {
        if (cif_container_get_item_loop(blk, (const UChar *) ml.names[0].c_str(), &lh2) != CIF_OK) FAILMSG("cannot get second loop handle");
        if (cif_loop_destroy(lh2) != CIF_OK) { cif_loop_free(lh2); lh2 = nullptr; FAILMSG("loop_destroy failed"); }
        lh2 = nullptr;
        rc = cif_loop_get_packets(lh, &it);
        label("destroyed-loop");
        if (rc != CIF_INVALID_HANDLE) FAILMSG(std::string("get_packets on a loop that no longer exists returned ") + cm::code_name(rc) + ", documented: CIF_INVALID_HANDLE");
        nontrivial(fnv(c.get("doc") + "D"));
        goto done;
    }
    // a handle on a loop that no longer exists (a temporary loop created and destroyed again: the CIF is as before) -- the one use of
    // a stale handle that cif.h defines is cif_loop_get_packets(), which answers CIF_INVALID_HANDLE
    { UChar *sn[] = {(UChar *) u"_tmp_stale_item", nullptr}; cif_loop_tp *s1 = nullptr;
      if (cif_container_create_loop(blk, u"tmp_stale_cat", sn, &s1) != CIF_OK) FAILMSG("cannot create the temporary loop");
      if (cif_container_get_item_loop(blk, u"_tmp_stale_item", &stale) != CIF_OK) { cif_loop_free(s1); FAILMSG("cannot get a second handle on the temporary loop"); }
      if (cif_loop_destroy(s1) != CIF_OK) { cif_loop_free(s1); FAILMSG("cannot destroy the temporary loop"); } }
    rc = cif_loop_get_packets(lh, &it);
    if (cur.empty()) {
        label("empty-loop");
        if (rc != CIF_EMPTY_LOOP) FAILMSG(std::string("get_packets on a packet-less loop returned ") + cm::code_name(rc) + ", documented: CIF_EMPTY_LOOP");
        it = nullptr;
        goto followup;
    }
    if (rc != CIF_OK) FAILMSG(std::string("get_packets returned ") + cm::code_name(rc));
    if (scalar) label("scalar-loop");
    // a reusable packet that holds extra, foreign and stale items
    { UChar *xn[] = {(UChar *) u"_zz_extra", (UChar *) ml.names[0].c_str(), nullptr}; if (cif_packet_create(&reuse, xn) != CIF_OK) FAILMSG("packet_create");
      // the extra and the stale item own heap memory (text, digit strings, list members) that the iterator has to release when it drops / overwrites them
      cif_value_tp *xv = nullptr; if (cm::to_cif(pv("L[C1\"extra text\",N0\"1.50(3)\"]"), &xv) != CIF_OK) FAILMSG("extra value");
      if (cif_packet_set_item(reuse, u"_zz_extra", xv) != CIF_OK || cif_packet_set_item(reuse, (const UChar *) ml.names[0].c_str(), xv) != CIF_OK) { cif_value_free(xv); FAILMSG("packet_set_item"); }
      cif_value_free(xv); }
    for (size_t si = 0; si < steps.size(); si++) {
        const Step &s = steps[si];
        std::string at = "step#" + std::to_string(si + 1) + " " + ACT[s.act % N_ACT] + ": ";
        label(std::string("act:") + ACT[s.act % N_ACT]);
        switch (s.act % N_ACT) {
        case A_NEXT_NEW: case A_NEXT_REUSE: case A_NEXT_NULL: {
            cif_packet_tp **pp = nullptr; cif_packet_tp *got = nullptr;
            int kind = s.act % N_ACT;
            if (kind == A_NEXT_NEW) { cif_packet_free(fresh); fresh = nullptr; pp = &fresh; }
            else if (kind == A_NEXT_REUSE) pp = &reuse;
            rc = cif_pktitr_next_packet(it, pp);
            n_next++;
            bool all = consumed == cur.size();
            if (all) {
                if (rc != CIF_FINISHED) FAILMSG(at + "returned " + cm::code_name(rc) + " although every packet had been delivered (expected CIF_FINISHED)");
                if (finished) label("after-finished");
                finished = true;
                break;
            }
            if (rc != CIF_OK) FAILMSG(at + "returned " + cm::code_name(rc) + " with packets still undelivered");
            if (finished) FAILMSG(at + "delivered a packet after CIF_FINISHED");
            consumed++;
            got = pp ? *pp : nullptr;
            if (!got) {
                // cannot see which packet this was: remember that the current packet is unidentified
                unknown_current = true; current = -1;
                // exactly one undelivered packet was consumed; if only one is left we know which
                int left = -1, nleft = 0; for (size_t r = 0; r < cur.size(); r++) if (!delivered[r]) { left = (int) r; nleft++; }
                if (nleft == 1 && consumed == cur.size()) { delivered[left] = true; current = left; unknown_current = false; }
                break;
            }
            // names: exactly the loop's items; values: the stored ones
            const UChar **pn = nullptr; size_t cnt = 0;
            if (cif_packet_get_names(got, &pn) != CIF_OK) FAILMSG(at + "packet_get_names failed");
            for (const UChar **q = pn; *q; q++) cnt++;
            cm::ufree(pn);
            if (cnt != ml.names.size()) FAILMSG(at + "delivered packet has " + std::to_string(cnt) + " items, the loop has " + std::to_string(ml.names.size()));
            std::vector<Value> row;
            for (auto &n : ml.names) { cif_value_tp *v = nullptr; Value mv; if (cif_packet_get_item(got, (const UChar *) n.c_str(), &v) != CIF_OK || cm::from_cif(v, mv) != CIF_OK) FAILMSG(at + "delivered packet lacks a value for " + uesc(n)); row.push_back(mv); }
            int idx = -1;
            for (size_t r = 0; r < cur.size(); r++) if (!delivered[r] && !removed[r] && rowkey(cur[r]) == rowkey(row)) { idx = (int) r; break; }
            if (idx < 0) FAILMSG(at + "delivered a packet that is not an undelivered packet of the loop: " + rowkey(row));
            delivered[idx] = true; current = idx; unknown_current = false;
            break; }
        case A_UPDATE: case A_UPDATE_FOREIGN: case A_UPDATE_EMPTY: {
            int kind = s.act % N_ACT;
            if (unknown_current) { label("skipped:unknown-current"); break; }
            cif_packet_tp *up = nullptr;
            std::vector<size_t> cols; std::vector<Value> vals;
            if (kind != A_UPDATE_EMPTY) {
                size_t ncols = 1 + (size_t) s.a % ml.names.size();
                for (size_t j = 0; j < ncols; j++) { cols.push_back((size_t) (s.b + (long) j) % ml.names.size()); }
                std::sort(cols.begin(), cols.end()); cols.erase(std::unique(cols.begin(), cols.end()), cols.end());
                for (size_t j = 0; j < cols.size(); j++) vals.push_back(pv(j % 2 ? s.v2 : s.v1));
            }
            std::vector<ustr> pn; for (auto cidx : cols) pn.push_back(ml.names[cidx]);
            size_t fpos = 0;
            if (kind == A_UPDATE_FOREIGN) { fpos = (size_t) s.b % (pn.size() + 1);
                // the foreign name: an item of the other loop, a name in no loop, or (a third of the cases) a name in no loop that has the
                // length and all but the last character of one of the iterated loop's own names
                ustr foreign = d.blocks[0].loops.size() > 1 && s.a % 2 ? d.blocks[0].loops[1].names[0] : ustr(u"_not_in_any_loop");
                if (s.a % 3 == 0) { foreign = ml.names[(size_t) s.b % ml.names.size()]; foreign.back() = u'z'; label("foreign:near-miss-name"); }
                pn.insert(pn.begin() + fpos, foreign); vals.insert(vals.begin() + fpos, Value::chr(u"foreign")); label(fpos ? "foreign@later" : "foreign@first"); }
            std::vector<UChar *> np; for (auto &n : pn) np.push_back((UChar *) n.c_str()); np.push_back(nullptr);
            if (cif_packet_create(&up, np.data()) != CIF_OK) FAILMSG(at + "packet_create failed");
            for (size_t j = 0; j < pn.size(); j++) { cif_value_tp *v = nullptr; if (cm::to_cif(vals[j], &v) != CIF_OK) { vals[j] = Value::unk(); (void) cm::to_cif(vals[j], &v); } (void) cif_packet_set_item(up, (const UChar *) pn[j].c_str(), v); cif_value_free(v); }
            rc = cif_pktitr_update_packet(it, up);
            cif_packet_free(up);
            bool have = current >= 0;
            if (!have && !finished) { n_misuse++; label(current == -2 ? "update-after-remove" : "update-before-next"); if (rc != CIF_MISUSE) FAILMSG(at + "returned " + cm::code_name(rc) + " with no current packet (expected CIF_MISUSE)"); break; }
            if (finished) {   // an error per cif.h, the property only requires CIF_MISUSE when there is no delivered packet: follow what happened
                label("edit-after-finished");
                if (rc == CIF_MISUSE) break;
                if (!have) FAILMSG(at + "after CIF_FINISHED with no current packet returned " + cm::code_name(rc));
            }
            if (kind == A_UPDATE_FOREIGN) { if (rc != CIF_WRONG_LOOP) FAILMSG(at + "returned " + cm::code_name(rc) + " for a packet naming an item of another loop (expected CIF_WRONG_LOOP)"); break; }
            if (kind == A_UPDATE_EMPTY) { if (rc != CIF_OK && rc != CIF_INVALID_PACKET) FAILMSG(at + "returned " + cm::code_name(rc) + " for an empty packet"); break; }
            if (rc != CIF_OK) FAILMSG(at + "returned " + cm::code_name(rc));
            for (size_t j = 0; j < cols.size(); j++) cur[current][cols[j]] = vals[j];
            n_ok_edit++;
            break; }
        case A_OTHER_FAIL: {
            // while the iterator is open: a call on ANOTHER part of the same CIF that must fail.  It must fail with its documented code, leave
            // the CIF as it was, and neither disturb the open iterator nor the changes pending in it (checked by the rest of the script
            // and by the whole-block comparison after close / abort).
            bool other = d.blocks[0].loops.size() > 1;
            int kind = (int) (s.a % (other ? 6 : 3));
            if (scalar && s.b % 4 == 0) kind = 6;     // a second scalar loop for the block (the iterated loop is its scalar loop)
            else if (s.b % 5 == 1) kind = 7;          // an iterator requested through a handle on a loop that no longer exists
            cif_loop_tp *oh = nullptr;
            if (kind >= 3 && kind <= 5 && cif_container_get_item_loop(blk, u"_other1", &oh) != CIF_OK) FAILMSG(at + "cannot get a handle on the other loop");
            int want2 = 0; const char *what = "";
            if (kind == 0) { cif_container_tp *nb = nullptr; rc = cif_create_block(cif, (const UChar *) d.blocks[0].code.c_str(), &nb); if (nb) cif_container_free(nb); want = CIF_DUP_BLOCKCODE; what = "cif_create_block(existing code)"; }
            else if (kind == 1) { rc = cif_container_set_value(blk, u"no_underscore", nullptr); want = CIF_INVALID_ITEMNAME; what = "cif_container_set_value(invalid name)"; }
            else if (kind == 2) { UChar *nn[] = {(UChar *) u"_brand_new", (UChar *) ml.names[(size_t) s.b % ml.names.size()].c_str(), nullptr}; cif_loop_tp *nl = nullptr; rc = cif_container_create_loop(blk, u"newcat", nn, &nl); if (nl) cif_loop_free(nl); want = CIF_DUP_ITEMNAME; what = "cif_container_create_loop(a name already in the container, second position)"; }
            else if (kind == 3) { rc = cif_loop_add_item(oh, u"_other2", nullptr); want = CIF_DUP_ITEMNAME; what = "cif_loop_add_item(existing name)"; }
            else if (kind == 4) { cif_packet_tp *fp = nullptr; UChar *fn[] = {(UChar *) u"_other1", (UChar *) u"_nowhere", nullptr}; if (cif_packet_create(&fp, fn) != CIF_OK) { cif_loop_free(oh); FAILMSG(at + "packet_create"); } rc = cif_loop_add_packet(oh, fp); cif_packet_free(fp); want = CIF_WRONG_LOOP; what = "cif_loop_add_packet(packet naming a foreign item last)"; }
            else if (kind == 7) { cif_pktitr_tp *it2 = nullptr; rc = cif_loop_get_packets(stale, &it2); if (rc == CIF_OK) (void) cif_pktitr_abort(it2); want = CIF_INVALID_HANDLE; want2 = CIF_MISUSE; what = "cif_loop_get_packets(handle on a loop that no longer exists)"; }
            else if (kind == 6) { UChar *nn[] = {(UChar *) u"_second_scalar", nullptr}; cif_loop_tp *nl = nullptr; rc = cif_container_create_loop(blk, u"", nn, &nl); if (nl) cif_loop_free(nl); want = CIF_RESERVED_LOOP; what = "cif_container_create_loop(a second scalar loop)"; }
            else { cif_pktitr_tp *it2 = nullptr; rc = cif_loop_get_packets(oh, &it2); if (rc == CIF_OK) { label("second-iterator-granted"); (void) cif_pktitr_close(it2); } want = rc == CIF_OK ? CIF_OK : CIF_ERROR; want2 = CIF_MISUSE; what = "cif_loop_get_packets(another loop)"; }
            if (oh) cif_loop_free(oh);
            label(std::string("elsewhere:") + what);
            // functions that open a top-level transaction of their own cannot run inside the iterator's: they fail with the generic CIF_ERROR
            // before looking at their arguments -- accepted, what matters is that the call fails and leaves everything as it was
            if (rc == CIF_OK && want != CIF_OK) FAILMSG(at + what + " succeeded, expected " + cm::code_name(want));
            if (rc != want && rc != CIF_ERROR && !(want2 && rc == want2)) FAILMSG(at + what + " returned " + cm::code_name(rc) + ", expected " + cm::code_name(want) + " (or CIF_ERROR)");
            if (rc == CIF_ERROR && want != CIF_ERROR) label("elsewhere:refused-with-CIF_ERROR");
            if (rc != CIF_OK) n_other_fail++;
            break; }
        case A_REMOVE: {
            if (unknown_current) { label("skipped:unknown-current"); break; }
            rc = cif_pktitr_remove_packet(it);
            bool have = current >= 0;
            if (!have && !finished) { n_misuse++; label(current == -2 ? "remove-twice" : "remove-before-next"); if (rc != CIF_MISUSE) FAILMSG(at + "returned " + cm::code_name(rc) + " with no current packet (expected CIF_MISUSE)"); break; }
            if (finished) { label("edit-after-finished"); if (rc == CIF_MISUSE) break; if (!have) FAILMSG(at + "after CIF_FINISHED with no current packet returned " + cm::code_name(rc)); }
            if (rc != CIF_OK) FAILMSG(at + "returned " + cm::code_name(rc));
            removed[current] = true; current = -2; n_ok_edit++;
            break; }
        }
    }
    // end the iteration
    rc = do_abort ? cif_pktitr_abort(it) : cif_pktitr_close(it);
    it = nullptr;
    label(do_abort ? "end:abort" : "end:close");
    if (rc != CIF_OK) FAILMSG(std::string(do_abort ? "abort" : "close") + " returned " + cm::code_name(rc));
    {
        std::vector<std::vector<Value>> want;
        if (do_abort) want = snapshot; else for (size_t r = 0; r < cur.size(); r++) if (!removed[r]) want.push_back(cur[r]);
        Loop got; cif_loop_tp *l3 = nullptr;
        rc = cif_container_get_item_loop(blk, (const UChar *) ml.names[0].c_str(), &l3);
        if (rc != CIF_OK) FAILMSG(std::string("after the iteration the loop cannot be found: ") + cm::code_name(rc));
        rc = cm::dump_loop(l3, got); cif_loop_free(l3);
        if (rc != CIF_OK) FAILMSG(std::string("after the iteration the loop cannot be read: ") + cm::code_name(rc));
        Loop wl = ml; wl.rows = want;
        // compare as canonical text of a one-loop container
        Container ca, cb; ca.loops.push_back(wl); cb.loops.push_back(got);
        Doc da, db; da.blocks.push_back(ca); db.blocks.push_back(cb);
        if (cm::ser(da, cm::EXACT, true) != cm::ser(db, cm::EXACT, true))
            FAILMSG(std::string("after ") + (do_abort ? "abort the loop differs from its content at iterator creation" : "close the loop differs from the edited content") + "\n--- expected\n" + cm::ser(da, cm::EXACT, true) + "--- got\n" + cm::ser(db, cm::EXACT, true));
        // the rest of the block (the other loop, no stray items or loops) is what it was
        {
            Doc whole; int drc = cm::dump(cif, whole);
            if (drc != CIF_OK) FAILMSG(std::string("after the iteration the CIF cannot be dumped: ") + cm::code_name(drc));
            Doc model = d; model.blocks[0].loops[0].rows = want;
            if (want.empty() && scalar) {}   // a scalar loop without packets may or may not be listed: compared above already
            else if (cm::ser(model, cm::EXACT, true) != cm::ser(whole, cm::EXACT, true))
                FAILMSG(std::string("after ") + (do_abort ? "abort" : "close") + " the CIF as a whole differs from the model (a call that failed while the iterator was open left something behind?)\n--- expected\n" + cm::ser(model, cm::EXACT, true) + "--- got\n" + cm::ser(whole, cm::EXACT, true));
        }
        if (n_other_fail && n_ok_edit) label("failing-call-elsewhere-with-pending-edits");
        if (do_abort && n_ok_edit) label("abort-after-edit");
        if (!do_abort && want.empty()) label("close-after-remove-all");
        cur = want;
    }
followup:
    // the CIF is free for ordinary operations again
    {
        cif_container_tp *b2 = nullptr;
        rc = cif_create_block(cif, u"followup", &b2);
        if (rc != CIF_OK) FAILMSG(std::string("after the iteration cif_create_block returned ") + cm::code_name(rc));
        rc = cif_container_set_value(b2, u"_f", nullptr); cif_container_free(b2);
        if (rc != CIF_OK) FAILMSG(std::string("after the iteration cif_container_set_value returned ") + cm::code_name(rc));
        // scalar loop capacity: a packet can be added iff the loop now holds none
        // (an ordinary loop takes further packets whatever was removed through the iterator: two of them, so that a packet counter reset
        // by the removal would collide with a surviving packet's number at the latest on the second)
        for (int round = 0; round < (scalar ? 1 : 2); round++) {
            cif_packet_tp *p = nullptr; std::vector<UChar *> np; for (auto &n : ml.names) np.push_back((UChar *) n.c_str()); np.push_back(nullptr);
            if (cif_packet_create(&p, np.data()) != CIF_OK) FAILMSG("packet_create");
            rc = cif_loop_add_packet(lh, p); cif_packet_free(p);
            int want = (!scalar || cur.empty()) ? CIF_OK : CIF_RESERVED_LOOP;
            if (rc != want) FAILMSG(std::string("afterwards adding a packet to the ") + (scalar ? "scalar " : "") + "loop (holding " + std::to_string(cur.size()) + " packet(s)) returned " + cm::code_name(rc) + ", expected " + cm::code_name(want));
            if (rc == CIF_OK) cur.push_back(std::vector<Value>(ml.names.size(), Value::unk()));
        }
        if (d.blocks[0].loops.size() > 1) {
            // ... and so does the block's other loop, which the iterator never touched (its packet numbering must not have been disturbed)
            cif_loop_tp *oh = nullptr; cif_packet_tp *p = nullptr; UChar *on[] = {(UChar *) u"_other1", (UChar *) u"_other2", nullptr};
            if (cif_container_get_item_loop(blk, u"_other1", &oh) != CIF_OK || cif_packet_create(&p, on) != CIF_OK) { if (oh) cif_loop_free(oh); FAILMSG("follow-up on the other loop: cannot prepare"); }
            for (int round = 0; round < 2; round++) {
                rc = cif_loop_add_packet(oh, p);
                if (rc != CIF_OK) { cif_packet_free(p); cif_loop_free(oh); FAILMSG(std::string("afterwards adding a packet to the block's OTHER loop returned ") + cm::code_name(rc)); }
            }
            cif_packet_free(p);
            Loop got; rc = cm::dump_loop(oh, got); cif_loop_free(oh);
            if (rc != CIF_OK || got.rows.size() != d.blocks[0].loops[1].rows.size() + 2) FAILMSG("afterwards the block's other loop holds " + std::to_string(got.rows.size()) + " packets, expected " + std::to_string(d.blocks[0].loops[1].rows.size() + 2));
        }
        cif_pktitr_tp *it2 = nullptr;
        rc = cif_loop_get_packets(lh, &it2);
        if (rc != (cur.empty() ? CIF_EMPTY_LOOP : CIF_OK)) FAILMSG(std::string("a second get_packets returned ") + cm::code_name(rc));
        if (it2) { size_t n = 0; int r2; while ((r2 = cif_pktitr_next_packet(it2, nullptr)) == CIF_OK) n++; (void) cif_pktitr_close(it2); if (r2 != CIF_FINISHED || n != cur.size()) FAILMSG("a second iteration delivered " + std::to_string(n) + " packets, the loop holds " + std::to_string(cur.size())); }
    }
    if (!finished && !cur.empty() && n_next == 0) label("closed-without-next");
    if ((n_ok_edit >= 1 && n_next >= 2) || n_misuse >= 1 || (n_other_fail && n_ok_edit)) nontrivial(fnv(c.get("doc") + c.get("script") + (do_abort ? "A" : "C")));
    }
done:
    if (it) (void) cif_pktitr_abort(it);
    cif_packet_free(reuse); cif_packet_free(fresh);
    if (lh) cif_loop_free(lh);
    if (stale) cif_loop_free(stale);
    if (blk) cif_container_free(blk);
    if (cif) { int drc = cif_destroy(cif); if (drc != CIF_OK && msg.empty()) msg = "cif_destroy failed"; }
    if (msg.empty()) msg = guard.check();
    return msg;
}

int main(int argc, char **argv) {
    Engine e;
    e.name = "C06_pktitr";
    e.run = []() {
        { cif_tp *w = nullptr; if (cif_create(&w) == CIF_OK) (void) cif_destroy(w); }
        return rc::check("C06 packet iterators", []() {
            g::ValueOpts vo; vo.prof = g::P_CIF2; vo.maxlen = 5; vo.maxdepth = 1; vo.maxmembers = 2;
            auto val = rc::gen::resize(8, g::value(vo, 0));
            Doc d; Container b; b.code = u"blk";
            Loop l; bool scalar = *g::chance(25);
            l.has_cat = scalar || *g::chance(50); l.cat = scalar ? ustr() : ustr(u"cat");
            int ncols = *g::range(1, 5), nrows = scalar ? *g::range(0, 1) : *rc::gen::weightedElement<int>({{1, 0}, {2, 1}, {3, 2}, {3, 3}, {2, 5}, {1, 8}});
            // item names: lower case, or (40%) spelled with capitals -- the stored original spelling then differs from the normalised name
            int spell = *rc::gen::weightedElement<int>({{6, 0}, {2, 1}, {2, 2}});
            for (int i = 0; i < ncols; i++) l.names.push_back(u16((spell == 0 || (spell == 2 && i % 2) ? "_c" : "_C") + std::to_string(i)));
            bool dups = *g::chance(15);
            for (int r = 0; r < nrows; r++) { std::vector<Value> row; for (int i = 0; i < ncols; i++) row.push_back(dups ? Value::chr(u"same") : *val); l.rows.push_back(row); }
            b.loops.push_back(l);
            bool other = *g::chance(60);
            if (other) { Loop o; o.has_cat = false; o.names = {u"_other1", u"_other2"}; int orows = *g::range(1, 3); for (int r = 0; r < orows; r++) o.rows.push_back({Value::chr(u16("o" + std::to_string(r))), r ? Value::chr(u"p") : Value::unk()}); b.loops.push_back(o); }
            d.blocks.push_back(b);
            // a second data block whose loops reuse item names of the first block in loops with the same per-container numbering: an
            // edit made through the iterator must not reach into it, nor into the first block's other loop by way of it
            if (*g::chance(50)) {
                Container b2; b2.code = u"two";
                Loop x; x.has_cat = false; x.names = {other ? ustr(u"_other1") : ustr(u"_c0"), u"_x2"}; for (int r = 0; r < 3; r++) x.rows.push_back({Value::chr(u16("t" + std::to_string(r))), Value::na()});
                b2.loops.push_back(x);
                if (*g::chance(50)) { Loop y; y.has_cat = false; y.names = {u"_c0", u"_y2"}; for (int r = 0; r < 2; r++) y.rows.push_back({Value::chr(u16("u" + std::to_string(r))), Value::unk()}); if (x.names[0] != u"_c0") b2.loops.push_back(y); }
                d.blocks.push_back(b2);
            }
            int nsteps = *g::sized(0, 25);
            std::vector<Step> steps;
            for (int i = 0; i < nsteps; i++) {
                Step s{};
                s.act = *rc::gen::weightedElement<int>({{8, A_NEXT_NEW}, {4, A_NEXT_REUSE}, {1, A_NEXT_NULL}, {5, A_UPDATE}, {2, A_UPDATE_FOREIGN}, {1, A_UPDATE_EMPTY}, {4, A_REMOVE}, {3, A_OTHER_FAIL}});
                s.a = *g::range(0, 99); s.b = *g::range(0, 99); s.v1 = cm::ser(*val); s.v2 = cm::ser(*val);
                steps.push_back(s);
            }
            CaseFile c; c.set("doc", cm::ser_plain(d)); c.set("script", ser_steps(steps)); c.seti("abort", *g::range(0, 1)); c.seti("destroyed", *g::chance(4) ? 1 : 0);
            VH_BEGIN(c);
            if (steps.size() <= 6) { std::string s = std::to_string(ncols) + "x" + std::to_string(nrows) + (scalar ? " scalar: " : ": "); for (auto &st : steps) { s += ACT[st.act]; s += " "; } s += c.geti("abort") ? "abort" : "close"; sample(s); }
            std::string m = run_case(c);
            if (!m.empty()) { record_fail(c, m); RC_FAIL(m); }
        });
    };
    e.replay = run_case;
    e.classify = [](const CaseFile &) { return std::string(); };
    return engine_main(argc, argv, e);
}
