// C19: value objects are independent deep values; lists, tables and packets keep their contracts.
// MODEL-BASED STATEFUL check.  rapidcheck generates a plain vector of abstract operations; the history is stored as
// text in the case file and INTERPRETED against (a) the real objects and (b) a C++ model written from cif.h.  Pool
// indices are resolved modulo the current pool sizes at interpretation time, so dropping ops keeps a history valid.
// After EVERY op: the returned code must be the one cif.h prescribes and EVERY live root value, packet and borrowed
// member reference is read back structurally (cm::from_cif -> cm::ser) and compared with the model.  This continuous
// comparison is what checks "modifying or freeing either leaves the other intact".  CaseGuard + ASan check ownership.
#include "../common/gens.hpp"
#include <algorithm>
#include <cstring>
#include <set>
using namespace vh;
using cm::Value;

// ------------------------------------------------------------------------------------------- operations
struct Op { int code = 0; std::vector<long> a; std::vector<ustr> s; };
enum { O_CREATE, O_TREE, O_INIT, O_INITCHAR, O_COPYCHAR, O_PARSENUMB, O_INITNUMB, O_AUTONUMB, O_SETQ, O_CLEAN, O_CLONE, O_FREE, O_COUNT,
       O_LGET, O_LSET, O_LINS, O_LREM, O_LAPPEND, O_TSET, O_TGET, O_TREM, O_TKEYS,
       O_PCREATE, O_PSET, O_PGET, O_PREM, O_PNAMES, O_PFREE, O_NOPS };
static const char *OPN[O_NOPS] = {"create", "create_tree", "init", "init_char", "copy_char", "parse_numb", "init_numb", "autoinit_numb", "set_quoted", "clean",
                                  "clone", "free", "get_element_count", "list_get", "list_set", "list_insert", "list_remove", "list_append",
                                  "table_set", "table_get", "table_remove", "table_keys",
                                  "packet_create", "packet_set", "packet_get", "packet_remove", "packet_names", "packet_free"};
// arguments (a = integers, s = strings); "sel" selects a root or a borrowed member reference modulo the pool size
//  create a=[kind]                 create_tree s=[cm::ser(value)]      init a=[sel,kind]        init_char/copy_char/parse_numb a=[sel] s=[text]
//  init_numb a=[sel,val#,su#,scale,mlz]   autoinit_numb a=[sel,val#,su#,rule]   set_quoted a=[sel,quoted]   clean a=[sel]
//  clone a=[sel,into(0=NULL,k=root k-1)]  free a=[root]  get_element_count a=[sel]
//  list_get a=[sel,ixcode]  list_set/list_insert a=[sel,ixcode,elem]  list_remove a=[sel,ixcode,want_out]  list_append a=[sel,k,elem]
//  table_set a=[sel,elem,kmode] s=[key]  table_get a=[sel,want_ptr,kmode] s=[key]  table_remove a=[sel,want_out,kmode] s=[key]  table_keys a=[sel]
//  packet_create a=[null_array] s=[names...]  packet_set a=[pkt,elem,kmode] s=[name]  packet_get a=[pkt,want_ptr,kmode] s=[name]
//  packet_remove a=[pkt,want_out,kmode] s=[name]  packet_names a=[pkt]  packet_free a=[pkt]
//  elem: 0 = NULL (means UNK), 1 = THE MEMBER CURRENTLY IN THAT SLOT (aliasing case), k>=2 = pool value k-2
//  sel >= 100: prefer a value whose kind suits the operation.  kmode: 0 = the literal key/name; 2j+1 = the stored spelling of existing entry j; 2j+2 = an equivalent re-spelling of it
//  ixcode: 0 -> 0, 1 -> size/2, 2 -> size-1, 3 -> size, 4 -> size+3, 5 -> SIZE_MAX

static std::string ser_ops(const std::vector<Op> &ops) {
    std::string o;
    for (auto &op : ops) {
        o += OPN[op.code]; o += '\t';
        for (size_t i = 0; i < op.a.size(); i++) { if (i) o += ','; o += std::to_string(op.a[i]); }
        for (auto &s : op.s) { o += '\t'; o += ser_u16(s); }
        o += '\n';
    }
    return o;
}
static bool parse_ops(const std::string &t, std::vector<Op> &out) {
    size_t p = 0;
    while (p < t.size()) {
        size_t e = t.find('\n', p); if (e == std::string::npos) e = t.size();
        std::string line = t.substr(p, e - p); p = e + 1;
        if (line.empty()) continue;
        std::vector<std::string> f; size_t q = 0;
        for (;;) { size_t x = line.find('\t', q); if (x == std::string::npos) { f.push_back(line.substr(q)); break; } f.push_back(line.substr(q, x - q)); q = x + 1; }
        Op op; op.code = -1;
        for (int i = 0; i < O_NOPS; i++) if (f[0] == OPN[i]) op.code = i;
        if (op.code < 0) return false;
        if (f.size() > 1) { const char *c = f[1].c_str(); while (*c) { char *end; long v = strtol(c, &end, 10); if (end == c) return false; op.a.push_back(v); c = (*end == ',') ? end + 1 : end; } }
        for (size_t i = 2; i < f.size(); i++) op.s.push_back(deser_u16(f[i]));
        out.push_back(op);
    }
    return true;
}
static std::string show(const Op &op) {
    std::string o = OPN[op.code]; o += "(";
    for (size_t i = 0; i < op.a.size(); i++) { if (i) o += ","; o += std::to_string(op.a[i]); }
    for (auto &s : op.s) { o += " \""; o += uesc(s); o += "\""; }
    return o + ")";
}
static long A(const Op &op, size_t i) { long v = i < op.a.size() ? op.a[i] : 0; return v < 0 ? -(v + 1) : v; }
static ustr S(const Op &op, size_t i) { return i < op.s.size() ? op.s[i] : ustr(); }

// ------------------------------------------------------------------------------------------- predicates written from cif.h / the CIF 2.0 spec
// characters that no CIF may contain (clear-cut classes only; C1 controls are not generated at all, see finding F-C1CTRL of C09)
static bool has_disallowed(const ustr &s) {
    for (size_t i = 0; i < s.size(); i++) {
        char16_t c = s[i];
        if ((c < 0x20 && c != 9 && c != 10 && c != 13) || c == 0x7F || (c >= 0xFDD0 && c <= 0xFDEF) || c == 0xFFFE || c == 0xFFFF) return true;
        if (c >= 0xD800 && c <= 0xDBFF) { if (i + 1 >= s.size() || s[i + 1] < 0xDC00 || s[i + 1] > 0xDFFF) return true; i++; }
        else if (c >= 0xDC00 && c <= 0xDFFF) return true;
    }
    return false;
}
static bool key_valid(const ustr &k) { return !has_disallowed(k); }     // any CIF text, incl. empty and whitespace
static bool name_valid(const ustr &n) {
    if (n.size() < 2 || n[0] != u'_' || n.size() > 2048 || has_disallowed(n)) return false;
    for (char16_t c : n) if (c <= 0x20) return false;
    return true;
}
// CIF number: [+-] ( D+ [. D*] | . D+ ) [ (e|E) [+-] D+ ] [ ( D+ ) ]   -- whole string
static bool valid_number(const ustr &t) {
    size_t p = 0, n = t.size();
    auto dig = [&](size_t &q) { size_t s0 = q; while (q < n && t[q] >= u'0' && t[q] <= u'9') q++; return q - s0; };
    if (p < n && (t[p] == u'+' || t[p] == u'-')) p++;
    size_t i = dig(p), f = 0;
    if (p < n && t[p] == u'.') { p++; f = dig(p); }
    if (i + f == 0) return false;
    if (p < n && (t[p] == u'e' || t[p] == u'E')) { p++; if (p < n && (t[p] == u'+' || t[p] == u'-')) p++; if (!dig(p)) return false; }
    if (p < n && t[p] == u'(') { p++; if (!dig(p)) return false; if (p >= n || t[p] != u')') return false; p++; }
    return p == n;
}
static const double NUM_VALS[] = {0.0, 1.5, -2.25, 100.0, 0.001, 12345.678, -0.5};
static const double NUM_SUS[] = {0.0, 0.1, 0.02, 3.0};
static const unsigned NUM_RULES[] = {9, 19, 27, 99};

// ------------------------------------------------------------------------------------------- the machine
struct Step { bool key = false; size_t idx = 0; ustr k; };    // k: NFC form for table keys, norm_name form for packet names
typedef std::vector<Step> Path;
struct Ref { int owner = -1; Path path; };
static bool step_eq(const Step &a, const Step &b) { return a.key == b.key && (a.key ? a.k == b.k : a.idx == b.idx); }
static bool is_prefix(const Path &p, const Path &q) {   // p is a prefix of q (or equal)
    if (p.size() > q.size()) return false;
    for (size_t i = 0; i < p.size(); i++) if (!step_eq(p[i], q[i])) return false;
    return true;
}
static bool related(const Ref &a, const Ref &b) { return a.owner == b.owner && (is_prefix(a.path, b.path) || is_prefix(b.path, a.path)); }
static Path plus(const Path &p, const Step &s) { Path q = p; q.push_back(s); return q; }
static Step ixstep(size_t i) { Step s; s.idx = i; return s; }
static Step keystep(const ustr &k) { Step s; s.key = true; s.k = k; return s; }

struct Root { int id; cif_value_tp *real; Value m; };
struct PItem { ustr name; Value m; bool aliased; };   // aliased: entered by cif_packet_create in a spelling equal to its normalised form
struct Pkt { int id; cif_packet_tp *real; std::vector<PItem> items; };
struct Borrow { Ref ref; cif_value_tp *real; };
struct CopyRec { Ref src, dst; };
struct Tgt { bool ok = false; bool borrow = false; Ref ref; cif_value_tp *real = nullptr; };
struct Elem { cif_value_tp *real = nullptr; bool has = false; bool same_slot = false; Ref ref; Value m; };

static const size_t MAXROOTS = 8, MAXPKTS = 4, MAXBORROWS = 6, MAXLIST = 30, MAXTABLE = 14, MAXITEMS = 8, MAXNODES = 400, MAXELEM = 150;

static const char *F_PKTKEY = "F-PKTKEY-UAF";
// another spelling of the same table key (canonically equivalent) / of the same data name (equivalent under normalisation + case folding)
static ustr respell_key(const ustr &k) { ustr d = cm::nfd(k), c = cm::nfc(k); return k != d ? d : k != c ? c : k; }
static ustr respell_name(const ustr &n) {
    ustr d = cm::nfd(n); if (d != n) return d;
    ustr o = n; bool ch = false;
    for (auto &c : o) if (c >= u'a' && c <= u'z') { c = (char16_t) (c - 32); ch = true; }
    if (!ch) for (auto &c : o) if (c >= u'A' && c <= u'Z') c = (char16_t) (c + 32);
    return o;
}

struct Machine {
    std::vector<Root> roots; std::vector<Pkt> pkts; std::vector<Borrow> borrows; std::vector<CopyRec> copies;
    std::set<int> removed_ids;     // roots that came out of a list/table/packet through a remove call
    int next_id = 1;
    bool nt = false;               // the history is non-trivial under the C19 rule
    std::string allow;             // known findings this (witness) case is allowed to exercise

    Root *root_by_id(int id) { for (auto &r : roots) if (r.id == id) return &r; return nullptr; }
    Pkt *pkt_by_id(int id) { for (auto &p : pkts) if (p.id == id) return &p; return nullptr; }
    bool allowed(const char *id) const { return allow.find(id) != std::string::npos; }

    Value *resolve(const Ref &r) {
        Value *v = nullptr; size_t i = 0;
        if (Root *ro = root_by_id(r.owner)) v = &ro->m;
        else if (Pkt *p = pkt_by_id(r.owner)) {
            if (r.path.empty() || !r.path[0].key) return nullptr;
            for (auto &it : p->items) if (cm::norm_name(it.name) == r.path[0].k) v = &it.m;
            i = 1;
        }
        for (; v && i < r.path.size(); i++) {
            const Step &s = r.path[i];
            if (s.key) { if (v->k != Value::TABLE) return nullptr; Value *n = nullptr; for (auto &e : v->entries) if (cm::nfc(e.first) == s.k) n = &e.second; v = n; }
            else { if (v->k != Value::LIST || s.idx >= v->elems.size()) return nullptr; v = &v->elems[s.idx]; }
        }
        return v;
    }
    size_t owner_nodes(int owner) {
        if (Root *r = root_by_id(owner)) return r->m.nodes();
        size_t n = 0; if (Pkt *p = pkt_by_id(owner)) for (auto &it : p->items) n += it.m.nodes();
        return n;
    }

    // ---- events -------------------------------------------------------------------------------------------
    // the value at loc was re-initialised in place (its members were released; the object itself lives on), or, with
    // gone=true, was removed from its container / freed: references into it must never be touched again
    void ev_invalidate(int owner, const Path &loc, bool gone) {
        auto dead = [&](const Ref &r) { return r.owner == owner && is_prefix(loc, r.path) && (gone || r.path.size() > loc.size()); };
        borrows.erase(std::remove_if(borrows.begin(), borrows.end(), [&](const Borrow &b) { return dead(b.ref); }), borrows.end());
        for (size_t i = 0; i < copies.size();) { if (dead(copies[i].src) || dead(copies[i].dst)) { nt = true; copies.erase(copies.begin() + i); } else i++; }
    }
    static void shift_ref(Ref &r, int owner, const Path &list, size_t from, long delta) {
        if (r.owner == owner && r.path.size() > list.size() && is_prefix(list, r.path) && !r.path[list.size()].key && r.path[list.size()].idx >= from)
            r.path[list.size()].idx = (size_t) ((long) r.path[list.size()].idx + delta);
    }
    void ev_shift(int owner, const Path &list, size_t from, long delta) {
        for (auto &b : borrows) shift_ref(b.ref, owner, list, from, delta);
        for (auto &c : copies) { shift_ref(c.src, owner, list, from, delta); shift_ref(c.dst, owner, list, from, delta); }
    }
    void ev_mutation(const Ref &loc) {   // bookkeeping for the non-triviality rule only
        for (auto &c : copies) if (related(loc, c.src) || related(loc, c.dst)) nt = true;
        if (removed_ids.count(loc.owner)) nt = true;
    }
    void add_copy(const Ref &src, const Ref &dst) { if (copies.size() >= 32) copies.erase(copies.begin()); copies.push_back({src, dst}); }
    void add_borrow(const Ref &r, cif_value_tp *p) { if (borrows.size() >= MAXBORROWS) borrows.erase(borrows.begin()); borrows.push_back({r, p}); }
    void add_removed(cif_value_tp *out, const Value &m) {
        if (roots.size() < MAXROOTS) { roots.push_back({next_id, out, m}); removed_ids.insert(next_id); next_id++; label("removed->root"); }
        else { cif_value_free(out); nt = true; label("removed->freed"); }
    }

    // ---- selection ------------------------------------------------------------------------------------------
    // sel < 100: any root or borrowed member reference; sel >= 100: prefer one whose kind suits the operation (mask of Value kinds), if there is one.
    // Borrowed references are listed twice so that they are picked about as often as roots.
    Tgt target(long sel, unsigned mask = 0) {
        std::vector<Tgt> cand;
        for (auto &r : roots) { Tgt t; t.ok = true; t.ref.owner = r.id; t.real = r.real; cand.push_back(t); }
        for (int rep = 0; rep < 2; rep++) for (auto &b : borrows) { Tgt t; t.ok = true; t.borrow = true; t.ref = b.ref; t.real = b.real; cand.push_back(t); }
        if (sel >= 100 && mask) {
            std::vector<Tgt> fit;
            for (auto &t : cand) { Value *m = resolve(t.ref); if (m && (mask & (1u << m->k))) fit.push_back(t); }
            if (!fit.empty()) cand.swap(fit);
        }
        if (cand.empty()) return Tgt();
        return cand[(size_t) (sel % 100) % cand.size()];
    }
    // the value handed to a copy-in call.  cont: the container receiving it; slot: the member being REPLACED (nullptr when a
    // new member is added); slot_ptr: the library's pointer to that member (for the aliasing case).  Not generated (cif.h
    // does not define them): the container itself or one of its ancestors; a value inside the member being replaced.
    Elem element(long es, const Ref &cont, const Path *slot, cif_value_tp *slot_ptr) {
        Elem e;
        if (es == 0) return e;
        if (es == 1) {
            if (!slot || !slot_ptr) return e;
            e.ref.owner = cont.owner; e.ref.path = *slot;
            Value *m = resolve(e.ref); if (!m) return Elem();
            e.real = slot_ptr; e.has = true; e.same_slot = true; e.m = *m;
            return e;
        }
        Tgt t = target(es - 2);
        if (!t.ok) return e;
        if (t.ref.owner == cont.owner) {
            if (is_prefix(t.ref.path, cont.path)) return e;
            if (slot && is_prefix(*slot, t.ref.path)) { if (t.ref.path.size() != slot->size()) return e; e.same_slot = true; }
        }
        Value *m = resolve(t.ref); if (!m) return Elem();
        if (!e.same_slot && (m->nodes() > MAXELEM || owner_nodes(cont.owner) + m->nodes() > MAXNODES)) return Elem();   // size caps (nothing is copied in the aliasing case)
        e.real = t.real; e.has = true; e.ref = t.ref; e.m = *m;
        return e;
    }
    static size_t index_of(long ic, size_t size) {
        switch (ic % 6) { case 0: return 0; case 1: return size / 2; case 2: return size ? size - 1 : 0; case 3: return size; case 4: return size + 3; default: return (size_t) -1; }
    }

    // ---- helpers --------------------------------------------------------------------------------------------
    static std::string unexpected(int rc, const std::string &want) { return std::string("returned ") + cm::code_name(rc) + ", cif.h prescribes " + want; }
    static void repin_locale() {   // cif_value_init_numb leaves LC_NUMERIC at "C" (finding F-LOCALE, property C16): keep it out of this property's way
        const char *l = setlocale(LC_NUMERIC, nullptr);
        if (!l || std::string(l) != "C.utf8") { harness_init_globals(); note("lc_numeric_changed_by_number_formatting(F-LOCALE,C16)", 1); }
    }
    // NUMB values produced by number formatting: only the kind and the quoted flag are checked here (C10 checks the text);
    // the text is read back to keep the model in step
    static std::string sync_numb(Value &m, cif_value_tp *real) {
        repin_locale();
        if (cif_value_kind(real) != CIF_NUMB_KIND) return "value is not of kind NUMB after a successful number initialisation";
        UChar *t = nullptr; int rc = cif_value_get_text(real, &t);
        if (rc != CIF_OK || !t) { cm::ufree(t); return "cif_value_get_text failed on a NUMB value"; }
        m = Value::num(cm::take(t), false);
        if (cif_value_is_quoted(real) != CIF_NOT_QUOTED) return "a freshly formatted number is marked quoted";
        return "";
    }
    static std::string set_default(Value &m, int kind, cif_value_tp *real) {
        switch (kind) {
        case CIF_CHAR_KIND: m = Value::chr(u"", true); return "";
        case CIF_NUMB_KIND: return sync_numb(m, real);
        case CIF_LIST_KIND: m = Value::list(); return "";
        case CIF_TABLE_KIND: m = Value::table(); return "";
        case CIF_NA_KIND: m = Value::na(); return "";
        default: m = Value::unk(); return "";
        }
    }
    static void grew(size_t newsize) { if (newsize == 5 || newsize == 9 || newsize == 13 || newsize == 19 || newsize == 28) label("list-capacity-step:" + std::to_string(newsize)); }
    static void skipped(const char *why) { label(std::string("op-skipped:") + why); }
    void reinit_at(const Tgt &t) { ev_mutation(t.ref); ev_invalidate(t.ref.owner, t.ref.path, false); }

    // ---- one operation ------------------------------------------------------------------------------------
    std::string step(const Op &op) {
        label(std::string("op:") + OPN[op.code]);
        { long nl = 0, ntb = 0; for (auto &r : roots) { if (r.m.k == Value::LIST) nl++; if (r.m.k == Value::TABLE) ntb++; }
          note("poolsum_roots", (long) roots.size()); note("poolsum_list_roots", nl); note("poolsum_table_roots", ntb); note("poolsum_borrows", (long) borrows.size()); note("poolsum_packets", (long) pkts.size()); note("ops_interpreted", 1); }
        int rc = -1;
        std::string err = step2(op, rc);
        if (rc >= 0) label(std::string("rc:") + cm::code_name(rc));
        return err;
    }
    std::string step2(const Op &op, int &rc) {
        switch (op.code) {
        case O_CREATE: {
            if (roots.size() >= MAXROOTS) { skipped("pool-full"); return ""; }
            int kind = (int) (A(op, 0) % 6); cif_value_tp *v = nullptr;
            rc = cif_value_create((cif_kind_tp) kind, &v);
            if (rc != CIF_OK || !v) return unexpected(rc, "CIF_OK");
            roots.push_back({next_id++, v, Value()});
            return set_default(roots.back().m, kind, v); }
        case O_TREE: {
            if (roots.size() >= MAXROOTS) { skipped("pool-full"); return ""; }
            Value m; if (!cm::parse_value(u8(S(op, 0)), m)) return "bad case file (create_tree value)";
            cif_value_tp *v = nullptr;
            rc = cm::to_cif(m, &v);
            if (rc != CIF_OK) return unexpected(rc, "CIF_OK (while building a value tree through the public API)");
            roots.push_back({next_id++, v, m});
            return ""; }
        case O_INIT: case O_INITCHAR: case O_COPYCHAR: case O_PARSENUMB: case O_INITNUMB: case O_AUTONUMB: case O_SETQ: case O_CLEAN: case O_COUNT: {
            // (re)initialisers are mostly aimed at scalars so that the pool does not degenerate to scalars only
            unsigned mask = op.code == O_COUNT ? (1u << Value::LIST | 1u << Value::TABLE) : (1u << Value::CHAR | 1u << Value::NUMB | 1u << Value::UNK | 1u << Value::NA);
            Tgt t = target(A(op, 0), mask); if (!t.ok) { skipped("no-target"); return ""; }
            Value *m = resolve(t.ref); if (!m) return "internal: dangling reference in the model";
            label(t.borrow ? "target:borrowed-member" : "target:root");
            return scalar_op(op, t, *m, rc); }
        case O_CLONE: {
            Tgt src = target(A(op, 0)); if (!src.ok) { skipped("no-target"); return ""; }
            Value *sm = resolve(src.ref); if (!sm) return "internal: dangling reference in the model";
            Value copy = *sm;
            long into = A(op, 1);
            Root *dst = (into && !roots.empty()) ? &roots[(size_t) (into - 1) % roots.size()] : nullptr;
            if (dst && dst->id == src.ref.owner) dst = nullptr;      // cloning a value onto itself / onto its own container is not defined
            if (!dst) {
                if (roots.size() >= MAXROOTS) { skipped("pool-full"); return ""; }
                cif_value_tp *cl = nullptr;
                rc = cif_value_clone(src.real, &cl);
                if (rc != CIF_OK || !cl) return unexpected(rc, "CIF_OK");
                if (cl == src.real) return "cif_value_clone(into NULL) returned the original object";
                roots.push_back({next_id++, cl, copy});
                add_copy(src.ref, Ref{roots.back().id, {}});
                label("clone:into-new");
            } else {
                cif_value_tp *cl = dst->real;
                rc = cif_value_clone(src.real, &cl);
                if (rc != CIF_OK) return unexpected(rc, "CIF_OK");
                if (cl != dst->real) return "cif_value_clone(into an existing object) changed the object pointer";
                Ref dr; dr.owner = dst->id;
                ev_mutation(dr); ev_invalidate(dst->id, {}, false);
                dst->m = copy;
                add_copy(src.ref, dr);
                label("clone:into-existing");
            }
            return ""; }
        case O_FREE: {
            cif_value_free(nullptr);                       // documented safe no-op
            if (roots.empty()) { skipped("no-target"); return ""; }
            size_t i = (size_t) A(op, 0) % roots.size();
            Ref r; r.owner = roots[i].id;
            ev_mutation(r); ev_invalidate(r.owner, {}, true);
            cif_value_free(roots[i].real);
            removed_ids.erase(roots[i].id);
            roots.erase(roots.begin() + i);
            return ""; }
        case O_LGET: case O_LSET: case O_LINS: case O_LREM: case O_LAPPEND: {
            Tgt t = target(A(op, 0), 1u << Value::LIST); if (!t.ok) { skipped("no-target"); return ""; }
            Value *m = resolve(t.ref); if (!m) return "internal: dangling reference in the model";
            label(t.borrow ? "target:borrowed-member" : "target:root");
            return list_op(op, t, rc); }
        case O_TSET: case O_TGET: case O_TREM: case O_TKEYS: {
            Tgt t = target(A(op, 0), 1u << Value::TABLE); if (!t.ok) { skipped("no-target"); return ""; }
            Value *m = resolve(t.ref); if (!m) return "internal: dangling reference in the model";
            label(t.borrow ? "target:borrowed-member" : "target:root");
            return table_op(op, t, rc); }
        default: return packet_op(op, rc);
        }
    }

    std::string scalar_op(const Op &op, const Tgt &t, Value &m, int &rc) {
        switch (op.code) {
        case O_INIT: {
            int kind = (int) (A(op, 1) % 6);
            rc = cif_value_init(t.real, (cif_kind_tp) kind);
            if (rc != CIF_OK) return unexpected(rc, "CIF_OK");
            reinit_at(t);
            return set_default(m, kind, t.real); }
        case O_INITCHAR: {
            ustr text = S(op, 0); UChar *u = cm::udup(text);
            rc = cif_value_init_char(t.real, u);              // takes ownership of u
            if (rc != CIF_OK) { cm::ufree(u); return unexpected(rc, "CIF_OK"); }
            reinit_at(t); m = Value::chr(text, true);
            return ""; }
        case O_COPYCHAR: {
            ustr text = S(op, 0); UChar *u = cm::udup(text);  // a private buffer that is released right after the call
            rc = cif_value_copy_char(t.real, u);
            if (u) { for (size_t i = 0; i < text.size(); i++) u[i] = u'#'; } cm::ufree(u);   // "does not become sensitive to change via the text pointer"
            if (rc != CIF_OK) return unexpected(rc, "CIF_OK");
            reinit_at(t); m = Value::chr(text, true);
            return ""; }
        case O_PARSENUMB: {
            ustr text = S(op, 0); UChar *u = cm::udup(text); bool valid = valid_number(text);
            rc = cif_value_parse_numb(t.real, u);             // takes ownership on success only
            if (rc != CIF_OK) cm::ufree(u);
            if (valid) { if (rc != CIF_OK) return unexpected(rc, "CIF_OK"); reinit_at(t); m = Value::num(text, false); }
            else if (rc != CIF_INVALID_NUMBER) return unexpected(rc, "CIF_INVALID_NUMBER");   // model unchanged: "otherwise, the value object is not modified"
            return ""; }
        case O_INITNUMB: {
            double v = NUM_VALS[A(op, 1) % 7], su = NUM_SUS[A(op, 2) % 4]; int scale = (int) (A(op, 3) % 5), mlz = (int) (A(op, 4) % 6);
            rc = cif_value_init_numb(t.real, v, su, scale, mlz);
            if (rc != CIF_OK) { repin_locale(); return unexpected(rc, "CIF_OK"); }
            reinit_at(t);
            return sync_numb(m, t.real); }
        case O_AUTONUMB: {
            double v = NUM_VALS[A(op, 1) % 7], su = NUM_SUS[A(op, 2) % 4]; unsigned rule = NUM_RULES[A(op, 3) % 4];
            rc = cif_value_autoinit_numb(t.real, v, su, rule);
            if (rc != CIF_OK) { repin_locale(); return unexpected(rc, "CIF_OK"); }
            reinit_at(t);
            return sync_numb(m, t.real); }
        case O_CLEAN:
            cif_value_clean(t.real);
            reinit_at(t); m = Value::unk();
            return "";
        case O_COUNT: {
            size_t n = 987654321;
            rc = cif_value_get_element_count(t.real, &n);
            if (m.k == Value::LIST || m.k == Value::TABLE) {
                size_t want = m.k == Value::LIST ? m.elems.size() : m.entries.size();
                if (rc != CIF_OK) return unexpected(rc, "CIF_OK");
                if (n != want) return "element count " + std::to_string(n) + ", the model has " + std::to_string(want);
            } else { if (rc != CIF_ARGUMENT_ERROR) return unexpected(rc, "CIF_ARGUMENT_ERROR (not a list or table)"); label("wrong-kind-call"); }
            return ""; }
        case O_SETQ: {
            bool q = A(op, 1) & 1; Value after = m; int want = CIF_OK, alt = -1; int mode = 0;   // mode 1: ';' leniency, 2: UNK/NA coercion leniency
            switch (m.k) {
            case Value::CHAR:
                if (q) after.quoted = true;
                else if (!m.quoted) {}
                else if (m.text.empty()) want = CIF_ARGUMENT_ERROR;
                else if (m.text == u"?") after = Value::unk();
                else if (m.text == u".") after = Value::na();
                else if (m.text[0] == u';') { bool rest = g::can_be_bare2(m.text); if (rest) { alt = CIF_ARGUMENT_ERROR; mode = 1; } else want = CIF_ARGUMENT_ERROR; }
                else if (g::can_be_bare2(m.text)) after.quoted = false;
                else want = CIF_ARGUMENT_ERROR;
                break;
            case Value::NUMB: after.quoted = q; break;
            case Value::UNK: if (q) { after = Value::chr(u"?", true); mode = 2; } break;
            case Value::NA: if (q) { after = Value::chr(u".", true); mode = 2; } break;
            default: if (q) want = CIF_ARGUMENT_ERROR; break;
            }
            rc = cif_value_set_quoted(t.real, q ? CIF_QUOTED : CIF_NOT_QUOTED);
            if (rc != want && rc != alt) return unexpected(rc, cm::code_name(want));
            if (rc != CIF_OK) { label("set_quoted:refused"); return ""; }
            if (mode == 1) after.quoted = false;                                   // accepted: then it must read back unquoted
            if (mode == 2 && cif_value_kind(t.real) != CIF_CHAR_KIND) return "";   // cif.h only says the function "may coerce" UNK/NA to CHAR: staying put is accepted
            ev_mutation(t.ref);
            m = after;
            return ""; }
        }
        return "internal: bad scalar op";
    }

    std::string list_op(const Op &op, const Tgt &t, int &rc) {
        Value *m = resolve(t.ref);
        bool islist = m->k == Value::LIST; size_t size = islist ? m->elems.size() : 0;
        if (!islist) label("wrong-kind-call");
        if (op.code == O_LAPPEND) {
            size_t k = 1 + (size_t) A(op, 1) % 16; long es = A(op, 2); if (es == 1) es = 0;
            if (!islist) {
                Elem el = element(es, t.ref, nullptr, nullptr);
                rc = cif_value_insert_element_at(t.real, 0, el.real);
                return rc == CIF_ARGUMENT_ERROR ? "" : unexpected(rc, "CIF_ARGUMENT_ERROR (not a list)");
            }
            if (size >= MAXLIST) { skipped("size-cap"); return ""; }
            for (size_t j = 0; j < k && size < MAXLIST; j++) {
                Elem el = element(es, t.ref, nullptr, nullptr);
                rc = cif_value_insert_element_at(t.real, size, el.real);
                if (rc != CIF_OK) return unexpected(rc, "CIF_OK (append at index == size)");
                m = resolve(t.ref);
                Ref slot{t.ref.owner, plus(t.ref.path, ixstep(size))};
                m->elems.push_back(el.has ? el.m : Value::unk());
                ev_mutation(slot);
                if (el.has) add_copy(el.ref, slot);
                size++; grew(size);
            }
            return "";
        }
        size_t idx = index_of(A(op, 1), size);
        Path slotp = plus(t.ref.path, ixstep(idx)); Ref slot{t.ref.owner, slotp};
        bool inrange = islist && idx < size;
        cif_value_tp *slot_ptr = nullptr;
        if ((op.code == O_LSET || op.code == O_LINS) && inrange && A(op, 2) == 1) {
            int r0 = cif_value_get_element_at(t.real, idx, &slot_ptr);
            if (r0 != CIF_OK || !slot_ptr) return "cif_value_get_element_at " + unexpected(r0, "CIF_OK");
        }
        switch (op.code) {
        case O_LGET: {
            cif_value_tp *e = nullptr;
            rc = cif_value_get_element_at(t.real, idx, &e);
            int want = !islist ? CIF_ARGUMENT_ERROR : inrange ? CIF_OK : CIF_INVALID_INDEX;
            if (rc != want) return unexpected(rc, cm::code_name(want));
            if (rc == CIF_OK) { if (!e) return "no element pointer delivered"; add_borrow(slot, e); }
            return ""; }
        case O_LSET: {
            Elem el = element(A(op, 2), t.ref, inrange ? &slotp : nullptr, slot_ptr);
            rc = cif_value_set_element_at(t.real, idx, el.real);
            int want = !islist ? CIF_ARGUMENT_ERROR : inrange ? CIF_OK : CIF_INVALID_INDEX;
            if (rc != want) return unexpected(rc, cm::code_name(want));
            if (rc != CIF_OK) return "";
            if (el.same_slot) { nt = true; label("alias:list_set(own member)"); return ""; }   // "succeeds without changing anything"
            ev_mutation(slot); ev_invalidate(slot.owner, slotp, false);
            m = resolve(t.ref); m->elems[idx] = el.has ? el.m : Value::unk();
            if (el.has) add_copy(el.ref, slot);
            return ""; }
        case O_LINS: {
            if (size >= MAXLIST) { skipped("size-cap"); return ""; }
            Elem el = element(A(op, 2), t.ref, nullptr, nullptr);
            if (slot_ptr) { Value *sm = resolve(slot); if (sm && sm->nodes() <= MAXELEM && owner_nodes(slot.owner) + sm->nodes() <= MAXNODES) { el.real = slot_ptr; el.has = true; el.ref = slot; el.m = *sm; } }
            rc = cif_value_insert_element_at(t.real, idx, el.real);
            int want = !islist ? CIF_ARGUMENT_ERROR : idx <= size ? CIF_OK : CIF_INVALID_INDEX;
            if (rc != want) return unexpected(rc, cm::code_name(want));
            if (rc != CIF_OK) return "";
            ev_shift(slot.owner, t.ref.path, idx, +1);
            if (el.has) shift_ref(el.ref, slot.owner, t.ref.path, idx, +1);
            m = resolve(t.ref); m->elems.insert(m->elems.begin() + idx, el.has ? el.m : Value::unk());
            ev_mutation(slot);
            if (el.has) add_copy(el.ref, slot);
            grew(size + 1);
            return ""; }
        case O_LREM: {
            bool want_out = A(op, 2) & 1; cif_value_tp *out = nullptr;
            rc = cif_value_remove_element_at(t.real, idx, want_out ? &out : nullptr);
            int want = !islist ? CIF_ARGUMENT_ERROR : inrange ? CIF_OK : CIF_INVALID_INDEX;
            if (rc != want) return unexpected(rc, cm::code_name(want));
            if (rc != CIF_OK) return "";
            Value removed = m->elems[idx];
            ev_mutation(slot); ev_invalidate(slot.owner, slotp, true); ev_shift(slot.owner, t.ref.path, idx + 1, -1);
            m = resolve(t.ref); m->elems.erase(m->elems.begin() + idx);
            if (want_out) { if (!out) return "no removed element delivered"; add_removed(out, removed); }
            return ""; }
        }
        return "internal: bad list op";
    }

    std::string table_op(const Op &op, const Tgt &t, int &rc) {
        Value *m = resolve(t.ref);
        bool istable = m->k == Value::TABLE;
        if (!istable) label("wrong-kind-call");
        if (op.code == O_TKEYS) {
            const UChar **keys = nullptr;
            rc = cif_value_get_keys(t.real, &keys);
            if (!istable) return rc == CIF_ARGUMENT_ERROR ? "" : unexpected(rc, "CIF_ARGUMENT_ERROR (not a table)");
            if (rc != CIF_OK || !keys) return unexpected(rc, "CIF_OK");
            std::vector<ustr> got, want;
            for (const UChar **k = keys; *k; k++) got.push_back(ustr((const char16_t *) *k));
            cm::ufree(keys);
            for (auto &e : m->entries) want.push_back(e.first);
            std::sort(got.begin(), got.end()); std::sort(want.begin(), want.end());
            if (got != want) return "cif_value_get_keys does not report the keys in the spelling most recently entered";
            return "";
        }
        ustr key = S(op, 0);
        if (long km = A(op, 2)) if (istable && !m->entries.empty()) {      // aim at an existing entry: its stored spelling (odd) or an equivalent one (even)
            key = m->entries[(size_t) ((km - 1) / 2) % m->entries.size()].first;
            if (km % 2 == 0) key = respell_key(key);
        }
        ustr nk = cm::nfc(key); bool valid = key_valid(key);
        if (!valid) label("key:invalid"); else if (key != nk) label("key:not-NFC");
        int ei = -1;
        if (istable && valid) for (size_t i = 0; i < m->entries.size(); i++) if (cm::nfc(m->entries[i].first) == nk) ei = (int) i;
        bool exists = ei >= 0;
        if (exists && m->entries[ei].first != key) label("key:respelled-equivalent");
        Path slotp = plus(t.ref.path, keystep(nk)); Ref slot{t.ref.owner, slotp};
        switch (op.code) {
        case O_TSET: {
            cif_value_tp *slot_ptr = nullptr;
            if (exists && A(op, 1) == 1) {
                int r0 = cif_value_get_item_by_key(t.real, (const UChar *) key.c_str(), &slot_ptr);
                if (r0 != CIF_OK || !slot_ptr) return "cif_value_get_item_by_key " + unexpected(r0, "CIF_OK");
            }
            if (istable && valid && !exists && m->entries.size() >= MAXTABLE) { skipped("size-cap"); return ""; }
            Elem el = element(A(op, 1), t.ref, exists ? &slotp : nullptr, slot_ptr);
            rc = cif_value_set_item_by_key(t.real, (const UChar *) key.c_str(), el.real);
            int want = !istable ? CIF_ARGUMENT_ERROR : !valid ? CIF_INVALID_INDEX : CIF_OK;
            if (rc != want) return unexpected(rc, cm::code_name(want));
            if (rc != CIF_OK) return "";
            m = resolve(t.ref);
            if (exists && el.same_slot) {
                nt = true; label("alias:table_set(own value)");
                // "succeeds without changing anything" vs "the form of the key most recently used to enter a value": either spelling is accepted
                if (m->entries[ei].first != key) {
                    const UChar **keys = nullptr; int r1 = cif_value_get_keys(t.real, &keys);
                    if (r1 != CIF_OK || !keys) return "cif_value_get_keys " + unexpected(r1, "CIF_OK");
                    for (const UChar **k = keys; *k; k++) if (ustr((const char16_t *) *k) == key) m->entries[ei].first = key;
                    cm::ufree(keys);
                }
                return "";
            }
            if (exists) {
                ev_mutation(slot); ev_invalidate(slot.owner, slotp, false);
                m->entries[ei].first = key; m->entries[ei].second = el.has ? el.m : Value::unk();
            } else {
                m->entries.push_back({key, el.has ? el.m : Value::unk()});
                ev_mutation(slot);
            }
            if (el.has) add_copy(el.ref, slot);
            return ""; }
        case O_TGET: {
            bool want_ptr = A(op, 1) & 1; cif_value_tp *p = nullptr;
            rc = cif_value_get_item_by_key(t.real, (const UChar *) key.c_str(), want_ptr ? &p : nullptr);
            int want = !istable ? CIF_ARGUMENT_ERROR : exists ? CIF_OK : CIF_NOSUCH_ITEM;
            if (rc != want) return unexpected(rc, cm::code_name(want));
            if (rc == CIF_OK && want_ptr) { if (!p) return "no value pointer delivered"; add_borrow(slot, p); }
            return ""; }
        case O_TREM: {
            bool want_out = A(op, 1) & 1; cif_value_tp *out = nullptr;
            rc = cif_value_remove_item_by_key(t.real, (const UChar *) key.c_str(), want_out ? &out : nullptr);
            int want = !istable ? CIF_ARGUMENT_ERROR : exists ? CIF_OK : CIF_NOSUCH_ITEM;
            if (rc != want) return unexpected(rc, cm::code_name(want));
            if (rc != CIF_OK) return "";
            Value removed = m->entries[ei].second;
            ev_mutation(slot); ev_invalidate(slot.owner, slotp, true);
            m = resolve(t.ref); m->entries.erase(m->entries.begin() + ei);
            if (want_out) { if (!out) return "no removed value delivered"; add_removed(out, removed); }
            return ""; }
        }
        return "internal: bad table op";
    }

    std::string packet_op(const Op &op, int &rc) {
        if (op.code == O_PCREATE) {
            if (pkts.size() >= MAXPKTS) { skipped("pool-full"); return ""; }
            std::vector<ustr> names = op.s; bool all_valid = true;
            for (size_t i = 0; i < names.size(); i++) {
                if (!name_valid(names[i])) { all_valid = false; continue; }
                for (size_t j = 0; j < i; j++) if (name_valid(names[j]) && cm::norm_name(names[i]) == cm::norm_name(names[j])) { skipped("size-cap"); return ""; }   // duplicates: cif.h is silent, not generated
            }
            std::vector<UChar *> arr; for (auto &n : names) arr.push_back((UChar *) &n[0]);
            arr.push_back(nullptr);
            cif_packet_tp *p = nullptr;
            rc = cif_packet_create(&p, (names.empty() && (A(op, 0) & 1)) ? nullptr : arr.data());
            if (!all_valid) { return rc == CIF_INVALID_ITEMNAME ? "" : unexpected(rc, "CIF_INVALID_ITEMNAME"); }
            if (rc != CIF_OK || !p) return unexpected(rc, "CIF_OK");
            Pkt k; k.id = next_id++; k.real = p;
            for (auto &n : names) k.items.push_back({n, Value::unk(), n == cm::norm_name(n)});
            pkts.push_back(k);
            return "";
        }
        if (op.code == O_PFREE) cif_packet_free(nullptr);   // documented safe no-op
        if (pkts.empty()) { skipped("no-target"); return ""; }
        Pkt &p = pkts[(size_t) A(op, 0) % pkts.size()];
        if (op.code == O_PFREE) {
            ev_invalidate(p.id, {}, true);
            cif_packet_free(p.real);
            pkts.erase(pkts.begin() + ((size_t) A(op, 0) % pkts.size()));
            return "";
        }
        if (op.code == O_PNAMES) { const UChar **names = nullptr; rc = cif_packet_get_names(p.real, &names); cm::ufree(names); return rc == CIF_OK ? "" : unexpected(rc, "CIF_OK"); }   // content: verify()
        ustr name = S(op, 0);
        if (long km = A(op, 2)) if (!p.items.empty()) {                    // aim at an existing item: its stored spelling (odd) or an equivalent one (even)
            name = p.items[(size_t) ((km - 1) / 2) % p.items.size()].name;
            if (km % 2 == 0) name = respell_name(name);
        }
        bool valid = name_valid(name); ustr nn = valid ? cm::norm_name(name) : ustr();
        if (!valid) label("name:invalid");
        int ii = -1;
        if (valid) for (size_t i = 0; i < p.items.size(); i++) if (cm::norm_name(p.items[i].name) == nn) ii = (int) i;
        bool exists = ii >= 0;
        // known finding F-PKTKEY-UAF: cif_packet_set_item with a different spelling of a name that cif_packet_create received in
        // already-normalised form frees the hash key of that entry (map.c:182).  Excluded by construction: the stored spelling is used.
        // (fixed in /repo: the case is searched like any other)
        if (exists && p.items[ii].name != name) label("name:respelled-equivalent");
        Ref cont; cont.owner = p.id;
        Path slotp; slotp.push_back(keystep(nn)); Ref slot{p.id, slotp};
        switch (op.code) {
        case O_PSET: {
            cif_value_tp *slot_ptr = nullptr;
            if (exists && A(op, 1) == 1) {
                int r0 = cif_packet_get_item(p.real, (const UChar *) name.c_str(), &slot_ptr);
                if (r0 != CIF_OK || !slot_ptr) return "cif_packet_get_item " + unexpected(r0, "CIF_OK");
            }
            if (valid && !exists && p.items.size() >= MAXITEMS) { skipped("size-cap"); return ""; }
            Elem el = element(A(op, 1), cont, exists ? &slotp : nullptr, slot_ptr);
            rc = cif_packet_set_item(p.real, (const UChar *) name.c_str(), el.real);
            int want = valid ? CIF_OK : CIF_INVALID_ITEMNAME;
            if (rc != want) return unexpected(rc, cm::code_name(want));
            if (rc != CIF_OK) return "";
            if (exists && el.same_slot) { nt = true; label("alias:packet_set(own value)"); return ""; }
            if (exists) {
                ev_mutation(slot); ev_invalidate(p.id, slotp, false);
                p.items[ii].name = name; p.items[ii].m = el.has ? el.m : Value::unk();
            } else {
                p.items.push_back({name, el.has ? el.m : Value::unk(), false});
                ev_mutation(slot);
            }
            if (el.has) add_copy(el.ref, slot);
            return ""; }
        case O_PGET: {
            bool want_ptr = A(op, 1) & 1; cif_value_tp *v = nullptr;
            rc = cif_packet_get_item(p.real, (const UChar *) name.c_str(), want_ptr ? &v : nullptr);
            int want = exists ? CIF_OK : CIF_NOSUCH_ITEM;
            if (rc != want) return unexpected(rc, cm::code_name(want));
            if (rc == CIF_OK && want_ptr) { if (!v) return "no value pointer delivered"; add_borrow(slot, v); }
            return ""; }
        case O_PREM: {
            bool want_out = A(op, 1) & 1; cif_value_tp *out = nullptr;
            rc = cif_packet_remove_item(p.real, (const UChar *) name.c_str(), want_out ? &out : nullptr);
            int want = exists ? CIF_OK : CIF_NOSUCH_ITEM;
            if (rc != want) return unexpected(rc, cm::code_name(want));
            if (rc != CIF_OK) return "";
            Value removed = p.items[ii].m;
            ev_mutation(slot); ev_invalidate(p.id, slotp, true);
            p.items.erase(p.items.begin() + ii);
            if (want_out) { if (!out) return "no removed value delivered"; add_removed(out, removed); }
            return ""; }
        }
        return "internal: bad packet op";
    }

    // ---- read everything back -------------------------------------------------------------------------------
    static std::string cmp(cif_value_tp *real, const Value &m, const std::string &what) {
        Value r; int rc = cm::from_cif(real, r);
        if (rc != CIF_OK) return what + ": reading the value back failed with " + cm::code_name(rc);
        std::string a = cm::ser(r), b = cm::ser(m);
        if (a != b) return what + " differs from the model: real " + a + "   model " + b;
        return cm::numbers_consistent(real, what);
    }
    std::string verify() {
        std::string e;
        for (size_t i = 0; i < roots.size(); i++) { e = cmp(roots[i].real, roots[i].m, "root value #" + std::to_string(i)); if (!e.empty()) return e; }
        for (size_t i = 0; i < pkts.size(); i++) {
            Pkt &p = pkts[i]; std::string what = "packet #" + std::to_string(i);
            const UChar **names = nullptr; int rc = cif_packet_get_names(p.real, &names);
            if (rc != CIF_OK || !names) return what + ": cif_packet_get_names " + unexpected(rc, "CIF_OK");
            size_t n = 0; while (names[n]) n++;
            std::string got, want;
            // spelling of the reported names (as given vs normalised) is not pinned down by cif.h: compared under name equivalence; order is
            for (size_t j = 0; j < n; j++) { got += uesc(cm::norm_name(ustr((const char16_t *) names[j]))); got += " "; }
            for (auto &it : p.items) { want += uesc(cm::norm_name(it.name)); want += " "; }
            cm::ufree(names);
            if (got != want) return what + ": names [" + got + "] but the model has [" + want + "] (creation order, then appended)";
            for (auto &it : p.items) {
                cif_value_tp *v = nullptr; rc = cif_packet_get_item(p.real, (const UChar *) it.name.c_str(), &v);
                if (rc != CIF_OK || !v) return what + ": cif_packet_get_item(" + uesc(it.name) + ") " + unexpected(rc, "CIF_OK");
                e = cmp(v, it.m, what + " item " + uesc(it.name)); if (!e.empty()) return e;
            }
        }
        for (size_t i = 0; i < borrows.size(); i++) {
            Value *m = resolve(borrows[i].ref);
            if (!m) return "internal: dangling borrowed reference in the model";
            e = cmp(borrows[i].real, *m, "borrowed member reference #" + std::to_string(i)); if (!e.empty()) return e;
        }
        return "";
    }
    void release_all() {
        for (auto &r : roots) cif_value_free(r.real);
        for (auto &p : pkts) cif_packet_free(p.real);
        roots.clear(); pkts.clear(); borrows.clear();
    }
};

// ------------------------------------------------------------------------------------------- the case
static std::string run_case(const CaseFile &c) {
    std::vector<Op> ops;
    if (!parse_ops(c.get("ops"), ops)) return "bad case file (ops)";
    CaseGuard guard;
    std::string msg;
    {
        Machine m; m.allow = c.get("allow");
        if (const char *ev = getenv("VERIF_C19_ALLOW")) m.allow += ev;     // e.g. VERIF_C19_ALLOW=F-PKTKEY-UAF: search without that exclusion (after a fix)
        for (size_t i = 0; i < ops.size() && msg.empty(); i++) {
            msg = m.step(ops[i]);
            if (msg.empty()) msg = m.verify();
            if (!msg.empty()) msg = "op #" + std::to_string(i) + " " + show(ops[i]) + ": " + msg;
        }
        m.release_all();
        if (m.nt) { nontrivial(fnv(c.get("ops"))); label("history:non-trivial"); }
    }
    if (msg.empty()) msg = guard.check();
    return msg;
}

// ------------------------------------------------------------------------------------------- generators
static ustr U(std::initializer_list<unsigned> cu) { ustr s; for (unsigned c : cu) s += (char16_t) c; return s; }
static const std::vector<ustr> &char_pool() {
    static const std::vector<ustr> p = {u"", u"abc", u"a b", u"?", u".", u"1.5", u"data_x", u"LOOP_", u"_n", u"x[1]", u"{", u"'q", u"#c", u"$f", U({0xE9, 0x65, 0x301, 0x78}), u"stop_", u"global_",
                                        u"save_f", u"x\ny", u"tab\there", U({0xD835, 0xDCB3}), u"a'b\"c", u"loop_x", u"-", u"??", u"..", u"0123456789012345678901234567890123456789012345678901234567890123456789"};
    return p;
}
static const std::vector<ustr> &numb_pool() {
    static const std::vector<ustr> p = {u"0", u"1", u"-2.50", u"+3e2", u"1.5(3)", u".5", u"7.", u"-1.0E-3", u"12.34(12)", u"1e5(2)", u"007",
                                        u"", u"abc", u"1.2.3", u"1e", u"--1", u"1()", u"1.5(3", u"+", u"e5", u"1e+", u"1 ", u" 1", u".", u"?", u"1.5(3)x", u"1(a)"};
    return p;
}
// table keys: "a"/"A" are different entries; U+00E9 / e+U+0301 are the same entry, as are U+00C5 / A+U+030A / U+212B; the empty key, keys with
// blanks; invalid keys (U+0001, U+FFFF, U+FDD0)
static const std::vector<ustr> &key_pool() {
    static const std::vector<ustr> p = {u"a", u"A", U({0xE9}), U({0x65, 0x301}), u"", u"k 1", u" a", u"a ", U({0xC5}), U({0x41, 0x30A}), U({0x212B}), u"key", u"_x", U({0xD801, 0xDC00}),
                                        U({0x01, 0x78}), U({0x62, 0xFFFF}), U({0xFDD0})};
    return p;
}
// data names: matching is by normalised equivalence: _a/_A, _B/_b, _c<U+00E9> / _C<U+00C9> / _ce<U+0301>, _<U+00C5> / _<U+00E5> / _<U+212B>
static const std::vector<ustr> &name_pool() {
    static const std::vector<ustr> p = {u"_a", u"_A", u"_B", u"_b", U({0x5F, 0x63, 0xE9}), U({0x5F, 0x43, 0xC9}), U({0x5F, 0x63, 0x65, 0x301}), u"_d.e", U({0x5F, 0xC5}), U({0x5F, 0xE5}), U({0x5F, 0x212B}), u"_x1"};
    return p;
}
static const std::vector<ustr> &badname_pool() {
    static const std::vector<ustr> p = {u"a", u"_", u"_a b", u"", U({0x5F, 0x78, 0x01}), U({0x5F, 0xFFFF}), u"_a\tb"};
    return p;
}
static ustr pick(const std::vector<ustr> &p) { return p[(size_t) *g::range(0, (int) p.size() - 1)]; }
static long kmode() { return *g::chance(50) ? 0 : 1 + *g::range(0, 15); }   // 0: the literal key/name of the op; k: aim at an existing entry
static long elem_sel() { int w = *g::range(0, 10); return w < 2 ? 0 : w < 5 ? 1 : 2 + *g::range(0, 11); }

// mode 0: any operation; 1: an operation that makes a root value; 2: packet_create; 3 / 4: an operation that makes a list / table root
static rc::Gen<Op> op_gen(int mode) {
    return rc::gen::exec([mode]() {
        Op o;
        o.code = mode == 2 ? (int) O_PCREATE : mode >= 1 ? *rc::gen::weightedElement<int>({{3, O_CREATE}, {4, O_TREE}}) : *rc::gen::weightedElement<int>({{2, O_CREATE}, {2, O_TREE}, {4, O_INIT}, {3, O_INITCHAR}, {3, O_COPYCHAR}, {3, O_PARSENUMB}, {2, O_INITNUMB}, {2, O_AUTONUMB}, {4, O_SETQ},
                                                 {2, O_CLEAN}, {5, O_CLONE}, {3, O_FREE}, {2, O_COUNT}, {6, O_LGET}, {5, O_LSET}, {5, O_LINS}, {4, O_LREM}, {4, O_LAPPEND},
                                                 {6, O_TSET}, {6, O_TGET}, {4, O_TREM}, {2, O_TKEYS}, {4, O_PCREATE}, {5, O_PSET}, {5, O_PGET}, {3, O_PREM}, {1, O_PNAMES}, {1, O_PFREE}});
        long sel = *g::range(0, 13);
        long ksel = sel + (*g::chance(85) ? 100 : 0), ssel = sel + (*g::chance(80) ? 100 : 0);    // operations that need a particular kind: mostly aimed at a value of that kind
        switch (o.code) {
        case O_CREATE: o.a = {mode == 3 ? 2 : mode == 4 ? 3 : *rc::gen::weightedElement<long>({{2, 0}, {1, 1}, {5, 2}, {5, 3}, {1, 4}, {1, 5}})}; break;
        case O_TREE: {
            g::ValueOpts vo; vo.prof = g::P_CIF2; vo.keyprof = g::P_CIF2_LINE; vo.maxlen = 8; vo.maxdepth = 3; vo.maxmembers = 4;
            Value v = *rc::gen::scale(0.6, g::value(vo, 0));
            if (mode == 3 && v.k != Value::LIST) v = Value::list({v, Value::chr(u"x", false), Value::table({{u"k", Value::na()}})});
            if (mode == 4 && v.k != Value::TABLE) v = Value::table({{u"a", v}, {U({0xC5}), Value::list({Value::num(u"1.0(2)")})}});
            if (*g::chance(60) && v.k != Value::LIST && v.k != Value::TABLE) { Value w = *g::chance(50) ? Value::list({v, Value::na()}) : Value::table({{u"a", v}, {U({0x65, 0x301}), Value::list({Value::chr(u"in")})}}); v = w; }
            o.s = {u16(cm::ser(v))}; break; }
        case O_INIT: o.a = {ssel, *rc::gen::weightedElement<long>({{2, 0}, {1, 1}, {4, 2}, {4, 3}, {1, 4}, {1, 5}})}; break;
        case O_INITCHAR: case O_COPYCHAR: {
            ustr t = pick(char_pool());
            if (*g::chance(25)) { t = *g::text(g::P_CIF2, 10); }
            o.a = {ssel}; o.s = {t}; break; }
        case O_PARSENUMB: o.a = {ssel}; o.s = {*g::chance(15) ? *g::number_text() : pick(numb_pool())}; break;
        case O_INITNUMB: o.a = {ssel, *g::range(0, 6), *g::range(0, 3), *g::range(0, 4), *g::range(0, 5)}; break;
        case O_AUTONUMB: o.a = {ssel, *g::range(0, 6), *g::range(0, 3), *g::range(0, 3)}; break;
        case O_SETQ: o.a = {ksel, *g::range(0, 1)}; break;
        case O_CLEAN: o.a = {ssel}; break;
        case O_COUNT: case O_TKEYS: o.a = {ksel}; break;
        case O_CLONE: o.a = {sel, *g::chance(45) ? 0 : 1 + *g::range(0, 7)}; break;
        case O_FREE: o.a = {*g::range(0, 7)}; break;
        case O_LGET: o.a = {ksel, *rc::gen::weightedElement<long>({{4, 0}, {4, 1}, {4, 2}, {2, 3}, {1, 4}, {1, 5}})}; break;
        case O_LSET: case O_LINS: o.a = {ksel, *rc::gen::weightedElement<long>({{3, 0}, {3, 1}, {3, 2}, {2, 3}, {1, 4}, {1, 5}}), elem_sel()}; break;
        case O_LREM: o.a = {ksel, *rc::gen::weightedElement<long>({{3, 0}, {3, 1}, {3, 2}, {2, 3}, {1, 4}, {1, 5}}), *g::range(0, 1)}; break;
        case O_LAPPEND: o.a = {ksel, *g::range(0, 15), elem_sel()}; break;
        case O_TSET: o.a = {ksel, elem_sel(), kmode()}; o.s = {pick(key_pool())}; break;
        case O_TGET: o.a = {ksel, *g::chance(75) ? 1 : 0, kmode()}; o.s = {pick(key_pool())}; break;
        case O_TREM: o.a = {ksel, *g::range(0, 1), kmode()}; o.s = {pick(key_pool())}; break;
        case O_PCREATE: {
            int n = *g::range(0, 3); std::vector<ustr> names;
            for (int i = 0; i < n; i++) {
                ustr c = pick(name_pool()); bool dup = false;
                for (auto &x : names) if (cm::norm_name(x) == cm::norm_name(c)) dup = true;
                if (!dup) names.push_back(c);
            }
            if (*g::chance(25)) names.insert(names.begin() + *g::range(0, (int) names.size()), pick(badname_pool()));
            o.a = {*g::range(0, 1)}; o.s = names; break; }
        case O_PSET: o.a = {*g::range(0, 3), elem_sel(), kmode()}; o.s = {*g::chance(12) ? pick(badname_pool()) : pick(name_pool())}; break;
        case O_PGET: case O_PREM: o.a = {*g::range(0, 3), *g::chance(65) ? 1 : 0, kmode()}; o.s = {*g::chance(12) ? pick(badname_pool()) : pick(name_pool())}; break;
        case O_PNAMES: case O_PFREE: o.a = {*g::range(0, 3)}; break;
        }
        return o;
    });
}

// static recognition of histories that reach a known finding (only witness files carry allow=...; generated cases never do)
static std::string classify_case(const CaseFile &c) {
    std::vector<Op> ops;
    if (!parse_ops(c.get("ops"), ops)) return std::string();
    if (c.get("allow").find(F_PKTKEY) != std::string::npos) {
        std::vector<ustr> made;
        for (auto &op : ops) {
            if (op.code == O_PCREATE) { for (auto &n : op.s) if (name_valid(n) && n == cm::norm_name(n)) made.push_back(n); }
            else if (op.code == O_PSET && !made.empty() && A(op, 2) > 0 && A(op, 2) % 2 == 0) return std::string(F_PKTKEY);   // re-spelling of an existing item chosen at run time
            else if (op.code == O_PSET && name_valid(S(op, 0))) for (auto &n : made) if (n != S(op, 0) && n == cm::norm_name(S(op, 0))) return std::string(F_PKTKEY);
        }
    }
    return std::string();
}

int main(int argc, char **argv) {
    Engine e;
    e.name = "C19_valueops";
    e.run = []() {
        return rc::check("C19 value/list/table/packet histories agree with the model after every operation", []() {
            int maxops = tier() == "thorough" ? 80 : 60;
            std::vector<Op> ops = {*op_gen(3), *op_gen(4)};                                                   // a few objects to start with
            if (*g::chance(60)) ops.push_back(*op_gen(2));
            { std::vector<Op> more = *rc::gen::resize(2, rc::gen::container<std::vector<Op>>(op_gen(1))); ops.insert(ops.end(), more.begin(), more.end()); }
            std::vector<Op> body = *rc::gen::scale(2.0, rc::gen::container<std::vector<Op>>(op_gen(0)));   // length 0..2*size, cut at maxops
            ops.insert(ops.end(), body.begin(), body.end());
            if ((int) ops.size() > maxops) ops.resize((size_t) maxops);
            CaseFile c; c.set("ops", ser_ops(ops));
            VH_BEGIN(c);
            note("ops_generated", (long) ops.size());
            { std::string s; for (size_t i = 0; i < ops.size() && i < 10; i++) { s += show(ops[i]); s += "; "; } if (ops.size() > 10) s += "... (" + std::to_string(ops.size()) + " ops)"; sample(s); }
            std::string m = run_case(c);
            if (!m.empty()) { record_fail(c, m); RC_FAIL(m); }
        });
    };
    e.replay = run_case;
    e.classify = classify_case;
    return engine_main(argc, argv, e);
}
