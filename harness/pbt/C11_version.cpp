// C11: the CIF version (dialect) and the character encoding are selected exactly as documented.
//
// The configuration table  magic x BOM x prefer_cif2 x encoding x force_default_encoding  is ENUMERATED (striped over the workers);
// every cell is crossed with rapidcheck-generated probe documents whose reading differs between CIF 1.1 and CIF 2.0 and which carry
// a non-ASCII value that shows which decoder was used.  All bytes are produced by the encoders in this file.
//
// ORACLE (transcribed from the property statement and the documentation of prefer_cif2 / default_encoding_name /
// force_default_encoding in cif.h -- not from ciffile.c / parser.c):
//   VERSION   prefer_cif2 < 0 -> CIF 1.1;  prefer_cif2 >= 20 -> CIF 2.0;  otherwise:
//             "#\#CIF_2.0" at the very start (optionally after a BOM) followed by whitespace   -> CIF 2.0
//             a version comment for another version (1.0, 1.1, 3.0)                                -> CIF 1.1
//             no version comment                                                                   -> CIF 2.0 if prefer_cif2 > 0, else CIF 1.1
//   DECODER   force_default_encoding != 0 -> the named (default_encoding_name) or else the system default encoding;
//             else a Unicode signature (BOM) -> that encoding;  else CIF 2.0 -> UTF-8;  else the named or else the system default.
//   DIAGNOSTICS  CIF_WRONG_ENCODING is reported iff the dialect is CIF 2.0 and the decoder is not UTF-8;
//             in CIF 2.0 a U+FEFF that is not the very first character is reported as CIF_DISALLOWED_CHAR, the very first one is not
//             reported at all (neither CIF_DISALLOWED_CHAR nor CIF_DISALLOWED_INITIAL_CHAR).
//   CONTENT   the same text in any signature-bearing encoding (and, with force, in any correctly named encoding) with the same
//             options is stored identically (compared with the UTF-8 cell).
//   TOTALITY  in every cell cif_parse returns, nothing crashes, CaseGuard is clean.
//
// UNCONSTRAINED cell classes (the statement and cif.h are silent or ambiguous; every non-crashing outcome is accepted, but whatever
// dialect is observed must be observed consistently by all indicators, and the decoder / diagnostics rules are then applied to the
// OBSERVED dialect):
//   U1  "#\#CIF_2.0x" (magic not followed by whitespace) with prefer_cif2 in 0..19: dialect open.
//   U2  "#\#CIF_2.0" not at the start (after LF / SP / BOM SP) with prefer_cif2 in 1..19: open whether this counts as "no comment"
//       (-> CIF 2.0) or as "a comment for another version" (-> CIF 1.1).  With prefer_cif2 == 0 both readings give CIF 1.1.
//   U3  under CIF 1.1 the treatment of a leading BOM and of any other non-ASCII character (CIF_DISALLOWED_CHAR or not) is open.
//   U4  when the decoder does not match the bytes (e.g. Latin-1 bytes under CIF 2.0 = UTF-8) only "the non-ASCII value is NOT read back intact" is demanded, plus the dialect and CIF_WRONG_ENCODING rules;
//       the return code is not constrained either.
//   U5  diagnostics other than CIF_WRONG_ENCODING and the BOM-related CIF_DISALLOWED_CHAR / CIF_DISALLOWED_INITIAL_CHAR (for example
//       the "missing version code" error, CIF_MISSING_SPACE, CIF_INVALID_BARE_VALUE, CIF_UNEXPECTED_VALUE) are never demanded.
//   Outside the property (not generated): UTF-16/32 bytes without a BOM unless force_default_encoding names the encoding; a forced
//   encoding name that is not the encoding of the bytes.
#include "../common/gens.hpp"
#include "../common/parsehelp.hpp"
#include <unicode/ucnv.h>
#include <set>
using namespace vh;

// ---- the configuration table -----------------------------------------------------------------------------------------------------
enum Magic { M_NONE = 0, M_10, M_11, M_20, M_20_AFTER_LF, M_20_AFTER_SP, M_20_AFTER_BOMSP, M_20X, M_30, N_MAGIC };
static const char *MAGIC_NAME[N_MAGIC] = {"none", "1.0", "1.1", "2.0", "2.0-after-LF", "2.0-after-SP", "2.0-after-BOM-SP", "2.0x", "3.0"};
static const int PREFER[] = {-5, -1, 0, 1, 19, 20, 25};
enum { N_PREFER = 7 };
// encoding axis = (encoding of the bytes, default_encoding_name, pinned system default)
enum Enc {
    E_U8 = 0,   // UTF-8 bytes; name NULL = system default, which is UTF-8 (see main); with force the name is "UTF-8"
    E_U16LE, E_U16BE, E_U32LE, E_U32BE,   // name NULL, signature required (force: the name, signature optional)
    E_L1,       // ISO-8859-1 bytes, default_encoding_name = "ISO-8859-1"
    E_ASCII,    // ASCII-only content, default_encoding_name = "US-ASCII" (a named 7-bit default)
    E_SYSU,     // UTF-8 bytes, name NULL together with force = 1: the forced system default (force = 0 would repeat E_U8)
    E_U8L1,     // UTF-8 bytes but default_encoding_name = "ISO-8859-1" (force = 0 only): shows whether the named default or UTF-8 decoded
    E_W1252,    // as E_L1 (characters U+00A0..U+00FF only, where the two code pages agree) but default_encoding_name = "windows-1252":
                // a table-driven ICU converter whose canonical name ("ibm-5348_P100-1997") is nothing like the option string
    N_ENC
};
static const char *ENC_NAME[N_ENC] = {"UTF-8", "UTF-16LE", "UTF-16BE", "UTF-32LE", "UTF-32BE", "ISO-8859-1(named)", "US-ASCII(named)", "sysdefault(forced)", "UTF-8-bytes/named-ISO-8859-1", "windows-1252(named)"};
enum Dec { D_U8 = 0, D_U16LE, D_U16BE, D_U32LE, D_U32BE, D_L1, D_ASCII };
static const char *DEC_NAME[] = {"UTF-8", "UTF-16LE", "UTF-16BE", "UTF-32LE", "UTF-32BE", "ISO-8859-1", "US-ASCII"};

struct Cell {
    int magic = 0, bom = 0, pi = 2, enc = 0, force = 0;
    int prefer() const { return PREFER[pi]; }
};
static long cell_index(const Cell &c) { return ((((long) c.magic * 2 + c.bom) * N_PREFER + c.pi) * N_ENC + c.enc) * 2 + c.force; }
static const long N_RAW = (long) N_MAGIC * 2 * N_PREFER * N_ENC * 2;
static bool cell_from(long i, Cell &c) {
    if (i < 0 || i >= N_RAW) return false;
    c.force = (int) (i % 2); i /= 2; c.enc = (int) (i % N_ENC); i /= N_ENC; c.pi = (int) (i % N_PREFER); i /= N_PREFER; c.bom = (int) (i % 2); i /= 2; c.magic = (int) i;
    return true;
}
static bool has_sig(const Cell &c) { return c.bom || c.magic == M_20_AFTER_BOMSP; }      // the encoded text starts with U+FEFF
static bool unicode_bytes(int enc) { return enc != E_L1 && enc != E_ASCII && enc != E_W1252; }
static bool cell_valid(const Cell &c) {
    if (!unicode_bytes(c.enc) && has_sig(c)) return false;                                  // U+FEFF has no Latin-1 / ASCII form
    if (c.enc >= E_U16LE && c.enc <= E_U32BE && !c.force && !has_sig(c)) return false;      // BOM-less UTF-16/32 is only promised "in most cases"
    if (c.enc == E_U8L1 && c.force) return false;                                           // forcing a wrong encoding is outside the property
    if (c.enc == E_SYSU && !c.force) return false;                                          // would repeat the E_U8 cell
    return true;
}
static std::string cell_desc(const Cell &c) {
    return std::string("magic=") + MAGIC_NAME[c.magic] + " bom=" + std::to_string(c.bom) + " prefer_cif2=" + std::to_string(c.prefer()) + " enc=" + ENC_NAME[c.enc] +
           " force=" + std::to_string(c.force);
}
static const char *enc_option_name(const Cell &c) {
    switch (c.enc) {
    case E_U8: return c.force ? "UTF-8" : nullptr;
    case E_U16LE: return c.force ? "UTF-16LE" : nullptr;
    case E_U16BE: return c.force ? "UTF-16BE" : nullptr;
    case E_U32LE: return c.force ? "UTF-32LE" : nullptr;
    case E_U32BE: return c.force ? "UTF-32BE" : nullptr;
    case E_L1: case E_U8L1: return "ISO-8859-1";
    case E_ASCII: return "US-ASCII";
    case E_W1252: return "windows-1252";
    default: return nullptr;
    }
}
// The "system default" encoding.  This ICU build (72, Linux) hard-codes the default charset (U_CHARSET_IS_UTF8): ucnv_setDefaultName is
// a no-op and ucnv_open(NULL) is always UTF-8, independent of the locale.  The engine still pins it and verifies it at start.
static const char *SYS_DEFAULT = "UTF-8";
static Dec actual_encoding(const Cell &c) {
    switch (c.enc) {
    case E_U16LE: return D_U16LE; case E_U16BE: return D_U16BE; case E_U32LE: return D_U32LE; case E_U32BE: return D_U32BE;
    case E_L1: case E_W1252: return D_L1; case E_ASCII: return D_ASCII; default: return D_U8;
    }
}
static Dec named_or_system(const Cell &c) {
    const char *n = enc_option_name(c);
    if (!n) return D_U8;                       // SYS_DEFAULT
    std::string s = n;
    return s == "US-ASCII" ? D_ASCII : s == "UTF-8" ? D_U8 : s == "UTF-16LE" ? D_U16LE : s == "UTF-16BE" ? D_U16BE : s == "UTF-32LE" ? D_U32LE : s == "UTF-32BE" ? D_U32BE : D_L1;
}
// the four cells the project's own test-suite executes (ver1.cif, ver2.cif, bom.cif, bom_ver2.cif with default options)
static bool suite_cell(const Cell &c) {
    if (c.prefer() != 0 || c.force || enc_option_name(c) || actual_encoding(c) == D_L1 || c.enc >= E_U16LE && c.enc <= E_U32BE) return false;
    return (c.magic == M_11 && !c.bom) || (c.magic == M_20 && !c.bom) || (c.magic == M_NONE && c.bom) || (c.magic == M_20 && c.bom);
}

// ---- the decision function ---------------------------------------------------------------------------------------------------------
// 1 = CIF 1.1, 2 = CIF 2.0, 0 = the statement leaves it open (classes U1, U2)
static int expected_version(const Cell &c) {
    int p = c.prefer();
    if (p < 0) return 1;                       // "parsed as CIF 1.1 regardless of an explicit version code to the contrary"
    if (p >= 20) return 2;                     // "parsed as CIF 2 regardless of an explicit version code to the contrary"
    switch (c.magic) {
    case M_20: return 2;                       // at the very start, optionally after a BOM, followed by whitespace
    case M_10: case M_11: case M_30: return 1; // a comment for another version
    case M_NONE: return p > 0 ? 2 : 1;         // no comment: CIF 1.1 unless prefer_cif2 is positive
    case M_20X: return 0;                      // U1
    default: return p > 0 ? 0 : 1;             // a 2.0 comment that is not at the start: U2 when prefer_cif2 is positive
    }
}
static Dec expected_decoder(const Cell &c, int version) {
    if (c.force) return named_or_system(c);    // force_default_encoding overrides detection
    if (has_sig(c)) return actual_encoding(c); // the signature is always the bytes' own
    if (version == 2) return D_U8;
    return named_or_system(c);
}
static bool ascii_compatible(Dec d) { return d == D_U8 || d == D_L1 || d == D_ASCII; }

// ---- my own encoders ---------------------------------------------------------------------------------------------------------------
using u32s = std::u32string;
static std::string enc_utf8(const u32s &t) {
    std::string o;
    for (uint32_t c : t) {
        if (c < 0x80) o += (char) c;
        else if (c < 0x800) { o += (char) (0xC0 | (c >> 6)); o += (char) (0x80 | (c & 0x3F)); }
        else if (c < 0x10000) { o += (char) (0xE0 | (c >> 12)); o += (char) (0x80 | ((c >> 6) & 0x3F)); o += (char) (0x80 | (c & 0x3F)); }
        else { o += (char) (0xF0 | (c >> 18)); o += (char) (0x80 | ((c >> 12) & 0x3F)); o += (char) (0x80 | ((c >> 6) & 0x3F)); o += (char) (0x80 | (c & 0x3F)); }
    }
    return o;
}
static void put16(std::string &o, uint32_t u, bool be) { if (be) { o += (char) (u >> 8); o += (char) (u & 0xFF); } else { o += (char) (u & 0xFF); o += (char) (u >> 8); } }
static std::string enc_utf16(const u32s &t, bool be) {
    std::string o;
    for (uint32_t c : t) {
        if (c >= 0x10000) { c -= 0x10000; put16(o, 0xD800 + (c >> 10), be); put16(o, 0xDC00 + (c & 0x3FF), be); }
        else put16(o, c, be);
    }
    return o;
}
static std::string enc_utf32(const u32s &t, bool be) {
    std::string o;
    for (uint32_t c : t) for (int k = 0; k < 4; k++) o += (char) ((c >> (8 * (be ? 3 - k : k))) & 0xFF);
    return o;
}
static std::string enc_latin1(const u32s &t) { std::string o; for (uint32_t c : t) o += (char) (c <= 0xFF ? c : '?'); return o; }
static std::string encode(Dec d, const u32s &t) {
    switch (d) {
    case D_U16LE: return enc_utf16(t, false); case D_U16BE: return enc_utf16(t, true);
    case D_U32LE: return enc_utf32(t, false); case D_U32BE: return enc_utf32(t, true);
    case D_L1: case D_ASCII: return enc_latin1(t);
    default: return enc_utf8(t);
    }
}
static ustr to_u16(const u32s &t) { ustr o; for (uint32_t c : t) g::push_cp(o, c); return o; }
static u32s from_ascii(const std::string &s) { u32s o; for (unsigned char c : s) o += (char32_t) c; return o; }

// ---- probe documents -----------------------------------------------------------------------------------------------------------------
struct Probe {
    u32s text;                                   // the whole document (without the BOM of the BOM axis)
    ustr n_q, n_l, n_t, n_b, n_f, n_n;           // data names
    ustr q_full, q_first, b_full, b_first, t_full, f_folded, f_raw, na;   // indicator texts
    bool midbom = false, ascii_only = false;
};
static const uint32_t NA_SET[] = {0xE9, 0xFC, 0xDF, 0x3A9, 0x4E2D, 0x1D4B3, 0xF1, 0xA9};
static bool utf8_bytes_all_high(uint32_t c) { for (unsigned char b : enc_utf8(u32s(1, (char32_t) c))) if (b < 0xA0) return false; return true; }

static std::string cell_bytes(const Cell &cell, const u32s &text);
static Probe build_probe(const CaseFile &c, const Cell &cell) {
    Probe p;
    std::string code = c.get("code", "p"), sfx = c.get("sfx", "");
    std::string w1 = c.get("w1", "it"), w2 = c.get("w2", "s"), lw = c.get("lw", "a b"), tk = c.get("tk", "k"), tv = c.get("tv", "v");
    std::string bw = c.get("bw", "a"), bi = c.get("bi", "1"), f1 = c.get("f1", "ab"), f2 = c.get("f2", "cd"), wsq = c.get("ws", "");
    char qd = c.geti("qd") ? '"' : '\'';
    char kd = c.geti("kd") ? '"' : '\'';
    long mterm = c.geti("mterm"), lead = c.geti("lead"), order = c.geti("order");
    // the non-ASCII value, adapted to what the cell's byte encoding can carry
    u32s na;
    for (char16_t u : deser_u16(c.get("na", "\\u00E9"))) na += (char32_t) u;
    { u32s t; for (size_t i = 0; i < na.size(); i++) {   // recombine surrogate pairs
          uint32_t x = na[i];
          if (x >= 0xD800 && x < 0xDC00 && i + 1 < na.size() && na[i + 1] >= 0xDC00 && na[i + 1] < 0xE000) { x = 0x10000 + ((x - 0xD800) << 10) + (na[i + 1] - 0xDC00); i++; }
          t += (char32_t) x; }
      na = t; }
    for (auto &x : na) {
        if (x < 0x80) continue;
        if (cell.enc == E_ASCII) x = 'e';
        else if ((cell.enc == E_L1 || cell.enc == E_W1252) && (x > 0xFF || x < 0xA0)) x = 0xE9;
        else if (cell.enc == E_U8L1 && !utf8_bytes_all_high(x)) x = 0xE9;   // keeps the Latin-1 reading of its UTF-8 bytes free of C1 controls
    }
    if (na.empty()) na = U"e";
    p.midbom = c.geti("midbom") != 0 && unicode_bytes(cell.enc) && cell.enc != E_U8L1;
    // heading
    u32s t;
    static const char *TERM[] = {"\n", " \n", "\t\n", "\n\n"};
    static const char *LEAD[] = {"", "\n", "# c\n"};
    static const char *X[] = {"x", "1", "_"};
    switch (cell.magic) {
    case M_NONE: t += from_ascii(LEAD[lead % 3]); break;
    case M_10: t += from_ascii(std::string("#\\#CIF_1.0") + TERM[mterm % 4]); break;
    case M_11: t += from_ascii(std::string("#\\#CIF_1.1") + TERM[mterm % 4]); break;
    case M_20: t += from_ascii(std::string("#\\#CIF_2.0") + TERM[mterm % 4]); break;
    case M_30: t += from_ascii(std::string("#\\#CIF_3.0") + TERM[mterm % 4]); break;
    case M_20_AFTER_LF: t += from_ascii("\n#\\#CIF_2.0\n"); break;
    case M_20_AFTER_SP: t += from_ascii(" #\\#CIF_2.0\n"); break;
    case M_20_AFTER_BOMSP: t += (char32_t) 0xFEFF; t += from_ascii(" #\\#CIF_2.0\n"); break;
    case M_20X: t += from_ascii(std::string("#\\#CIF_2.0") + X[mterm % 3] + "\n"); break;
    }
    t += from_ascii("data_" + code + "\n");
    const size_t pad_at = t.size(); size_t na_pos = (size_t) -1;
    // items
    auto nm = [&](char k) { return std::string("_") + k + sfx; };
    struct Item { u32s name, value; bool textfield; };
    std::vector<Item> items;
    std::string qv = std::string(1, qd) + w1 + qd + w2 + qd;
    items.push_back({from_ascii(nm('q')), from_ascii(qv), false});
    items.push_back({from_ascii(nm('l')), from_ascii("[" + lw + "]"), false});
    std::string tvs = std::string("{") + kd + tk + kd + ":" + tv + "}";
    items.push_back({from_ascii(nm('t')), from_ascii(tvs), false});
    items.push_back({from_ascii(nm('b')), from_ascii(bw + "[" + bi + "]"), false});
    items.push_back({from_ascii(nm('f')), from_ascii(";\\\n" + f1 + "\\\n" + f2 + "\n;"), true});
    items.push_back({from_ascii(nm('n')), na, false});
    if (p.midbom) { u32s z = U"x"; z += (char32_t) 0xFEFF; z += U"y"; items.push_back({from_ascii(nm('z')), z, false}); }
    // generated order (Lehmer code of `order`)
    { std::vector<Item> pool = items, out; unsigned long o = (unsigned long) order;
      while (!pool.empty()) { size_t k = o % pool.size(); o /= pool.size(); out.push_back(pool[k]); pool.erase(pool.begin() + (long) k); }
      items = out; }
    static const char *SEP[] = {" ", "  ", "\t", "\n", " \n "};
    static const char *EOL[] = {"\n", " \n", "\n\n", "\n# c\n", "\t\n"};
    for (size_t i = 0; i < items.size(); i++) {
        int s = 2 * i < wsq.size() ? (wsq[2 * i] - '0') % 5 : 0, e = 2 * i + 1 < wsq.size() ? (wsq[2 * i + 1] - '0') % 5 : 0;
        if (s < 0) s = 0; if (e < 0) e = 0;
        t += items[i].name;
        t += items[i].textfield ? from_ascii("\n") : from_ascii(SEP[s]);
        if (items[i].name == from_ascii(nm('n'))) na_pos = t.size();
        t += items[i].value;
        t += from_ascii(EOL[e]);
    }
    // straddle = k in 1..3: comment lines are inserted after the block header so that, in this cell's byte encoding, the first byte of the
    // non-ASCII value is the k-th byte from the end of a 4096-byte read (a multi-byte character then spans two reads of the byte stream)
    long st = c.geti("straddle");
    if (st > 0 && na_pos != (size_t) -1) {
        size_t unit = cell_bytes(cell, U"a").size() - cell_bytes(cell, U"").size();
        size_t before = cell_bytes(cell, t.substr(0, na_pos)).size(), want = (size_t) (4096 - st) % 4096;
        size_t shift = (want + 4096 - before % 4096) % 4096;
        if (unit && shift % unit == 0) {
            size_t pad = shift / unit; u32s padding;
            while (pad > 0) { if (pad == 1) { padding += U"\n"; break; } size_t n = std::min<size_t>(pad, 1000); if (pad - n == 1) n -= 1; padding += U"#"; padding += u32s(n - 2, U'p'); padding += U"\n"; pad -= n; }
            t.insert(pad_at, padding);
        }
    }
    p.text = t;
    p.n_q = u16(nm('q')); p.n_l = u16(nm('l')); p.n_t = u16(nm('t')); p.n_b = u16(nm('b')); p.n_f = u16(nm('f')); p.n_n = u16(nm('n'));
    p.q_full = u16(w1 + qd + w2); p.q_first = u16(w1);
    p.b_full = u16(bw + "[" + bi + "]"); p.b_first = u16(bw);
    p.t_full = u16(tvs);
    p.f_folded = u16(f1 + f2); p.f_raw = u16("\\\n" + f1 + "\\\n" + f2);
    p.na = to_u16(na);
    p.ascii_only = true; for (uint32_t x : t) if (x >= 0x80) p.ascii_only = false;
    return p;
}

// ---- running one cell ------------------------------------------------------------------------------------------------------------------
struct Obs { int rc = -1; std::vector<int> codes; std::string errs; bool have_doc = false; cm::Doc doc; std::string dump; };
static std::string cell_bytes(const Cell &cell, const u32s &text) {
    u32s t; if (cell.bom) t += (char32_t) 0xFEFF; t += text;
    return encode(actual_encoding(cell), t);
}
static Obs parse_cell(const Cell &cell, const std::string &bytes) {
    Obs o;
    struct cif_parse_opts_s *opts = nullptr; cif_tp *cif = nullptr; ph::ErrLog log;
    if (cif_parse_options_create(&opts) != CIF_OK) return o;
    opts->prefer_cif2 = cell.prefer();
    opts->default_encoding_name = enc_option_name(cell);
    opts->force_default_encoding = cell.force;
    ucnv_setDefaultName(SYS_DEFAULT);
    o.rc = ph::parse_bytes(bytes, opts, &cif, &log);
    for (auto &e : log.errs) o.codes.push_back(e.code);
    o.errs = ph::errs_str(log, 12);
    if (cif) {
        int drc = cm::dump(cif, o.doc);
        o.have_doc = drc == CIF_OK; o.dump = o.have_doc ? cm::ser(o.doc) : std::string("<dump failed: ") + cm::code_name(drc) + ">";
        (void) cif_destroy(cif);
    }
    cm::ufree(opts);
    return o;
}
static const cm::Value *find_in(const cm::Container &c, const ustr &name) {
    for (auto &l : c.loops) for (size_t j = 0; j < l.names.size(); j++) if (l.names[j] == name && !l.rows.empty() && j < l.rows[0].size()) return &l.rows[0][j];
    for (auto &f : c.frames) if (auto *v = find_in(f, name)) return v;
    return nullptr;
}
static const cm::Value *find_item(const cm::Doc &d, const ustr &name) { for (auto &b : d.blocks) if (auto *v = find_in(b, name)) return v; return nullptr; }
static bool is_text(const cm::Value *v) { return v && (v->k == cm::Value::CHAR || v->k == cm::Value::NUMB); }
static int count_code(const Obs &o, int code) { int n = 0; for (int c : o.codes) if (c == code) n++; return n; }

// which dialect do the stored probes show?  votes[i] in {1, 2, 0 = this indicator says nothing}
struct Dialect { int votes[5]; int observed; std::string text; };
static Dialect observe_dialect(const Obs &o, const Probe &p) {
    Dialect d; for (int &v : d.votes) v = 0;
    const cm::Value *q = find_item(o.doc, p.n_q), *l = find_item(o.doc, p.n_l), *t = find_item(o.doc, p.n_t), *b = find_item(o.doc, p.n_b), *f = find_item(o.doc, p.n_f);
    if (is_text(q)) d.votes[0] = q->text == p.q_full ? 1 : q->text == p.q_first ? 2 : 0;          // 'it's' is one value only under CIF 1.1
    if (l) d.votes[1] = l->k == cm::Value::LIST ? 2 : is_text(l) ? 1 : 0;                          // [a b] is a list only under CIF 2.0
    if (t) d.votes[2] = t->k == cm::Value::TABLE ? 2 : (is_text(t) && t->text == p.t_full) ? 1 : 0; // {'k':v} is a table only under CIF 2.0
    if (is_text(b)) d.votes[3] = b->text == p.b_full ? 1 : b->text == p.b_first ? 2 : 0;           // a[1] is one bare value only under CIF 1.1
    if (is_text(f)) d.votes[4] = f->text == p.f_folded ? 2 : f->text == p.f_raw ? 1 : 0;           // line folding is unfolded by default only under CIF 2.0
    int n1 = 0, n2 = 0; for (int v : d.votes) { if (v == 1) n1++; if (v == 2) n2++; }
    d.observed = (n1 >= 3 && n2 == 0 && d.votes[0] == 1 && d.votes[1] == 1) ? 1 : (n2 >= 3 && n1 == 0 && d.votes[1] == 2) ? 2 : 0;
    static const char *nm[] = {"quote", "list", "table", "bracket", "fold"};
    for (int i = 0; i < 5; i++) d.text += std::string(i ? " " : "") + nm[i] + "=" + (d.votes[i] == 1 ? "1.1" : d.votes[i] == 2 ? "2.0" : "?");
    return d;
}

// cells excluded by construction because they hit a recorded finding; "" = none
static std::string known_class(const Cell &c) {
    // (F-DEFENC-IGNORED and F-PREFER-SIG are fixed in /repo: no cell class is excluded any more)
    (void) c;
    return "";
}

static std::string run_case(const CaseFile &c) {
    Cell cell;
    if (!cell_from(c.geti("cell", -1), cell) || !cell_valid(cell)) return "bad case file: no such cell";
    Probe p = build_probe(c, cell);
    std::string bytes = cell_bytes(cell, p.text);
    CaseGuard guard;
    std::string msg;
    Obs o = parse_cell(cell, bytes);
    int ev = expected_version(cell);
    label(std::string("magic:") + MAGIC_NAME[cell.magic]); label(std::string("enc:") + ENC_NAME[cell.enc]); label("prefer:" + std::to_string(cell.prefer()));
    label(cell.force ? "force:1" : "force:0"); if (cell.bom) label("bom");
    label(ev == 0 ? "expect:open-dialect" : ev == 1 ? "expect:cif1.1" : "expect:cif2.0");
    auto fail = [&](const std::string &m) { if (msg.empty()) msg = m; };
    Dialect d; d.observed = 0;
    if (o.rc < 0) fail("cif_parse_options_create failed");
    else if (!o.have_doc) {
        // totality: cif_parse returned; without a managed CIF nothing else can be observed.  Demanded only where everything is in order.
        label("no-doc");
        fail(std::string("cif_parse returned ") + cm::code_name(o.rc) + " and left no readable CIF (" + o.dump + ")");
    } else {
        d = observe_dialect(o, p);
        label(d.observed == 1 ? "observed:cif1.1" : d.observed == 2 ? "observed:cif2.0" : "observed:unclear");
        if (d.observed == 0) fail("the stored probes do not show one dialect consistently: " + d.text);
        else if (ev != 0 && d.observed != ev) fail(std::string("parsed under CIF ") + (d.observed == 1 ? "1.1" : "2.0") + " rules, the documentation selects CIF " + (ev == 1 ? "1.1" : "2.0") + " (" + d.text + ")");
        if (d.observed != 0) {
            int v = ev ? ev : d.observed;                 // open cells: the remaining rules apply to the dialect that was chosen
            if (ev == 0) label(d.observed == 1 ? "open-cell:chose-1.1" : "open-cell:chose-2.0");
            Dec dec = expected_decoder(cell, v), act = actual_encoding(cell);
            bool right = dec == act || (p.ascii_only && ascii_compatible(dec) && ascii_compatible(act));
            label(std::string("decoder:") + DEC_NAME[dec]);
            // decoding, shown by the non-ASCII value
            const cm::Value *n = find_item(o.doc, p.n_n);
            if (right) {
                label("decode:matching");
                if (!is_text(n) || n->text != p.na) fail(std::string("the non-ASCII value was not read with the ") + DEC_NAME[dec] + " decoder: expected " + uesc(p.na) + ", stored " + (is_text(n) ? uesc(n->text) : std::string("<no text value>")));
                if (o.rc != CIF_OK) fail(std::string("cif_parse returned ") + cm::code_name(o.rc) + " although every error callback returned 0");
            } else if (dec == D_L1 && act == D_U8) {
                label("decode:utf8-read-as-latin1");
                ustr want;
                { u32s nav; for (size_t i = 0; i < p.na.size(); i++) { uint32_t x = p.na[i]; if (x >= 0xD800 && x < 0xDC00 && i + 1 < p.na.size()) { x = 0x10000 + ((x - 0xD800) << 10) + (p.na[i + 1] - 0xDC00); i++; } nav += (char32_t) x; }
                  for (unsigned char b : enc_utf8(nav)) want += (char16_t) b; }
                if (!is_text(n) || n->text != want) fail("the named default ISO-8859-1 should have decoded the UTF-8 bytes of the non-ASCII value as " + uesc(want) + ", stored " + (is_text(n) ? uesc(n->text) : std::string("<no text value>")));
            } else {
                label("decode:mismatching");
                if (is_text(n) && n->text == p.na && !p.ascii_only) fail(std::string("the non-ASCII value was read back intact although the ") + DEC_NAME[dec] + " decoder cannot decode " + DEC_NAME[act] + " bytes that way: " + uesc(n->text));
            }
            // CIF_WRONG_ENCODING iff CIF 2.0 and decoder != UTF-8
            bool want_we = v == 2 && dec != D_U8; int got_we = count_code(o, CIF_WRONG_ENCODING);
            if (want_we) label("diag:WRONG_ENCODING-expected");
            if (want_we && !got_we) fail(std::string("CIF 2.0 decoded with ") + DEC_NAME[dec] + " but CIF_WRONG_ENCODING was not reported");
            if (!want_we && got_we) fail(std::string("CIF_WRONG_ENCODING reported although ") + (v == 2 ? "the decoder is UTF-8" : "the input is parsed as CIF 1.1"));
            // byte-order marks under CIF 2.0
            if (v == 2 && right) {
                bool later_bom = (cell.bom && cell.magic == M_20_AFTER_BOMSP) || p.midbom;
                int dc = count_code(o, CIF_DISALLOWED_CHAR), di = count_code(o, CIF_DISALLOWED_INITIAL_CHAR);
                if (later_bom) { label("diag:later-BOM"); if (!dc) fail("CIF 2.0: a U+FEFF that is not the first character was not reported as CIF_DISALLOWED_CHAR"); }
                else if (dc || di) fail(std::string("CIF 2.0: ") + (dc ? "CIF_DISALLOWED_CHAR" : "CIF_DISALLOWED_INITIAL_CHAR") + " reported although the document contains no disallowed character" + (has_sig(cell) ? " (a leading BOM is allowed)" : ""));
                if (has_sig(cell) && !later_bom) label("cif2-leading-BOM-accepted");
            }
        }
    }
    // the same text in another (signature-bearing or correctly named) Unicode encoding is stored like its UTF-8 rendering
    if (msg.empty() && o.have_doc && cell.enc != E_U8 && unicode_bytes(cell.enc) && (has_sig(cell) || cell.force)) {
        Cell ref = cell; ref.enc = E_U8;
        Obs r = parse_cell(ref, cell_bytes(ref, p.text));
        label("metamorphic:vs-UTF-8");
        if (!r.have_doc) fail("the UTF-8 rendering of the same text left no readable CIF: " + r.dump);
        else if (r.dump != o.dump) fail(std::string("the same text with the same options is stored differently as ") + ENC_NAME[cell.enc] + " and as UTF-8\n--- " + ENC_NAME[cell.enc] + " [" + o.errs + "]\n" + o.dump + "--- UTF-8 [" + r.errs + "]\n" + r.dump);
    }
    if (!msg.empty()) msg = "cell {" + cell_desc(cell) + "}: " + msg + "\n  diagnostics: [" + o.errs + "] rc=" + cm::code_name(o.rc) + "\n  bytes: " + esc(bytes).substr(0, 700) + (o.have_doc && msg.find("---") == std::string::npos ? "\n  stored:\n" + o.dump.substr(0, 1200) : std::string());
    if (msg.empty()) msg = guard.check();
    return msg;
}

// ---- generation ----------------------------------------------------------------------------------------------------------------------
static std::string gword(int lo, int hi, bool digits = true) {
    int n = *g::range(lo, hi); std::string s;
    for (int i = 0; i < n; i++) { int k = *g::range(0, digits && i ? 35 : 25); s += (char) (k < 26 ? 'a' + k : '0' + k - 26); }
    return s;
}
static CaseFile gen_probe() {
    CaseFile c;
    c.set("code", gword(1, 6)); c.set("sfx", gword(0, 4));
    c.seti("qd", *g::range(0, 1)); c.seti("kd", *g::range(0, 1));
    c.set("w1", gword(1, 4, false)); c.set("w2", gword(1, 3, false));
    { int n = *g::range(1, 3); std::string l; for (int i = 0; i < n; i++) l += std::string(i ? (*g::chance(25) ? "  " : " ") : "") + gword(1, 3); c.set("lw", l); }
    c.set("tk", gword(1, 3)); c.set("tv", gword(1, 3));
    c.set("bw", gword(1, 3, false)); c.set("bi", std::to_string(*g::range(0, 99)));
    c.set("f1", gword(1, 5)); c.set("f2", gword(1, 5));
    { int n = *g::range(1, 3); ustr na;
      for (int i = 0; i < n; i++) { if (i && *g::chance(30)) na += (char16_t) ('a' + *g::range(0, 25)); else g::push_cp(na, NA_SET[*g::range(0, 7)]); }
      c.set("na", ser_u16(na)); }
    c.seti("midbom", *g::chance(25) ? 1 : 0);
    c.seti("straddle", *g::chance(15) ? *g::range(1, 3) : 0);
    { std::string w; for (int i = 0; i < 14; i++) w += (char) ('0' + *rc::gen::weightedElement<int>({{5, 0}, {1, 1}, {1, 2}, {1, 3}, {1, 4}})); c.set("ws", w); }
    c.seti("mterm", *g::range(0, 11)); c.seti("lead", *g::range(0, 2)); c.seti("order", *g::range(0, 5039));
    return c;
}

int main(int argc, char **argv) {
    long wq = 8, wt = 16;   // worker counts = stride of the cell enumeration; bin/checks/C11.py passes them
    for (int i = 1; i + 1 < argc; i++) {
        if (std::string(argv[i]) == "--workers-quick") wq = atol(argv[i + 1]);
        if (std::string(argv[i]) == "--workers-thorough") wt = atol(argv[i + 1]);
    }
    ucnv_setDefaultName(SYS_DEFAULT);   // pin ICU's default converter: the run must not depend on the sandbox locale
    Engine e;
    e.name = "C11_version";
    e.run = [wq, wt]() {
        { cif_tp *w = nullptr; if (cif_create(&w) == CIF_OK) (void) cif_destroy(w); }
        if (std::string(ucnv_getDefaultName()) != SYS_DEFAULT) { printf("ERROR: ICU's default converter is %s, the oracle assumes %s\n", ucnv_getDefaultName(), SYS_DEFAULT); return false; }
        long nw = std::max(1L, tier() == "thorough" ? wt : wq), widx = 0;
        { const std::string &id = worker_id(); size_t u = id.rfind('_'); widx = atol(id.substr(u == std::string::npos ? 0 : u + 1).c_str()) % nw; }
        // this worker's stripe of the enumerated table
        std::vector<long> stripe; long k = 0, excluded = 0;
        for (long i = 0; i < N_RAW; i++) {
            Cell c; if (!cell_from(i, c) || !cell_valid(c)) continue;
            if (k++ % nw != widx) continue;
            stripe.push_back(i);
        }
        static std::set<long> covered;
        static long pinned; pinned = -1;         // once a cell has failed, shrinking re-runs only that cell
        bool ok = rc::check("C11 every cell of the version/encoding table behaves as documented on generated probes", [&]() {
            CaseFile probe = gen_probe();
            for (long idx : stripe) {
                if (pinned >= 0 && idx != pinned) continue;
                Cell cell; cell_from(idx, cell);
                std::string kc = known_class(cell);
                if (!kc.empty()) { count_excluded(kc); continue; }
                CaseFile c = probe; c.seti("cell", idx); c.set("cell_desc", cell_desc(cell));
                VH_BEGIN(c);
                covered.insert(idx);
                if (!suite_cell(cell)) nontrivial(fnv(std::to_string(idx) + "|" + probe.serialize()));
                else label("suite-cell");
                if (cell.enc == E_U8 || cell.enc == E_L1) sample(cell_desc(cell) + " | " + esc(cell_bytes(cell, build_probe(c, cell).text)));
                std::string m = run_case(c);
                if (!m.empty()) { pinned = idx; record_fail(c, m); RC_FAIL(m); }
            }
        });
        for (long idx : stripe) { Cell c; cell_from(idx, c); if (!known_class(c).empty()) excluded++; }
        note("cells_total", (long) stripe.size());
        note("cells_covered", (long) covered.size());
        note("cells_excluded_known", excluded);
        if (ok && (long) covered.size() + excluded == (long) stripe.size()) note("exhaustive", 1);
        return ok;
    };
    e.replay = run_case;
    e.classify = [](const CaseFile &c) { Cell cell; if (!cell_from(c.geti("cell", -1), cell)) return std::string(); return known_class(cell); };
    return engine_main(argc, argv, e);
}
