// C14: cif_walk visits every element once (parents before children, frames before loops, start before end, items with their
// name and value) and obeys the navigation directives.  A generated managed CIF and a generated handler program (responses
// by callback ordinal and/or by callback kind) are run; the recorded callback log is then validated by a recursive-descent
// checker against the reference content (sibling order is not specified, so the log -- not a prediction -- is validated).
#include "../common/docgen.hpp"
#include <sstream>
using namespace vh;
using cm::Container;
using cm::Doc;
using cm::Loop;
using cm::Value;

enum Kind { K_CIF_START, K_CIF_END, K_BLOCK_START, K_BLOCK_END, K_FRAME_START, K_FRAME_END, K_LOOP_START, K_LOOP_END, K_PACKET_START, K_PACKET_END, K_ITEM, N_KIND };
static const char *KN[] = {"cif_start", "cif_end", "block_start", "block_end", "frame_start", "frame_end", "loop_start", "loop_end", "packet_start", "packet_end", "item"};
struct Ev { int kind; std::string id; std::string val; int resp; bool forced; };

struct Walker {
    // program
    std::map<long, int> by_ordinal; std::map<int, int> by_kind;
    // state
    std::vector<Ev> log; long ordinal = 0;
    struct Open { int kind; bool end_optional; };
    std::vector<Open> stack;
    std::string query_error;
    bool null_mode = false;

    static int level(int kind) { switch (kind) { case K_CIF_START: case K_CIF_END: return 0; case K_BLOCK_START: case K_BLOCK_END: return 1; case K_FRAME_START: case K_FRAME_END: return 2;
                                                   case K_LOOP_START: case K_LOOP_END: return 3; case K_PACKET_START: case K_PACKET_END: return 4; default: return 5; } }
    int respond(int kind, bool is_end) {
        long o = ordinal++;
        int r = CIF_TRAVERSE_CONTINUE;
        auto it = by_ordinal.find(o);
        if (it != by_ordinal.end()) r = it->second;
        else { auto k = by_kind.find(kind); if (k != by_kind.end()) r = k->second; }
        bool forced = false;
        int lv = level(kind);
        if (is_end) {
            // entries deeper than this element are stale (their optional end callback was not made)
            while (!stack.empty() && level(stack.back().kind) > lv) stack.pop_back();
            // the end callback of an element that skipped itself, or whose child asked to skip siblings, may or may not be made;
            // if it is made the handler answers CONTINUE so that both library behaviours lead to the same continuation
            if (!stack.empty() && stack.back().end_optional && r != CIF_TRAVERSE_CONTINUE) { r = CIF_TRAVERSE_CONTINUE; forced = true; }
            if (!stack.empty()) stack.pop_back();
            if (r == CIF_TRAVERSE_SKIP_SIBLINGS && !stack.empty()) stack.back().end_optional = true;
        } else if (kind == K_ITEM) {
            while (!stack.empty() && level(stack.back().kind) > 4) stack.pop_back();
            if (r == CIF_TRAVERSE_SKIP_SIBLINGS && !stack.empty()) stack.back().end_optional = true;
        } else {
            // a new element starts: anything at its own or a deeper level that is still on the stack is stale, except that save
            // frames nest -- an open frame whose end is not optional can still receive child frames
            while (!stack.empty() && (level(stack.back().kind) > lv || (level(stack.back().kind) == lv && (kind != K_FRAME_START || stack.back().end_optional)))) stack.pop_back();
            stack.push_back({kind, r == CIF_TRAVERSE_SKIP_CURRENT || r == CIF_TRAVERSE_SKIP_SIBLINGS});
            if (r == CIF_TRAVERSE_SKIP_SIBLINGS && stack.size() >= 2) stack[stack.size() - 2].end_optional = true;
        }
        log.back().resp = r; log.back().forced = forced;
        return r;
    }
};

static std::string cont_id(cif_container_tp *c, Walker *w) {
    UChar *code = nullptr;
    if (!c) { w->query_error = "NULL container handle passed to a walk callback"; return "?"; }
    int rc = cif_container_get_code(c, &code);
    if (rc != CIF_OK) { w->query_error = std::string("cif_container_get_code failed inside a callback: ") + cm::code_name(rc); return "?"; }
    return uesc(cm::take(code));
}
static std::string loop_id(cif_loop_tp *l, Walker *w) {
    UChar **names = nullptr; UChar *cat = nullptr;
    if (!l) { w->query_error = "NULL loop handle passed to a walk callback"; return "?"; }
    int rc = cif_loop_get_names(l, &names);
    if (rc != CIF_OK) { w->query_error = std::string("cif_loop_get_names failed inside a callback: ") + cm::code_name(rc); return "?"; }
    std::vector<std::string> v; for (UChar **n = names; *n; n++) v.push_back(uesc(cm::take(*n))); cm::ufree(names);
    std::sort(v.begin(), v.end());
    rc = cif_loop_get_category(l, &cat);
    if (rc != CIF_OK) { w->query_error = "cif_loop_get_category failed inside a callback"; return "?"; }
    std::string s = cat ? "cat=" + uesc(cm::take(cat)) + ";" : std::string("cat=-;");
    for (auto &n : v) { s += n; s += ","; }
    return s;
}
static std::string packet_id(cif_packet_tp *p, Walker *w) {
    const UChar **names = nullptr;
    if (!p) { w->query_error = "NULL packet passed to a walk callback"; return "?"; }
    if (cif_packet_get_names(p, &names) != CIF_OK) { w->query_error = "cif_packet_get_names failed inside a callback"; return "?"; }
    std::vector<std::string> v;
    for (const UChar **n = names; *n; n++) { cif_value_tp *val = nullptr; Value mv; if (cif_packet_get_item(p, *n, &val) != CIF_OK || cm::from_cif(val, mv) != CIF_OK) { w->query_error = "packet item unreadable inside a callback"; break; } v.push_back(uesc(cm::norm_name(ustr((const char16_t *) *n))) + "=" + cm::ser(mv)); }
    cm::ufree(names);
    std::sort(v.begin(), v.end());
    std::string s; for (auto &x : v) { s += x; s += ";"; }
    return s;
}
#define W ((Walker *) ctx)
static int h_cif_start(cif_tp *, void *ctx) { W->log.push_back({K_CIF_START, "", "", 0, false}); return W->respond(K_CIF_START, false); }
static int h_cif_end(cif_tp *, void *ctx) { W->log.push_back({K_CIF_END, "", "", 0, false}); return W->respond(K_CIF_END, true); }
static int h_block_start(cif_container_tp *c, void *ctx) { W->log.push_back({K_BLOCK_START, cont_id(c, W), "", 0, false}); return W->respond(K_BLOCK_START, false); }
static int h_block_end(cif_container_tp *c, void *ctx) { W->log.push_back({K_BLOCK_END, cont_id(c, W), "", 0, false}); return W->respond(K_BLOCK_END, true); }
static int h_frame_start(cif_container_tp *c, void *ctx) { W->log.push_back({K_FRAME_START, cont_id(c, W), "", 0, false}); return W->respond(K_FRAME_START, false); }
static int h_frame_end(cif_container_tp *c, void *ctx) { W->log.push_back({K_FRAME_END, cont_id(c, W), "", 0, false}); return W->respond(K_FRAME_END, true); }
static int h_loop_start(cif_loop_tp *l, void *ctx) { W->log.push_back({K_LOOP_START, loop_id(l, W), "", 0, false}); return W->respond(K_LOOP_START, false); }
static int h_loop_end(cif_loop_tp *l, void *ctx) { W->log.push_back({K_LOOP_END, loop_id(l, W), "", 0, false}); return W->respond(K_LOOP_END, true); }
static int h_packet_start(cif_packet_tp *p, void *ctx) { W->log.push_back({K_PACKET_START, packet_id(p, W), "", 0, false}); return W->respond(K_PACKET_START, false); }
static int h_packet_end(cif_packet_tp *p, void *ctx) { W->log.push_back({K_PACKET_END, packet_id(p, W), "", 0, false}); return W->respond(K_PACKET_END, true); }
static int h_item(UChar *name, cif_value_tp *v, void *ctx) {
    Value mv; std::string vs = "?";
    if (!name) W->query_error = "NULL item name in a walk callback";
    if (v && cm::from_cif(v, mv) == CIF_OK) vs = cm::ser(mv); else W->query_error = "item value unreadable inside a callback";
    W->log.push_back({K_ITEM, name ? uesc(cm::norm_name(ustr((const char16_t *) name))) : std::string("?"), vs, 0, false});
    return W->respond(K_ITEM, false);
}

// ---- validation of a log against the reference content ------------------------------------------------------------------
enum St { NORMAL, SKIP_SIBS, ENDED };   // ENDED: END or an error code -> nothing more may follow
struct Checker {
    const std::vector<Ev> &log; size_t pos = 0; std::string err; int stop_code = 0; bool stopped = false;
    Checker(const std::vector<Ev> &l) : log(l) {}
    bool fail(const std::string &m) { if (err.empty()) err = m + " (at callback #" + std::to_string(pos) + (pos < log.size() ? std::string(": ") + KN[log[pos].kind] + " " + log[pos].id : std::string(": end of log")) + ")"; return false; }
    bool peek(int kind) const { return pos < log.size() && log[pos].kind == kind; }
    // status implied by a response; records END/error
    St status(int resp) {
        if (resp == CIF_TRAVERSE_CONTINUE || resp == CIF_TRAVERSE_SKIP_CURRENT) return NORMAL;
        if (resp == CIF_TRAVERSE_SKIP_SIBLINGS) return SKIP_SIBS;
        stopped = true; stop_code = resp == CIF_TRAVERSE_END ? 0 : resp;
        return ENDED;
    }
    // end callback: mandatory / optional / forbidden.  returns status of the end response (NORMAL if absent)
    bool end_event(int kind, const std::string &id, bool mandatory, St &st) {
        st = NORMAL;
        if (peek(kind) && log[pos].id == id) { int r = log[pos].resp; pos++; st = status(r); return true; }
        if (mandatory) return fail(std::string("missing ") + KN[kind] + " for " + id);
        return true;
    }
    bool packet(const Loop &l, const std::vector<Value> &row, St &st) {
        int r = log[pos].resp; pos++;   // packet_start (identity already matched by the caller)
        std::string pid; { std::vector<std::string> v; for (size_t j = 0; j < l.names.size(); j++) v.push_back(uesc(cm::norm_name(l.names[j])) + "=" + cm::ser(row[j])); std::sort(v.begin(), v.end()); for (auto &x : v) { pid += x; pid += ";"; } }
        if (r == CIF_TRAVERSE_SKIP_CURRENT || r == CIF_TRAVERSE_SKIP_SIBLINGS) { St e; if (!end_event(K_PACKET_END, pid, false, e)) return false; st = r == CIF_TRAVERSE_SKIP_SIBLINGS ? SKIP_SIBS : NORMAL; if (e != NORMAL) st = e; return true; }
        if (r != CIF_TRAVERSE_CONTINUE) { st = status(r); return true; }
        std::vector<bool> seen(l.names.size(), false); bool items_cut = false;
        while (peek(K_ITEM)) {
            size_t j = l.names.size();
            for (size_t k = 0; k < l.names.size(); k++) if (!seen[k] && uesc(cm::norm_name(l.names[k])) == log[pos].id) { j = k; break; }
            if (j == l.names.size()) return fail("item callback for a name that is not an unvisited item of this packet: " + log[pos].id);
            if (cm::ser(row[j]) != log[pos].val) return fail("item " + log[pos].id + " presented with value " + log[pos].val + ", stored " + cm::ser(row[j]));
            seen[j] = true;
            int ir = log[pos].resp; pos++;
            if (ir == CIF_TRAVERSE_SKIP_SIBLINGS) { items_cut = true; break; }
            if (ir != CIF_TRAVERSE_CONTINUE && ir != CIF_TRAVERSE_SKIP_CURRENT) { st = status(ir); return true; }
        }
        if (!items_cut) for (size_t k = 0; k < seen.size(); k++) if (!seen[k]) return fail("item " + uesc(l.names[k]) + " of a packet was never presented");
        return end_event(K_PACKET_END, pid, !items_cut, st);
    }
    bool loop(const Loop &l, St &st) {
        std::string lid = log[pos].id;
        int r = log[pos].resp; pos++;
        if (r == CIF_TRAVERSE_SKIP_CURRENT || r == CIF_TRAVERSE_SKIP_SIBLINGS) { St e; if (!end_event(K_LOOP_END, lid, false, e)) return false; st = r == CIF_TRAVERSE_SKIP_SIBLINGS ? SKIP_SIBS : NORMAL; if (e != NORMAL) st = e; return true; }
        if (r != CIF_TRAVERSE_CONTINUE) { st = status(r); return true; }
        std::vector<bool> seen(l.rows.size(), false); bool cut = false;
        while (peek(K_PACKET_START)) {
            size_t j = l.rows.size();
            for (size_t k = 0; k < l.rows.size(); k++) if (!seen[k]) {
                std::vector<std::string> v; for (size_t c = 0; c < l.names.size(); c++) v.push_back(uesc(cm::norm_name(l.names[c])) + "=" + cm::ser(l.rows[k][c])); std::sort(v.begin(), v.end());
                std::string pid; for (auto &x : v) { pid += x; pid += ";"; }
                if (pid == log[pos].id) { j = k; break; }
            }
            if (j == l.rows.size()) return fail("packet_start for a packet that is not an unvisited packet of the loop: " + log[pos].id);
            seen[j] = true;
            St ps; if (!packet(l, l.rows[j], ps)) return false;
            if (ps == ENDED) { st = ENDED; return true; }
            if (ps == SKIP_SIBS) { cut = true; break; }
        }
        if (!cut) for (size_t k = 0; k < seen.size(); k++) if (!seen[k]) return fail("a packet of loop " + lid + " was never presented");
        return end_event(K_LOOP_END, lid, !cut, st);
    }
    static std::string model_loop_id(const Loop &l) {
        std::vector<std::string> v; for (auto &n : l.names) v.push_back(uesc(n)); std::sort(v.begin(), v.end());
        std::string s = l.has_cat ? "cat=" + uesc(l.cat) + ";" : std::string("cat=-;");
        for (auto &n : v) { s += n; s += ","; }
        return s;
    }
    bool container(const Container &c, bool is_block, St &st) {
        int r = log[pos].resp; std::string id = log[pos].id; pos++;
        int endk = is_block ? K_BLOCK_END : K_FRAME_END;
        if (r == CIF_TRAVERSE_SKIP_CURRENT || r == CIF_TRAVERSE_SKIP_SIBLINGS) { St e; if (!end_event(endk, id, false, e)) return false; st = r == CIF_TRAVERSE_SKIP_SIBLINGS ? SKIP_SIBS : NORMAL; if (e != NORMAL) st = e; return true; }
        if (r != CIF_TRAVERSE_CONTINUE) { st = status(r); return true; }
        // frames first
        std::vector<bool> fseen(c.frames.size(), false); bool fcut = false, relaxed_end = false;
        while (peek(K_FRAME_START)) {
            size_t j = c.frames.size();
            for (size_t k = 0; k < c.frames.size(); k++) if (!fseen[k] && uesc(c.frames[k].code) == log[pos].id) { j = k; break; }
            if (j == c.frames.size()) break;   // not one of this container's unvisited frames: may be a sibling of this container; the caller decides
            fseen[j] = true;
            St fs; if (!container(c.frames[j], false, fs)) return false;
            if (fs == ENDED) { st = ENDED; return true; }
            if (fs == SKIP_SIBS) { fcut = true; relaxed_end = true; break; }
        }
        if (!fcut) for (size_t k = 0; k < fseen.size(); k++) if (!fseen[k]) return fail("frame " + uesc(c.frames[k].code) + " of " + id + " was never visited (or a loop was visited before it)");
        // then loops
        std::vector<bool> lseen(c.loops.size(), false); bool lcut = false;
        while (peek(K_LOOP_START)) {
            size_t j = c.loops.size();
            for (size_t k = 0; k < c.loops.size(); k++) if (!lseen[k] && model_loop_id(c.loops[k]) == log[pos].id) { j = k; break; }
            if (j == c.loops.size()) break;    // may be a loop of the enclosing container (after this frame); the caller decides
            lseen[j] = true;
            St ls; if (!loop(c.loops[j], ls)) return false;
            if (ls == ENDED) { st = ENDED; return true; }
            if (ls == SKIP_SIBS) { lcut = true; break; }
        }
        if (peek(K_FRAME_START)) for (size_t k = 0; k < c.frames.size(); k++) if (!fseen[k] && uesc(c.frames[k].code) == log[pos].id) return fail("a save frame was visited after a loop of its container");
        if (!lcut) for (size_t k = 0; k < lseen.size(); k++) if (!lseen[k]) return fail("a loop of " + id + " was never visited");
        return end_event(endk, id, !lcut && !relaxed_end, st);
    }
    bool cif(const Doc &d, int &expect_rc) {
        expect_rc = CIF_OK;
        if (!peek(K_CIF_START)) return fail("the first callback is not cif_start");
        int r = log[pos].resp; pos++;
        if (r == CIF_TRAVERSE_SKIP_CURRENT || r == CIF_TRAVERSE_SKIP_SIBLINGS) { St e; if (!end_event(K_CIF_END, "", false, e)) return false; goto tail; }
        if (r != CIF_TRAVERSE_CONTINUE) { (void) status(r); goto tail; }
        {
            std::vector<bool> seen(d.blocks.size(), false); bool cut = false;
            while (peek(K_BLOCK_START)) {
                size_t j = d.blocks.size();
                for (size_t k = 0; k < d.blocks.size(); k++) if (!seen[k] && uesc(d.blocks[k].code) == log[pos].id) { j = k; break; }
                if (j == d.blocks.size()) return fail("block_start for a block that is not an unvisited block of the CIF");
                seen[j] = true;
                St bs; if (!container(d.blocks[j], true, bs)) return false;
                if (bs == ENDED) goto tail;
                if (bs == SKIP_SIBS) { cut = true; break; }
            }
            if (!cut) for (size_t k = 0; k < seen.size(); k++) if (!seen[k]) return fail("block " + uesc(d.blocks[k].code) + " was never visited");
            St es; if (!end_event(K_CIF_END, "", !cut, es)) return false;
        }
    tail:
        if (pos != log.size()) return fail(stopped ? "a callback was made after a handler answered END or an error code" : "unexpected callback");
        if (stopped) expect_rc = stop_code;
        return true;
    }
};

static std::string run_case(const CaseFile &c) {
    Doc d;
    if (!cm::parse_doc(c.get("doc"), d)) return "bad case file";
    CaseGuard guard; std::string msg;
    cif_tp *cif = nullptr;
    int rc = cm::build(d, &cif);
    if (rc != CIF_OK) { count_excluded("unbuildable"); label("unbuildable"); return guard.check(); }
    Doc ref;   // the reference content: what the public getters report (values as stored; C07 checks those)
    if ((rc = cm::dump(cif, ref)) != CIF_OK) { (void) cif_destroy(cif); return std::string("dump failed: ") + cm::code_name(rc); }
    Walker w;
    { std::istringstream in(c.get("prog")); std::string tok; while (in >> tok) { size_t col = tok.find(':'); if (col == std::string::npos) continue; long key = atol(tok.substr(1, col - 1).c_str()); int resp = atoi(tok.substr(col + 1).c_str()); if (tok[0] == 'o') w.by_ordinal[key] = resp; else if (tok[0] == 'k') w.by_kind[(int) key] = resp; } }
    cif_handler_tp h = {h_cif_start, h_cif_end, h_block_start, h_block_end, h_frame_start, h_frame_end, h_loop_start, h_loop_end, h_packet_start, h_packet_end, h_item};
    long nullmask = c.geti("nullmask");
    if (nullmask) {   // NULL handler slots behave as "continue": only valid together with an all-CONTINUE program (enforced by the generator)
        void **slots = (void **) &h;
        for (int k = 0; k < N_KIND; k++) if (nullmask & (1L << k)) slots[k] = nullptr;
    }
    rc = cif_walk(cif, &h, &w);
    int directives = 0;
    for (auto &e : w.log) { if (e.resp != CIF_TRAVERSE_CONTINUE) { directives++; label(std::string("resp:") + (e.resp == -1 ? "SKIP_CURRENT" : e.resp == -2 ? "SKIP_SIBLINGS" : e.resp == -3 ? "END" : "error") + "@" + KN[e.kind]); } }
    if (!w.query_error.empty()) msg = w.query_error;
    else if (nullmask) {
        // compare with the full all-CONTINUE log filtered by kind
        Walker full; cif_handler_tp hf = {h_cif_start, h_cif_end, h_block_start, h_block_end, h_frame_start, h_frame_end, h_loop_start, h_loop_end, h_packet_start, h_packet_end, h_item};
        int rc2 = cif_walk(cif, &hf, &full);
        if (rc != CIF_OK || rc2 != CIF_OK) msg = std::string("cif_walk returned ") + cm::code_name(rc != CIF_OK ? rc : rc2) + " with all handlers continuing";
        else {
            std::vector<std::string> a, b;
            for (auto &e : w.log) a.push_back(std::string(KN[e.kind]) + " " + e.id + " " + e.val);
            for (auto &e : full.log) if (!(nullmask & (1L << e.kind))) b.push_back(std::string(KN[e.kind]) + " " + e.id + " " + e.val);
            if (a != b) msg = "with NULL handler slots the remaining callbacks differ from the full traversal filtered by kind";
            Checker ck(full.log); int erc;
            if (msg.empty() && !ck.cif(ref, erc)) msg = "all-CONTINUE traversal is not a complete pre-order visit: " + ck.err;
        }
        label("null-slots");
    } else {
        Checker ck(w.log); int erc = CIF_OK;
        if (!ck.cif(ref, erc)) msg = ck.err;
        else if (rc != erc) msg = std::string("cif_walk returned ") + cm::code_name(rc) + " (" + std::to_string(rc) + "), expected " + std::to_string(erc);
    }
    if (!msg.empty()) { std::string l; size_t n = 0; for (auto &e : w.log) { if (n++ > 60) { l += "...\n"; break; } l += std::string("  ") + KN[e.kind] + " " + e.id + (e.val.empty() ? "" : " = " + e.val) + " -> " + std::to_string(e.resp) + (e.forced ? " (forced)" : "") + "\n"; } msg += "\n--- callback log ---\n" + l; }
    // non-trivial: a directive on an element that has both descendants and later siblings -- approximated as: a non-CONTINUE
    // response to a start callback of a container/loop/packet that was not the last callback of the walk
    bool nt = false;
    for (size_t i = 0; i + 1 < w.log.size(); i++) if (w.log[i].resp != CIF_TRAVERSE_CONTINUE && (w.log[i].kind == K_BLOCK_START || w.log[i].kind == K_FRAME_START || w.log[i].kind == K_LOOP_START || w.log[i].kind == K_PACKET_START || w.log[i].kind == K_ITEM)) nt = true;
    if (nt) nontrivial(fnv(c.get("doc") + c.get("prog")));
    if (directives == 0) label("all-continue");
    if (cif_destroy(cif) != CIF_OK && msg.empty()) msg = "cif_destroy failed";
    if (msg.empty()) msg = guard.check();
    return msg;
}

static long count_events(const Container &c) {
    long n = 2;
    for (auto &l : c.loops) n += 2 + (long) l.rows.size() * (2 + (long) l.names.size());
    for (auto &f : c.frames) n += count_events(f);
    return n;
}

int main(int argc, char **argv) {
    Engine e;
    e.name = "C14_walk";
    e.run = []() {
        { cif_tp *w = nullptr; if (cif_create(&w) == CIF_OK) (void) cif_destroy(w); }
        return rc::check("C14 cif_walk visits everything once and obeys directives", []() {
            g::DocOpts o; o.dialect = cp::CIF2; o.max_blocks = 3; o.max_items = 3; o.max_loops = 3; o.max_cols = 3; o.max_rows = 4; o.max_frames = 2; o.frame_depth = 2;
            o.vo.maxlen = 5; o.vo.maxdepth = 1; o.vo.maxmembers = 2; o.vo.numb_kind = true;
            Doc d = *g::doc(o);
            long total = 2; for (auto &b : d.blocks) total += count_events(b);
            std::string prog; long nullmask = 0;
            int mode = *rc::gen::weightedElement<int>({{2, 0}, {10, 1}, {3, 2}, {2, 3}});
            auto resp = rc::gen::weightedOneOf<int>({{3, rc::gen::just(-1)}, {3, rc::gen::just(-2)}, {2, rc::gen::just(-3)}, {2, rc::gen::element(1, 2, 3, 7, 10, 36, 43, 104, 140, 1000)}});
            if (mode == 1) { int n = *g::range(1, 3); for (int i = 0; i < n; i++) prog += "o" + std::to_string(*g::range(0, (int) std::min<long>(total - 1, 5000))) + ":" + std::to_string(*resp) + " "; }
            else if (mode == 2) { prog += "k" + std::to_string(*g::range(0, N_KIND - 1)) + ":" + std::to_string(*resp) + " "; if (*g::chance(40)) prog += "o" + std::to_string(*g::range(0, (int) std::min<long>(total - 1, 5000))) + ":" + std::to_string(*resp) + " "; }
            else if (mode == 3) nullmask = *g::range(1, (1 << N_KIND) - 1);
            CaseFile c; c.set("doc", cm::ser_plain(d)); c.set("prog", prog); c.seti("nullmask", nullmask);
            VH_BEGIN(c);
            if (c.get("doc").size() < 250) sample("prog=[" + prog + "] nullmask=" + std::to_string(nullmask) + " doc=" + c.get("doc"));
            std::string m = run_case(c);
            if (!m.empty()) { record_fail(c, m); RC_FAIL(m); }
        });
    };
    e.replay = run_case;
    e.classify = [](const CaseFile &) { return std::string(); };
    return engine_main(argc, argv, e);
}
