// C17: a failed memory allocation yields an error code, not a crash or corruption.
// rapidcheck generates scenarios = (pre-state builder, one public API call with argument shapes); for each scenario the engine
// first runs the call fault-free counting the allocations requested inside it (library side through the verif_alloc shim,
// storage-engine side through an SQLite allocator wrapper), then re-runs it once per allocation with exactly that
// allocation failing, and checks the contract: MEMORY_ERROR/ERROR (or NULL) or a clean success identical to the fault-free
// run; caller-owned objects intact; the managed CIF unchanged after a failed modifying call; no leak; retry succeeds.
#include "../common/docgen.hpp"
#include "../common/parsehelp.hpp"
#include "verif_alloc.h"
#undef malloc
#undef calloc
#undef realloc
#undef free
#undef strdup
#include <sqlite3.h>
#include <functional>
#include <sstream>
#include <sys/wait.h>
#include <unistd.h>
using namespace vh;
using cm::Doc;
using cm::Value;

// ---- storage-engine allocation faults -----------------------------------------------------------------------------------
static sqlite3_mem_methods g_sq_default, g_sq_wrap;
static long g_sq_count = 0, g_sq_fail_at = 0; static bool g_sq_fired = false, g_sq_installed = false;
static void *sq_malloc(int n) { g_sq_count++; if (g_sq_fail_at && g_sq_count == g_sq_fail_at) { g_sq_fired = true; g_sq_fail_at = 0; return nullptr; } return g_sq_default.xMalloc(n); }
static void *sq_realloc(void *p, int n) { g_sq_count++; if (g_sq_fail_at && g_sq_count == g_sq_fail_at) { g_sq_fired = true; g_sq_fail_at = 0; return nullptr; } return g_sq_default.xRealloc(p, n); }
static void install_sqlite_hook() {
    if (g_sq_installed) return;
    if (sqlite3_config(SQLITE_CONFIG_GETMALLOC, &g_sq_default) != SQLITE_OK) return;
    g_sq_wrap = g_sq_default; g_sq_wrap.xMalloc = sq_malloc; g_sq_wrap.xRealloc = sq_realloc;
    if (sqlite3_config(SQLITE_CONFIG_MALLOC, &g_sq_wrap) == SQLITE_OK) g_sq_installed = true;
}

// ---- scenario state --------------------------------------------------------------------------------------------------------
struct S {
    cif_tp *cif = nullptr; cif_container_tp *blk = nullptr, *frame = nullptr; cif_loop_tp *loop = nullptr, *sloop = nullptr;
    cif_pktitr_tp *it = nullptr; cif_packet_tp *pkt = nullptr, *pkt2 = nullptr; cif_value_tp *val = nullptr, *val2 = nullptr;
    std::string text; Value mval, mval2;
    // outputs of the call under test (released by the scenario's own cleanup)
    void *out_ptr = nullptr;
    ~S() {
        if (it) (void) cif_pktitr_abort(it);
        cif_packet_free(pkt); cif_packet_free(pkt2); cif_value_free(val); cif_value_free(val2);
        if (loop) cif_loop_free(loop); if (sloop) cif_loop_free(sloop);
        if (frame) cif_container_free(frame); if (blk) cif_container_free(blk);
        if (cif) (void) cif_destroy(cif);
    }
};
struct Params { long a = 0, b = 0; std::string v1, v2, doc; };
struct Scenario {
    const char *name; int needs;   // bit 1: managed CIF fixture, bit 2: open iterator
    bool modifies;                 // the call modifies the managed CIF (so a failure must leave it unchanged)
    bool pointer_result;           // NULL signals failure
    std::function<int(S &, const Params &)> call;          // performs the call; returns its result code (or CIF_OK / CIF_MEMORY_ERROR for pointer results)
    std::function<void(S &)> release;                       // releases what the call handed out (success or failure), via documented functions
};

// Known findings (recorded in KNOWN_FINDINGS.jsonl): (function scenario, allocator side) pairs in which a single failed allocation is not
// handled.  Generated runs skip these pairs (counted); their witnesses are replayed with strict=1.
struct Known { const char *id; const char *scenario; int side; /*0 library, 1 storage engine*/ };
static const Known KNOWN[] = {
    // none left: the library-side and the storage-engine-side defects found were all repaired in /repo
    {"(none)", "(none)", -1},
};
static const char *known_id(const char *scenario, int side) { for (auto &k : KNOWN) if (k.side == side && strcmp(k.scenario, scenario) == 0) return k.id; return nullptr; }

static Value pv(const std::string &s) { Value v; if (!cm::parse_value(s, v)) v = Value::chr(u"x"); return v; }
static const UChar *U(const char16_t *s) { return (const UChar *) s; }

// fixture: block "b" { scalars _s1 _s2 ; loop cat "c" [_l1,_l2,_l3] x 3 packets (one composite value) ; frame "f" { _f1 } }
static bool fixture(S &s, const Params &p, int needs) {
    if (!(needs & 1)) return true;
    UChar *n3[] = {(UChar *) u"_l1", (UChar *) u"_l2", (UChar *) u"_l3", nullptr};
    if (cif_create(&s.cif) != CIF_OK || cif_create_block(s.cif, U(u"b"), &s.blk) != CIF_OK) return false;
    cif_value_tp *v = nullptr; Value comp = (needs & 256) ? Value::chr(u"a plain\nmulti-line string with 'quotes'") : pv(p.v2);   // 256: no composite values (CIF 1.1 output)
    if (cm::to_cif(comp, &v) != CIF_OK) return false;
    bool ok = cif_container_set_value(s.blk, U(u"_s1"), v) == CIF_OK && cif_container_set_value(s.blk, U(u"_s2"), nullptr) == CIF_OK
              && cif_container_create_loop(s.blk, U(u"c"), n3, &s.loop) == CIF_OK && cif_packet_create(&s.pkt, n3) == CIF_OK;
    for (int i = 0; ok && i < 3; i++) {   // every cell distinct, so that a packet assembled from the wrong rows is recognisable
        cif_value_tp *a = nullptr, *c = nullptr;
        ok = cif_value_create(CIF_UNK_KIND, &a) == CIF_OK && cif_value_create(CIF_UNK_KIND, &c) == CIF_OK
             && cif_value_copy_char(a, (const UChar *) vh::u16("row" + std::to_string(i) + "-first").c_str()) == CIF_OK
             && cif_value_copy_char(c, (const UChar *) vh::u16("row" + std::to_string(i) + "-third").c_str()) == CIF_OK
             && cif_packet_set_item(s.pkt, U(u"_l1"), a) == CIF_OK && cif_packet_set_item(s.pkt, U(u"_l3"), c) == CIF_OK
             && cif_packet_set_item(s.pkt, U(u"_l2"), i == 1 ? v : nullptr) == CIF_OK && cif_loop_add_packet(s.loop, s.pkt) == CIF_OK;
        cif_value_free(a); cif_value_free(c);
    }
    cif_value_free(v);
    ok = ok && cif_container_create_frame(s.blk, U(u"f"), &s.frame) == CIF_OK && cif_container_set_value(s.frame, U(u"_f1"), nullptr) == CIF_OK
         && cif_container_get_category_loop(s.blk, U(u""), &s.sloop) == CIF_OK;
    if (ok && (needs & 2)) ok = cif_loop_get_packets(s.loop, &s.it) == CIF_OK && cif_pktitr_next_packet(s.it, nullptr) == CIF_OK;
    if (ok && (needs & 2048)) {   // an update of the current packet, pending in the iterator's transaction
        cif_packet_tp *up = nullptr; cif_value_tp *nv = nullptr; UChar *un[] = {(UChar *) u"_l1", nullptr};
        ok = cif_packet_create(&up, un) == CIF_OK && cif_value_create(CIF_UNK_KIND, &nv) == CIF_OK && cif_value_copy_char(nv, U(u"pending update")) == CIF_OK
             && cif_packet_set_item(up, U(u"_l1"), nv) == CIF_OK && cif_pktitr_update_packet(s.it, up) == CIF_OK;
        cif_value_free(nv); cif_packet_free(up);
    }
    return ok;
}

static int ret_ptr(void *p) { return p ? CIF_OK : CIF_MEMORY_ERROR; }
static void free_handles(void **arr, void (*f)(void *)) { if (!arr) return; for (void **q = arr; *q; q++) f(*q); cm::ufree(arr); }
static void fc(void *p) { cif_container_free((cif_container_tp *) p); }
static void fl(void *p) { cif_loop_free((cif_loop_tp *) p); }
static int noop_c(cif_container_tp *, void *) { return 0; }
static int noop_i(UChar *, cif_value_tp *, void *) { return 0; }

static const std::string &defective_doc() {
    static const std::string d =
        "#\\#CIF_2.0\ndata_d\n_x 1\n_X 2\nloop_ _a _A _b 1 2 3 4 5 6\nloop_ _c _d 1 2 3\n_m\n"
        "save_f _f1 1 save_\nsave_F _f2 2 save_\nsave_g\x7f _g1 1 save_\nsave_G\x7f _g2 2 save_\n"
        "data_D\n_y 'abc\n_t {k:1 'j' 2 :3 'm':}\n_l [1 2\n_r loop_\n_u 'a'b\n"
        "data_e\x7f\n_v 1\ndata_E\x7f\n_w 2\nloop_ _z\ndata_h\nloop_ _p _q\n_s $ref\n_k\n;text\n";
    return d;
}
static std::vector<Scenario> make_scenarios() {
    std::vector<Scenario> v;
    // ---- values
    v.push_back(Scenario{"cif_value_create(list)", 0, false, false, [](S &s, const Params &p) -> int { (void) s; (void) p;  return cif_value_create(p.a % 2 ? CIF_LIST_KIND : CIF_TABLE_KIND, (cif_value_tp **) &s.out_ptr);  }, [](S &s) { (void) s;  cif_value_free((cif_value_tp *) s.out_ptr);  }});
    v.push_back(Scenario{"cif_value_create(char)", 0, false, false, [](S &s, const Params &p) -> int { (void) s; (void) p;  return cif_value_create(p.a % 2 ? CIF_CHAR_KIND : CIF_NUMB_KIND, (cif_value_tp **) &s.out_ptr);  }, [](S &s) { (void) s;  cif_value_free((cif_value_tp *) s.out_ptr);  }});
    v.push_back(Scenario{"cif_value_clone(new)", 4, false, false, [](S &s, const Params &p) -> int { (void) s; (void) p;  return cif_value_clone(s.val, (cif_value_tp **) &s.out_ptr);  }, [](S &s) { (void) s;  cif_value_free((cif_value_tp *) s.out_ptr);  }});
    v.push_back(Scenario{"cif_value_clone(into existing)", 4 | 8, false, false, [](S &s, const Params &p) -> int { (void) s; (void) p;  cif_value_tp *t = s.val2; return cif_value_clone(s.val, &t);  }, [](S &s) { (void) s;  }});
    v.push_back(Scenario{"cif_value_copy_char", 4, false, false, [](S &s, const Params &p) -> int { (void) s; (void) p;  return cif_value_copy_char(s.val, U(u"some replacement text that is long enough to need a fresh buffer"));  }, [](S &s) { (void) s;  }});
    v.push_back(Scenario{"cif_value_init(list)", 4, false, false, [](S &s, const Params &p) -> int { (void) s; (void) p;  return cif_value_init(s.val, p.a % 2 ? CIF_LIST_KIND : CIF_TABLE_KIND);  }, [](S &s) { (void) s;  }});
    v.push_back(Scenario{"cif_value_parse_numb", 4, false, false, [](S &s, const Params &p) -> int { (void) s; (void) p;  UChar *t = cm::udup(u"-12.3450e-2(17)"); if (!t) return CIF_MEMORY_ERROR; int rc = cif_value_parse_numb(s.val, t); if (rc != CIF_OK) cm::ufree(t); return rc;  }, [](S &s) { (void) s;  }});
    v.push_back(Scenario{"cif_value_init_numb", 4, false, false, [](S &s, const Params &p) -> int { (void) s; (void) p;  return cif_value_init_numb(s.val, 1234.5678, 0.012, 3, 5);  }, [](S &s) { (void) s;  }});
    v.push_back(Scenario{"cif_value_autoinit_numb", 4, false, false, [](S &s, const Params &p) -> int { (void) s; (void) p;  return cif_value_autoinit_numb(s.val, -0.00012345, 0.0000023, 19);  }, [](S &s) { (void) s;  }});
    v.push_back(Scenario{"cif_value_get_text", 4, false, false, [](S &s, const Params &p) -> int { (void) s; (void) p;  return cif_value_get_text(s.val, (UChar **) &s.out_ptr);  }, [](S &s) { (void) s;  cm::ufree(s.out_ptr);  }});
    v.push_back(Scenario{"cif_value_get_number(coercion)", 16, false, false, [](S &s, const Params &p) -> int { (void) s; (void) p;  double d; return cif_value_get_number(s.val, &d);  }, [](S &s) { (void) s;  }});
    v.push_back(Scenario{"cif_value_insert_element_at", 32, false, false, [](S &s, const Params &p) -> int { (void) s; (void) p;  return cif_value_insert_element_at(s.val, 0, s.val2);  }, [](S &s) { (void) s;  }});
    v.push_back(Scenario{"cif_value_set_element_at", 32, false, false, [](S &s, const Params &p) -> int { (void) s; (void) p;  return cif_value_set_element_at(s.val, 0, s.val2);  }, [](S &s) { (void) s;  }});
    v.push_back(Scenario{"cif_value_set_item_by_key(new)", 64, false, false, [](S &s, const Params &p) -> int { (void) s; (void) p;  return cif_value_set_item_by_key(s.val, U(u"a new key"), s.val2);  }, [](S &s) { (void) s;  }});
    v.push_back(Scenario{"cif_value_set_item_by_key(existing, respelled)", 64, false, false, [](S &s, const Params &p) -> int { (void) s; (void) p;  return cif_value_set_item_by_key(s.val, U(u"é"), s.val2);  }, [](S &s) { (void) s;  }});
    v.push_back(Scenario{"cif_value_get_keys", 64, false, false, [](S &s, const Params &p) -> int { (void) s; (void) p;  return cif_value_get_keys(s.val, (const UChar ***) &s.out_ptr);  }, [](S &s) { (void) s;  cm::ufree(s.out_ptr);  }});
    v.push_back(Scenario{"cif_value_get_item_by_key", 64, false, false, [](S &s, const Params &p) -> int { (void) s; (void) p;  cif_value_tp *m = nullptr; return cif_value_get_item_by_key(s.val, U(u"k1"), &m);  }, [](S &s) { (void) s;  }});
    v.push_back(Scenario{"cif_value_remove_item_by_key", 64, false, false, [](S &s, const Params &p) -> int { (void) s; (void) p;  return cif_value_remove_item_by_key(s.val, U(u"k1"), (cif_value_tp **) &s.out_ptr);  }, [](S &s) { (void) s;  cif_value_free((cif_value_tp *) s.out_ptr);  }});
    // ---- packets
    v.push_back(Scenario{"cif_packet_create", 0, false, false, [](S &s, const Params &p) -> int { (void) s; (void) p;  UChar *n[] = {(UChar *) u"_a", (UChar *) u"_BÉ", (UChar *) u"_c", nullptr}; return cif_packet_create((cif_packet_tp **) &s.out_ptr, p.a % 3 ? n : nullptr);  }, [](S &s) { (void) s;  cif_packet_free((cif_packet_tp *) s.out_ptr);  }});
    v.push_back(Scenario{"cif_packet_set_item(new)", 128, false, false, [](S &s, const Params &p) -> int { (void) s; (void) p;  return cif_packet_set_item(s.pkt2, U(u"_new_item"), s.val2);  }, [](S &s) { (void) s;  }});
    v.push_back(Scenario{"cif_packet_set_item(existing, respelled)", 128, false, false, [](S &s, const Params &p) -> int { (void) s; (void) p;  return cif_packet_set_item(s.pkt2, U(u"_A"), s.val2);  }, [](S &s) { (void) s;  }});
    v.push_back(Scenario{"cif_packet_get_names", 128, false, false, [](S &s, const Params &p) -> int { (void) s; (void) p;  return cif_packet_get_names(s.pkt2, (const UChar ***) &s.out_ptr);  }, [](S &s) { (void) s;  cm::ufree(s.out_ptr);  }});
    v.push_back(Scenario{"cif_packet_get_item", 128, false, false, [](S &s, const Params &p) -> int { (void) s; (void) p;  cif_value_tp *m = nullptr; return cif_packet_get_item(s.pkt2, U(u"_A"), &m);  }, [](S &s) { (void) s;  }});
    v.push_back(Scenario{"cif_packet_remove_item", 128, false, false, [](S &s, const Params &p) -> int { (void) s; (void) p;  return cif_packet_remove_item(s.pkt2, U(u"_a"), (cif_value_tp **) &s.out_ptr);  }, [](S &s) { (void) s;  cif_value_free((cif_value_tp *) s.out_ptr);  }});
    // ---- utilities
    v.push_back(Scenario{"cif_normalize", 0, false, false, [](S &s, const Params &p) -> int { (void) s; (void) p;  return cif_normalize(U(u"_SomeÉéẞ.Name"), -1, (UChar **) &s.out_ptr);  }, [](S &s) { (void) s;  cm::ufree(s.out_ptr);  }});
    v.push_back(Scenario{"cif_u_strdup", 0, false, true, [](S &s, const Params &p) -> int { (void) s; (void) p;  s.out_ptr = cif_u_strdup(U(u"duplicate me")); return ret_ptr(s.out_ptr);  }, [](S &s) { (void) s;  cm::ufree(s.out_ptr);  }});
    v.push_back(Scenario{"cif_cstr_to_ustr", 0, false, false, [](S &s, const Params &p) -> int { (void) s; (void) p;  return cif_cstr_to_ustr("a C string", -1, (UChar **) &s.out_ptr);  }, [](S &s) { (void) s;  cm::ufree(s.out_ptr);  }});
    v.push_back(Scenario{"cif_get_api_version", 0, false, false, [](S &s, const Params &p) -> int { (void) s; (void) p;  return cif_get_api_version((char **) &s.out_ptr);  }, [](S &s) { (void) s;  cm::ufree(s.out_ptr);  }});
    v.push_back(Scenario{"cif_analyze_string", 0, false, false, [](S &s, const Params &p) -> int { (void) s; (void) p;  struct cif_string_analysis_s a; return cif_analyze_string(U(u"a 'quoted' \"string\"\nwith; lines"), 1, 1, 2048, &a);  }, [](S &s) { (void) s;  }});
    v.push_back(Scenario{"cif_parse_options_create", 0, false, false, [](S &s, const Params &p) -> int { (void) s; (void) p;  return cif_parse_options_create((struct cif_parse_opts_s **) &s.out_ptr);  }, [](S &s) { (void) s;  cm::ufree(s.out_ptr);  }});
    v.push_back(Scenario{"cif_write_options_create", 0, false, false, [](S &s, const Params &p) -> int { (void) s; (void) p;  return cif_write_options_create((struct cif_write_opts_s **) &s.out_ptr);  }, [](S &s) { (void) s;  cm::ufree(s.out_ptr);  }});
    // ---- whole CIF
    v.push_back(Scenario{"cif_create", 0, false, false, [](S &s, const Params &p) -> int { (void) s; (void) p;  return cif_create((cif_tp **) &s.out_ptr);  }, [](S &s) { (void) s;  if (s.out_ptr) (void) cif_destroy((cif_tp *) s.out_ptr);  }});
    v.push_back(Scenario{"cif_create_block", 1, true, false, [](S &s, const Params &p) -> int { (void) s; (void) p;  return cif_create_block(s.cif, U(u"New_Block"), p.a % 2 ? (cif_block_tp **) &s.out_ptr : nullptr);  }, [](S &s) { (void) s;  if (s.out_ptr) cif_container_free((cif_container_tp *) s.out_ptr);  }});
    v.push_back(Scenario{"cif_get_block", 1, false, false, [](S &s, const Params &p) -> int { (void) s; (void) p;  return cif_get_block(s.cif, U(u"B"), (cif_block_tp **) &s.out_ptr);  }, [](S &s) { (void) s;  if (s.out_ptr) cif_container_free((cif_container_tp *) s.out_ptr);  }});
    v.push_back(Scenario{"cif_get_all_blocks", 1, false, false, [](S &s, const Params &p) -> int { (void) s; (void) p;  return cif_get_all_blocks(s.cif, (cif_block_tp ***) &s.out_ptr);  }, [](S &s) { (void) s;  free_handles((void **) s.out_ptr, fc);  }});
    v.push_back(Scenario{"cif_walk", 1, false, false, [](S &s, const Params &p) -> int { (void) s; (void) p;  cif_handler_tp h; memset(&h, 0, sizeof h); h.handle_block_start = noop_c; h.handle_item = noop_i; return cif_walk(s.cif, &h, nullptr);  }, [](S &s) { (void) s;  }});
    v.push_back(Scenario{"cif_write(2.0)", 1, false, false, [](S &s, const Params &p) -> int { (void) s; (void) p;  FILE *f = fopen("/dev/null", "wb"); int rc = cif_write(f, nullptr, s.cif); fclose(f); return rc;  }, [](S &s) { (void) s;  }});
    v.push_back(Scenario{"cif_write(1.1)", 1 | 256, false, false, [](S &s, const Params &p) -> int { (void) s; (void) p;  struct cif_write_opts_s o; o.cif_version = 1; FILE *f = fopen("/dev/null", "wb"); int rc = cif_write(f, &o, s.cif); fclose(f); return rc;  }, [](S &s) { (void) s;  }});
    v.push_back(Scenario{"cif_parse(into existing)", 1, true, false, [](S &s, const Params &p) -> int { (void) s; (void) p;  FILE *f = ph::mem_file(p.doc); cif_tp *t = s.cif; int rc = cif_parse(f, nullptr, &t); fclose(f); return rc;  }, [](S &s) { (void) s;  }});
    v.push_back(Scenario{"cif_parse(new cif)", 0, false, false, [](S &s, const Params &p) -> int { (void) s; (void) p;  FILE *f = ph::mem_file(p.doc); int rc = cif_parse(f, nullptr, (cif_tp **) &s.out_ptr); fclose(f); return rc;  }, [](S &s) { (void) s;  if (s.out_ptr) (void) cif_destroy((cif_tp *) s.out_ptr);  }});
    v.push_back(Scenario{"cif_parse(syntax only)", 0, false, false, [](S &s, const Params &p) -> int { (void) s; (void) p;  FILE *f = ph::mem_file(p.doc); int rc = cif_parse(f, nullptr, nullptr); fclose(f); return rc;  }, [](S &s) { (void) s;  }});
    // ---- containers
    v.push_back(Scenario{"cif_container_create_frame", 1, true, false, [](S &s, const Params &p) -> int { (void) s; (void) p;  return cif_container_create_frame(s.blk, U(u"New_Frame"), p.a % 2 ? (cif_frame_tp **) &s.out_ptr : nullptr);  }, [](S &s) { (void) s;  if (s.out_ptr) cif_container_free((cif_container_tp *) s.out_ptr);  }});
    v.push_back(Scenario{"cif_container_get_frame", 1, false, false, [](S &s, const Params &p) -> int { (void) s; (void) p;  return cif_container_get_frame(s.blk, U(u"F"), (cif_frame_tp **) &s.out_ptr);  }, [](S &s) { (void) s;  if (s.out_ptr) cif_container_free((cif_container_tp *) s.out_ptr);  }});
    v.push_back(Scenario{"cif_container_get_all_frames", 1, false, false, [](S &s, const Params &p) -> int { (void) s; (void) p;  return cif_container_get_all_frames(s.blk, (cif_frame_tp ***) &s.out_ptr);  }, [](S &s) { (void) s;  free_handles((void **) s.out_ptr, fc);  }});
    v.push_back(Scenario{"cif_container_get_code", 1, false, false, [](S &s, const Params &p) -> int { (void) s; (void) p;  return cif_container_get_code(s.blk, (UChar **) &s.out_ptr);  }, [](S &s) { (void) s;  cm::ufree(s.out_ptr);  }});
    v.push_back(Scenario{"cif_container_create_loop", 1, true, false, [](S &s, const Params &p) -> int { (void) s; (void) p;  UChar *n[] = {(UChar *) u"_n1", (UChar *) u"_N2", (UChar *) u"_n3é", nullptr}; return cif_container_create_loop(s.blk, p.a % 2 ? U(u"cat2") : nullptr, n, p.b % 2 ? (cif_loop_tp **) &s.out_ptr : nullptr);  }, [](S &s) { (void) s;  if (s.out_ptr) cif_loop_free((cif_loop_tp *) s.out_ptr);  }});
    v.push_back(Scenario{"cif_container_get_category_loop", 1, false, false, [](S &s, const Params &p) -> int { (void) s; (void) p;  return cif_container_get_category_loop(s.blk, U(u"c"), (cif_loop_tp **) &s.out_ptr);  }, [](S &s) { (void) s;  if (s.out_ptr) cif_loop_free((cif_loop_tp *) s.out_ptr);  }});
    v.push_back(Scenario{"cif_container_get_item_loop", 1, false, false, [](S &s, const Params &p) -> int { (void) s; (void) p;  return cif_container_get_item_loop(s.blk, U(u"_L2"), (cif_loop_tp **) &s.out_ptr);  }, [](S &s) { (void) s;  if (s.out_ptr) cif_loop_free((cif_loop_tp *) s.out_ptr);  }});
    v.push_back(Scenario{"cif_container_get_all_loops", 1, false, false, [](S &s, const Params &p) -> int { (void) s; (void) p;  return cif_container_get_all_loops(s.blk, (cif_loop_tp ***) &s.out_ptr);  }, [](S &s) { (void) s;  free_handles((void **) s.out_ptr, fl);  }});
    v.push_back(Scenario{"cif_container_prune", 1, true, false, [](S &s, const Params &p) -> int { (void) s; (void) p;  return cif_container_prune(s.blk);  }, [](S &s) { (void) s;  }});
    v.push_back(Scenario{"cif_container_get_value(scalar)", 1, false, false, [](S &s, const Params &p) -> int { (void) s; (void) p;  return cif_container_get_value(s.blk, U(u"_S1"), (cif_value_tp **) &s.out_ptr);  }, [](S &s) { (void) s;  cif_value_free((cif_value_tp *) s.out_ptr);  }});
    v.push_back(Scenario{"cif_container_get_value(looped)", 1, false, false, [](S &s, const Params &p) -> int { (void) s; (void) p;  int rc = cif_container_get_value(s.blk, U(u"_l2"), (cif_value_tp **) &s.out_ptr); return rc == CIF_AMBIGUOUS_ITEM ? CIF_OK : rc;  }, [](S &s) { (void) s;  cif_value_free((cif_value_tp *) s.out_ptr);  }});
    v.push_back(Scenario{"cif_container_set_value(new scalar)", 1 | 8, true, false, [](S &s, const Params &p) -> int { (void) s; (void) p;  return cif_container_set_value(s.blk, U(u"_new_scalar"), s.val2);  }, [](S &s) { (void) s;  }});
    v.push_back(Scenario{"cif_container_set_value(existing looped)", 1 | 8, true, false, [](S &s, const Params &p) -> int { (void) s; (void) p;  return cif_container_set_value(s.blk, U(u"_L3"), s.val2);  }, [](S &s) { (void) s;  }});
    v.push_back(Scenario{"cif_container_remove_item", 1, true, false, [](S &s, const Params &p) -> int { (void) s; (void) p;  return cif_container_remove_item(s.blk, p.a % 2 ? U(u"_l1") : U(u"_s2"));  }, [](S &s) { (void) s;  }});
    v.push_back(Scenario{"cif_container_destroy(frame)", 1, true, false, [](S &s, const Params &p) -> int { (void) s; (void) p;  int rc = cif_container_destroy(s.frame); if (rc == CIF_OK) s.frame = nullptr; return rc;  }, [](S &s) { (void) s;  }});
    // ---- loops
    v.push_back(Scenario{"cif_loop_get_category", 1, false, false, [](S &s, const Params &p) -> int { (void) s; (void) p;  return cif_loop_get_category(s.loop, (UChar **) &s.out_ptr);  }, [](S &s) { (void) s;  cm::ufree(s.out_ptr);  }});
    v.push_back(Scenario{"cif_loop_set_category", 1, true, false, [](S &s, const Params &p) -> int { (void) s; (void) p;  return cif_loop_set_category(s.loop, p.a % 2 ? U(u"renamed") : nullptr);  }, [](S &s) { (void) s;  }});
    v.push_back(Scenario{"cif_loop_get_names", 1, false, false, [](S &s, const Params &p) -> int { (void) s; (void) p;  return cif_loop_get_names(s.loop, (UChar ***) &s.out_ptr);  }, [](S &s) { (void) s;  if (s.out_ptr) { for (UChar **q = (UChar **) s.out_ptr; *q; q++) cm::ufree(*q); cm::ufree(s.out_ptr); }  }});
    v.push_back(Scenario{"cif_loop_add_item", 1 | 8, true, false, [](S &s, const Params &p) -> int { (void) s; (void) p;  return cif_loop_add_item(s.loop, U(u"_added"), p.a % 2 ? s.val2 : nullptr);  }, [](S &s) { (void) s;  }});
    v.push_back(Scenario{"cif_loop_add_packet", 1, true, false, [](S &s, const Params &p) -> int { (void) s; (void) p;  return cif_loop_add_packet(s.loop, s.pkt);  }, [](S &s) { (void) s;  }});
    v.push_back(Scenario{"cif_loop_get_packets", 1, false, false, [](S &s, const Params &p) -> int { (void) s; (void) p;  return cif_loop_get_packets(s.loop, &s.it);  }, [](S &s) { (void) s;  }});
    v.push_back(Scenario{"cif_loop_destroy", 1, true, false, [](S &s, const Params &p) -> int { (void) s; (void) p;  int rc = cif_loop_destroy(s.loop); if (rc == CIF_OK) s.loop = nullptr; return rc;  }, [](S &s) { (void) s;  }});
    // ---- iterators
    v.push_back(Scenario{"cif_pktitr_next_packet(new)", 1 | 2, false, false, [](S &s, const Params &p) -> int { (void) s; (void) p;  return cif_pktitr_next_packet(s.it, (cif_packet_tp **) &s.out_ptr);  }, [](S &s) { (void) s;  cif_packet_free((cif_packet_tp *) s.out_ptr);  }});
    v.push_back(Scenario{"cif_pktitr_next_packet(reuse)", 1 | 2, false, false, [](S &s, const Params &p) -> int { (void) s; (void) p;  return cif_pktitr_next_packet(s.it, &s.pkt);  }, [](S &s) { (void) s;  }});
    v.push_back(Scenario{"cif_pktitr_update_packet", 1 | 2, false, false, [](S &s, const Params &p) -> int { (void) s; (void) p;  return cif_pktitr_update_packet(s.it, s.pkt);  }, [](S &s) { (void) s;  }});
    v.push_back(Scenario{"cif_pktitr_remove_packet", 1 | 2, false, false, [](S &s, const Params &p) -> int { (void) s; (void) p;  return cif_pktitr_remove_packet(s.it);  }, [](S &s) { (void) s;  }});
    v.push_back(Scenario{"cif_pktitr_close", 1 | 2, false, false, [](S &s, const Params &p) -> int { (void) s; (void) p;  int rc = cif_pktitr_close(s.it); s.it = nullptr; return rc;  }, [](S &s) { (void) s;  }});
    v.push_back(Scenario{"cif_pktitr_abort", 1 | 2, false, false, [](S &s, const Params &p) -> int { (void) s; (void) p;  int rc = cif_pktitr_abort(s.it); s.it = nullptr; return rc;  }, [](S &s) { (void) s;  }});
    // appended later (replay files refer to scenarios by index, so new ones go at the end)
    v.push_back(Scenario{"cif_pktitr_next_packet(into unrelated packet)", 1 | 2 | 128, false, false, [](S &s, const Params &p) -> int { (void) s; (void) p;  return cif_pktitr_next_packet(s.it, &s.pkt2);  }, [](S &s) { (void) s;  }});
    v.push_back(Scenario{"cif_container_set_value(existing scalar)", 1 | 8, true, false, [](S &s, const Params &p) -> int { (void) s; (void) p;  return cif_container_set_value(s.blk, U(u"_S2"), s.val2);  }, [](S &s) { (void) s;  }});
    v.push_back(Scenario{"cif_container_set_value(big list, new scalar)", 1 | 512, true, false, [](S &s, const Params &p) -> int { (void) s; (void) p;  return cif_container_set_value(s.blk, U(u"_big_scalar"), s.val2);  }, [](S &s) { (void) s;  }});
    v.push_back(Scenario{"cif_container_set_value(big list, existing looped)", 1 | 512, true, false, [](S &s, const Params &p) -> int { (void) s; (void) p;  return cif_container_set_value(s.blk, U(u"_l1"), s.val2);  }, [](S &s) { (void) s;  }});
    v.push_back(Scenario{"cif_value_set_item_by_key(key that NFC lengthens by one unit)", 64, false, false, [](S &s, const Params &p) -> int { (void) s; (void) p;  return cif_value_set_item_by_key(s.val, U(u"k\u0958"), s.val2);  }, [](S &s) { (void) s;  }});
    v.push_back(Scenario{"cif_value_get_item_by_key(key that NFC lengthens by one unit)", 64, false, false, [](S &s, const Params &p) -> int { (void) s; (void) p;  cif_value_tp *m = nullptr; int rc = cif_value_get_item_by_key(s.val, U(u"\u0f43x"), &m); return rc == CIF_NOSUCH_ITEM ? CIF_OK : rc;  }, [](S &s) { (void) s;  }});
    // a document full of recoverable defects, every error accepted: the recovery paths (duplicate checks, re-opened containers, dropped
    // columns, padded packets) allocate too
    v.push_back(Scenario{"cif_parse(defective document, errors accepted, into existing)", 1, true, false, [](S &s, const Params &p) -> int { (void) p;  struct cif_parse_opts_s *o = nullptr; int rc = cif_parse_options_create(&o); if (rc != CIF_OK) return rc; o->error_callback = cif_parse_error_ignore; FILE *f = ph::mem_file(defective_doc()); cif_tp *t = s.cif; rc = cif_parse(f, o, &t); fclose(f); cm::ufree(o); return rc;  }, [](S &s) { (void) s;  }});
    v.push_back(Scenario{"cif_parse(defective document, errors accepted, syntax only)", 0, false, false, [](S &s, const Params &p) -> int { (void) s; (void) p;  struct cif_parse_opts_s *o = nullptr; int rc = cif_parse_options_create(&o); if (rc != CIF_OK) return rc; o->error_callback = cif_parse_error_ignore; FILE *f = ph::mem_file(defective_doc()); rc = cif_parse(f, o, nullptr); fclose(f); cm::ufree(o); return rc;  }, [](S &s) { (void) s;  }});
    // read-only calls made while an iterator with a pending (uncommitted) update is open: whatever the call returns, the iterator stays
    // usable, can be closed, and its pending update is committed (needs bit 2048; checked after every fault point)
    v.push_back(Scenario{"cif_container_get_all_loops(iterator with a pending update open)", 1 | 2 | 2048, false, false, [](S &s, const Params &p) -> int { (void) s; (void) p;  return cif_container_get_all_loops(s.blk, (cif_loop_tp ***) &s.out_ptr);  }, [](S &s) { (void) s;  free_handles((void **) s.out_ptr, fl);  }});
    v.push_back(Scenario{"cif_loop_get_names(iterator with a pending update open)", 1 | 2 | 2048, false, false, [](S &s, const Params &p) -> int { (void) s; (void) p;  return cif_loop_get_names(s.sloop, (UChar ***) &s.out_ptr);  }, [](S &s) { (void) s;  if (s.out_ptr) { for (UChar **q = (UChar **) s.out_ptr; *q; q++) cm::ufree(*q); cm::ufree(s.out_ptr); }  }});
    v.push_back(Scenario{"cif_container_get_item_loop(iterator with a pending update open)", 1 | 2 | 2048, false, false, [](S &s, const Params &p) -> int { (void) s; (void) p;  return cif_container_get_item_loop(s.blk, U(u"_S2"), (cif_loop_tp **) &s.out_ptr);  }, [](S &s) { (void) s;  if (s.out_ptr) cif_loop_free((cif_loop_tp *) s.out_ptr);  }});
    v.push_back(Scenario{"cif_container_get_value(iterator with a pending update open)", 1 | 2 | 2048, false, false, [](S &s, const Params &p) -> int { (void) s; (void) p;  return cif_container_get_value(s.blk, U(u"_S1"), (cif_value_tp **) &s.out_ptr);  }, [](S &s) { (void) s;  cif_value_free((cif_value_tp *) s.out_ptr);  }});
    v.push_back(Scenario{"cif_container_get_all_frames(iterator with a pending update open)", 1 | 2 | 2048, false, false, [](S &s, const Params &p) -> int { (void) s; (void) p;  return cif_container_get_all_frames(s.blk, (cif_frame_tp ***) &s.out_ptr);  }, [](S &s) { (void) s;  free_handles((void **) s.out_ptr, fc);  }});
    v.push_back(Scenario{"cif_get_all_blocks(iterator with a pending update open)", 1 | 2 | 2048, false, false, [](S &s, const Params &p) -> int { (void) s; (void) p;  return cif_get_all_blocks(s.cif, (cif_block_tp ***) &s.out_ptr);  }, [](S &s) { (void) s;  free_handles((void **) s.out_ptr, fc);  }});
    // the first use of a read function on a CIF: its SQL statement is prepared inside the call (needs bit 4096: no snapshot of the CIF is
    // taken beforehand -- the dump would prepare the statement -- the "before" state comes from an identical twin fixture)
    v.push_back(Scenario{"cif_container_get_all_loops(first use on this CIF)", 1 | 4096, false, false, [](S &s, const Params &p) -> int { (void) s; (void) p;  return cif_container_get_all_loops(s.blk, (cif_loop_tp ***) &s.out_ptr);  }, [](S &s) { (void) s;  free_handles((void **) s.out_ptr, fl);  }});
    v.push_back(Scenario{"cif_container_get_all_frames(first use on this CIF)", 1 | 4096, false, false, [](S &s, const Params &p) -> int { (void) s; (void) p;  return cif_container_get_all_frames(s.blk, (cif_frame_tp ***) &s.out_ptr);  }, [](S &s) { (void) s;  free_handles((void **) s.out_ptr, fc);  }});
    v.push_back(Scenario{"cif_get_all_blocks(first use on this CIF)", 1 | 4096, false, false, [](S &s, const Params &p) -> int { (void) s; (void) p;  return cif_get_all_blocks(s.cif, (cif_block_tp ***) &s.out_ptr);  }, [](S &s) { (void) s;  free_handles((void **) s.out_ptr, fc);  }});
    v.push_back(Scenario{"cif_loop_get_names(first use on this CIF)", 1 | 4096, false, false, [](S &s, const Params &p) -> int { (void) s; (void) p;  return cif_loop_get_names(s.loop, (UChar ***) &s.out_ptr);  }, [](S &s) { (void) s;  if (s.out_ptr) { for (UChar **q = (UChar **) s.out_ptr; *q; q++) cm::ufree(*q); cm::ufree(s.out_ptr); }  }});
    v.push_back(Scenario{"cif_loop_get_packets(first use on this CIF)", 1 | 4096, false, false, [](S &s, const Params &p) -> int { (void) p;  int rc = cif_loop_get_packets(s.loop, &s.it); return rc;  }, [](S &s) { (void) s;  }});
    return v;
}
static const std::vector<Scenario> &scenarios() { static std::vector<Scenario> v = make_scenarios(); return v; }

// builds the non-CIF parts of the pre-state according to the needs bits
static bool prepare(S &s, const Scenario &sc, const Params &p) {
    if (!fixture(s, p, sc.needs)) return false;
    if (sc.needs & 4) { s.mval = pv(p.v2); if (cm::to_cif(s.mval, &s.val) != CIF_OK) return false; }
    if (sc.needs & 8) { s.mval2 = pv(p.v1); if (cm::to_cif(s.mval2, &s.val2) != CIF_OK) return false; if (!(sc.needs & 4) && sc.needs == 8) {} }
    if ((sc.needs & (4 | 8)) == (4 | 8) && !s.val2) return false;
    if (sc.needs & 16) { s.mval = Value::chr(u"-1.2345e+03(12)", false); if (cif_value_create(CIF_UNK_KIND, &s.val) != CIF_OK || cif_value_copy_char(s.val, U(u"-1.2345e+03(12)")) != CIF_OK) return false; }
    if (sc.needs & 32) { s.mval = Value::list({Value::chr(u"first"), pv(p.v2), Value::na(), Value::chr(u"fourth")}); s.mval2 = pv(p.v1); if (cm::to_cif(s.mval, &s.val) != CIF_OK || cm::to_cif(s.mval2, &s.val2) != CIF_OK) return false; }
    if (sc.needs & 64) { s.mval = Value::table({{u"k1", pv(p.v2)}, {u"é", Value::chr(u"accent")}, {u"", Value::unk()}}); s.mval2 = pv(p.v1); if (cm::to_cif(s.mval, &s.val) != CIF_OK || cm::to_cif(s.mval2, &s.val2) != CIF_OK) return false; }
    if (sc.needs & 512) {   // a list whose serialised form outgrows the 512-byte serialisation buffer several times over
        std::vector<Value> el; for (int i = 0; i < 60; i++) el.push_back(Value::chr(u16("element-" + std::to_string(100 + i) + "-xxxxxxxx")));
        s.mval2 = Value::list(el); if (cm::to_cif(s.mval2, &s.val2) != CIF_OK) return false;
    }
    if (sc.needs & 128) { UChar *n[] = {(UChar *) u"_a", (UChar *) u"_B", nullptr}; s.mval2 = pv(p.v1); if (cif_packet_create(&s.pkt2, n) != CIF_OK || cm::to_cif(s.mval2, &s.val2) != CIF_OK || cif_packet_set_item(s.pkt2, U(u"_a"), s.val2) != CIF_OK) return false; }
    return true;
}
// snapshot = "<dump of the managed CIF>" + "\x01" + "<caller-owned values and packets>"
static std::string cif_part(const std::string &snap) { return snap.substr(0, snap.find('\x01')); }
static bool objects_readable(const std::string &snap) { return snap.find("<unreadable", snap.find('\x01')) == std::string::npos && snap.find("<names unreadable>") == std::string::npos; }
static std::string snapshot(S &s) {
    std::string o;
    if (s.cif) { Doc d; int rc = cm::dump(s.cif, d); o += rc == CIF_OK ? cm::ser(d, cm::EXACT, true) : std::string("<dump failed ") + cm::code_name(rc) + ">"; }
    o += '\x01';
    for (cif_value_tp *v : {s.val, s.val2}) { if (!v) { o += "|-"; continue; } Value m; o += "|" + (cm::from_cif(v, m) == CIF_OK ? cm::ser(m) : std::string("<unreadable value>")); }
    for (cif_packet_tp *p : {s.pkt, s.pkt2}) {
        if (!p) { o += "|-"; continue; }
        const UChar **names = nullptr; o += "|pkt:";
        if (cif_packet_get_names(p, &names) != CIF_OK) { o += "<names unreadable>"; continue; }
        for (const UChar **n = names; *n; n++) { cif_value_tp *v = nullptr; Value m; o += uesc(cm::norm_name(ustr((const char16_t *) *n))) + "="; o += (cif_packet_get_item(p, *n, &v) == CIF_OK && cm::from_cif(v, m) == CIF_OK) ? cm::ser(m) : std::string("?"); o += ","; }
        cm::ufree(names);
    }
    return o;
}

static std::string pkt_ser(cif_packet_tp *p) {
    if (!p) return "-";
    const UChar **names = nullptr; std::string o;
    if (cif_packet_get_names(p, &names) != CIF_OK) return "<names unreadable>";
    for (const UChar **n = names; *n; n++) { cif_value_tp *v = nullptr; Value m; o += uesc(cm::norm_name(ustr((const char16_t *) *n))) + "="; o += (cif_packet_get_item(p, *n, &v) == CIF_OK && cm::from_cif(v, m) == CIF_OK) ? cm::ser(m) : std::string("?"); o += ","; }
    cm::ufree(names);
    return o;
}
// the packet a cif_pktitr_next_packet scenario delivers into (nullptr for every other scenario)
static cif_packet_tp *delivered(S &s, const Scenario &sc) {
    if (strncmp(sc.name, "cif_pktitr_next_packet", 22) != 0) return nullptr;
    if (strstr(sc.name, "(new)")) return (cif_packet_tp *) s.out_ptr;
    if (strstr(sc.name, "(reuse)")) return s.pkt;
    return s.pkt2;
}
static long g_fail_k = 0;   // fault index at which the last failing run_case stopped (recorded into the replay case)
static std::string run_case(const CaseFile &c) {
    install_sqlite_hook();
    g_fail_k = 0;
    size_t idx = (size_t) c.geti("scenario") % scenarios().size();
    const Scenario &sc = scenarios()[idx];
    Params p; p.a = c.geti("a"); p.b = c.geti("b"); p.v1 = c.get("v1"); p.v2 = c.get("v2"); p.doc = c.get("doc");
    bool sqlite_side = c.geti("sqlite") != 0;
    long only_k = c.geti("k", 0);        // replay of one fault point
    label(std::string("fn:") + sc.name);
    if (const char *kid = known_id(sc.name, sqlite_side ? 1 : 0)) if (!c.geti("strict")) { count_excluded(kid); label(std::string("excluded:") + kid); return ""; }
    const bool is_parse = strncmp(sc.name, "cif_parse", 9) == 0;   // cif_parse is documented to possibly leave a modified target behind on failure
    if (getenv("VERIF_C17_SHOW")) fprintf(stderr, "scenario %zu = %s\n", idx, sc.name);
    CaseGuard guard;
    std::string msg;
    // 1. fault-free reference run
    long n_lib = 0, n_sql = 0; int r0; std::string post0, ref_pkt;
    {
        S s; if (!prepare(s, sc, p)) { count_excluded("fixture"); return guard.check(); }
        if (sc.needs & 2) { /* iterator open: snapshot of the CIF is not taken while it is open */ }
        verif_reset_count(); g_sq_count = 0;
        r0 = sc.call(s, p);
        n_lib = verif_total(); n_sql = g_sq_count;
        if (delivered(s, sc)) ref_pkt = pkt_ser(delivered(s, sc));
        sc.release(s); s.out_ptr = nullptr;
        if (s.it && (sc.needs & 2048)) { int cr = cif_pktitr_close(s.it); s.it = nullptr; if (cr != CIF_OK) return std::string("scenario ") + sc.name + ": the iterator cannot be closed without faults: " + cm::code_name(cr); }
        if (s.it) { (void) cif_pktitr_abort(s.it); s.it = nullptr; }
        post0 = snapshot(s);
    }
    if (r0 != CIF_OK && r0 != CIF_FINISHED) { label("reference-call-failed"); return std::string("scenario ") + sc.name + " does not succeed without faults: " + cm::code_name(r0); }
    long n = sqlite_side ? n_sql : n_lib;
    // calls with more than 400 allocations (parse/write of documents): at most 400 fault points per case, spread evenly over
    // the whole call with an offset drawn from the case (a, b) -- so that different cases cover different points and a run of
    // many cases covers them all; the number enumerated is reported
    long stride = 1, offset = 0;
    if (n > 400) { stride = (n + 399) / 400; offset = (p.a * 10 + p.b) % stride; label("fault-points-sampled"); }
    note(sqlite_side ? "fault_points_sqlite" : "fault_points_library", only_k ? 1 : (n - offset + stride - 1) / stride);
    if (n_lib >= 2) nontrivial(fnv(std::string(sc.name) + c.get("v1") + c.get("v2") + c.get("doc") + (sqlite_side ? "S" : "L")));
    // 2. one run per allocation, that allocation failing
    long last_k = 0;
    for (long k = only_k ? only_k : 1 + offset; k <= n && msg.empty(); k += stride) {
        if (only_k && k != only_k) break;
        last_k = k;
        S s; if (!prepare(s, sc, p)) { msg = "fixture could not be rebuilt"; break; }
        std::string pre;
        if (sc.needs & 4096) { S twin; if (!prepare(twin, sc, p)) { msg = "fixture could not be rebuilt"; break; } pre = snapshot(twin); }
        else if (!(sc.needs & 2)) pre = snapshot(s);
        if (sqlite_side) { g_sq_count = 0; g_sq_fired = false; g_sq_fail_at = k; } else verif_fail_at(k);
        int rc = sc.call(s, p);
        bool fired;
        if (sqlite_side) { fired = g_sq_fired; g_sq_fail_at = 0; } else { fired = verif_fault_fired(); verif_fail_at(0); }
        std::string at = std::string(sc.name) + " with " + (sqlite_side ? "storage-engine" : "library") + " allocation #" + std::to_string(k) + " of " + std::to_string(n) + " failing: ";
        if (!fired) { sc.release(s); s.out_ptr = nullptr; label("fault-not-reached"); continue; }   // allocation pattern differs run to run (caches): nothing to check
        if (rc == CIF_OK || rc == CIF_FINISHED) {
            // the library survived the failed allocation: then the outcome must be the fault-free one
            sc.release(s); s.out_ptr = nullptr;
            if (s.it && (sc.needs & 2048) && sqlite_side) { (void) cif_pktitr_abort(s.it); s.it = nullptr; continue; }   // (see below: the storage engine may have rolled the iterator's transaction back)
            if (s.it && (sc.needs & 2048)) { int cr = cif_pktitr_close(s.it); s.it = nullptr; if (cr != CIF_OK) { msg = at + "returned " + cm::code_name(rc) + ", but afterwards the open iterator could not be closed: " + cm::code_name(cr); continue; } }
            if (s.it && !(sc.needs & 2)) { (void) cif_pktitr_abort(s.it); s.it = nullptr; }
            if (s.it) { (void) cif_pktitr_abort(s.it); s.it = nullptr; }
            std::string post = snapshot(s);
            if (rc != r0) msg = at + "returned " + cm::code_name(rc) + " (fault-free run: " + cm::code_name(r0) + ")";
            else if (post != post0) msg = at + "reported success but the outcome differs from the fault-free run\n--- fault-free\n" + post0 + "\n--- with fault\n" + post;
            label("survived");
            continue;
        }
        label(std::string("rc:") + cm::code_name(rc));
        if (rc != CIF_MEMORY_ERROR && rc != CIF_ERROR) { msg = at + "returned " + cm::code_name(rc) + " (" + std::to_string(rc) + "), expected CIF_MEMORY_ERROR or CIF_ERROR"; sc.release(s); s.out_ptr = nullptr; break; }
        sc.release(s); s.out_ptr = nullptr;
        if (s.it && !(sc.needs & 2)) { (void) cif_pktitr_abort(s.it); s.it = nullptr; }
        if (!(sc.needs & 2)) {
            // caller-owned objects still valid (readable, and released normally below); the managed CIF consistent and unchanged
            std::string post = snapshot(s);
            if (is_parse) { /* exempt: "In the event of a failure ... the provided CIF object may still be modified" (cif.h) */
                if (cif_part(post).find("<dump failed") != std::string::npos) msg = at + "failed with " + cm::code_name(rc) + " and left the target CIF unreadable";
                continue;
            }
            if (cif_part(post) != cif_part(pre)) msg = at + "failed with " + cm::code_name(rc) + " but the managed CIF is no longer what it was\n--- before\n" + cif_part(pre) + "\n--- after\n" + cif_part(post);
            else if (!objects_readable(post)) msg = at + "failed with " + cm::code_name(rc) + " and left a caller-owned object unreadable: " + post.substr(post.find('\x01') + 1);
            // 3. retry with memory available: behaves like the fault-free run
            if (msg.empty()) {
                int rr = sc.call(s, p);
                sc.release(s); s.out_ptr = nullptr;
                if (s.it) { (void) cif_pktitr_abort(s.it); s.it = nullptr; }
                std::string postr = snapshot(s);
                if (rr != r0) msg = at + "after the failure the same call, repeated with memory available, returned " + cm::code_name(rr);
                else if (cif_part(postr) != cif_part(post0)) msg = at + "the retried call succeeded but the managed CIF differs from the fault-free run\n--- fault-free\n" + cif_part(post0) + "\n--- retried\n" + cif_part(postr);
            }
            // 4. the CIF is still fully usable: an unrelated modifying call (which needs a top-level transaction of its own) works --
            //    it does not when the failed call left a transaction or savepoint open
            if (msg.empty() && s.cif) {
                cif_block_tp *cb = nullptr; int cr = cif_create_block(s.cif, U(u"canary_zz"), &cb);
                if (cr == CIF_OK) cr = cif_container_destroy(cb); else if (cb) cif_container_free(cb);
                if (cr != CIF_OK) msg = at + "failed with " + cm::code_name(rc) + "; afterwards creating and destroying an unrelated block fails with " + cm::code_name(cr) + " (a transaction left open?)";
            }
        } else {
            // iterator scenarios: the iterator (if it still exists) can be aborted and the CIF read afterwards
            if (s.it && !ref_pkt.empty() && !sqlite_side) {
                // cif_pktitr_next_packet failed for lack of memory: repeated with memory available it succeeds and delivers the packet
                // the failed call should have delivered (not one assembled from whatever rows the failed call left unread)
                int rr = sc.call(s, p);
                std::string got = delivered(s, sc) ? pkt_ser(delivered(s, sc)) : std::string("-");
                sc.release(s); s.out_ptr = nullptr;
                if (rr != r0) msg = at + "failed with " + cm::code_name(rc) + "; the same call repeated with memory available returned " + cm::code_name(rr);
                else if (got != ref_pkt) msg = at + "failed with " + cm::code_name(rc) + "; the same call repeated with memory available delivered another packet\n--- fault-free\n" + ref_pkt + "\n--- retried\n" + got;
                if (!msg.empty()) break;
            }
            if (s.it && (sc.needs & 2048) && sqlite_side) {
                // a statement that runs out of memory inside the storage engine makes SQLite roll back the WHOLE active transaction
                // (sqlite3VdbeHalt: "we are forced to roll back the active transaction") -- the iterator's transaction with it; nothing
                // the library does can keep the pending update, so only the weaker clause below (abortable, CIF readable) applies
                int cr = cif_pktitr_close(s.it); s.it = nullptr;
                label(cr == CIF_OK ? "iterator-survived-storage-fault" : "iterator-lost-to-storage-rollback");
            }
            if (s.it && (sc.needs & 2048)) {
                // the failed call was a read-only one on another part of the CIF: the iterator and its pending update must have survived it
                int cr = cif_pktitr_close(s.it); s.it = nullptr;
                if (cr != CIF_OK) msg = at + "failed with " + cm::code_name(rc) + "; afterwards the open iterator could not be closed (" + cm::code_name(cr) + "): its pending update is lost";
                else { std::string post = snapshot(s); if (cif_part(post) != cif_part(post0)) msg = at + "failed with " + cm::code_name(rc) + "; the iterator was then closed, but the CIF is not what the fault-free run leaves\n--- fault-free\n" + cif_part(post0) + "\n--- with fault\n" + cif_part(post); }
                if (!msg.empty()) break;
            }
            if (s.it) { int ar = cif_pktitr_abort(s.it); s.it = nullptr; if (ar != CIF_OK) label("abort-after-fault:" + std::string(cm::code_name(ar))); }
            Doc d; int dr = cm::dump(s.cif, d);
            if (dr != CIF_OK) msg = at + "afterwards the CIF cannot be read: " + cm::code_name(dr);
        }
        last_k = k;
    }
    if (!msg.empty() && last_k && !only_k && msg.find("allocation #") != std::string::npos) g_fail_k = last_k;
    if (msg.empty()) msg = guard.check();
    return msg;
}

int main(int argc, char **argv) {
    Engine e;
    e.name = "C17_oom";
    e.run = []() {
        install_sqlite_hook();
        if (getenv("VERIF_C17_SURVEY")) {   // development aid: every scenario x both allocator sides once, reporting instead of stopping
            { cif_tp *w = nullptr; if (cif_create(&w) == CIF_OK) (void) cif_destroy(w); }
            for (size_t i = 0; i < scenarios().size(); i++) for (int side = 0; side < 2; side++) {
                CaseFile c; c.seti("scenario", (long) i); c.seti("a", 1); c.seti("b", 1); c.set("v1", "L[C1\"x\",T{\"k\":C1\"y\"}]"); c.set("v2", "T{\"a\":L[C1\"p\",N0\"1.5(2)\"],\"b\":C1\"q\"}");
                c.set("doc", "#\\#CIF_2.0\ndata_parsed\n_p1 'v'\n_p2\n;text\nfield\n;\nloop_ _q1 _q2 1 [a {'k':v}] 2 ?\nsave_fr _f 1 save_\n"); c.seti("sqlite", side); c.seti("strict", 1);
                begin_case(c);
                pid_t pid = fork();
                if (pid == 0) { std::string m = run_case(c); printf("SURVEY %-45s %-8s %s\n", scenarios()[i].name, side ? "sqlite" : "library", m.empty() ? "ok" : m.substr(0, 160).c_str()); fflush(stdout); _exit(0); }
                int st = 0; waitpid(pid, &st, 0);
                if (!WIFEXITED(st) || WEXITSTATUS(st) != 0) { printf("SURVEY %-45s %-8s CRASH (status %d)\n", scenarios()[i].name, side ? "sqlite" : "library", st); fflush(stdout); }
            }
            return true;
        }
        { cif_tp *w = nullptr; if (cif_create(&w) == CIF_OK) (void) cif_destroy(w); }
        return rc::check("C17 a failed allocation yields an error code, not a crash or corruption", []() {
            g::ValueOpts vo; vo.prof = g::P_CIF2; vo.maxlen = 40; vo.maxdepth = 3; vo.maxmembers = 3;
            CaseFile c;
            long nsc = (long) scenarios().size();
            long idx = *g::range(0, (int) nsc - 1);
            c.seti("scenario", idx); c.seti("a", *g::range(0, 9)); c.seti("b", *g::range(0, 9));
            c.set("v1", cm::ser(*rc::gen::resize(20, g::value(vo, 0)))); c.set("v2", cm::ser(*rc::gen::resize(30, g::value(vo, 1))));
            c.set("doc", "#\\#CIF_2.0\ndata_parsed\n_p1 'v'\n_p2\n;text\nfield\n;\nloop_ _q1 _q2 1 [a {'k':v}] 2 ?\nsave_fr _f 1 save_\n");
            c.seti("sqlite", vh::tier() == "thorough" ? *g::range(0, 1) : (*g::chance(25) ? 1 : 0));
            VH_BEGIN(c);
            sample(std::string(scenarios()[(size_t) idx].name) + (c.geti("sqlite") ? " [storage-engine faults]" : " [library faults]"));
            std::string m = run_case(c);
            if (!m.empty()) { CaseFile w = c; if (g_fail_k) w.seti("k", g_fail_k); record_fail(w, m); RC_FAIL(m); }
        });
    };
    e.replay = run_case;
    e.classify = [](const CaseFile &c) {
        size_t idx = (size_t) c.geti("scenario") % scenarios().size();
        const char *kid = known_id(scenarios()[idx].name, c.geti("sqlite") ? 1 : 0);
        return kid ? std::string(kid) : std::string();
    };
    return engine_main(argc, argv, e);
}
