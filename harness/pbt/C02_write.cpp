// C02 / C13: everything cif_write emits re-parses to an equivalent CIF (CIF 2.0 mode), resp. CIF 1.1 output is pure
// CIF 1.1 and round-trips or is refused with the documented code.  WRITE_VERSION selects the property (2 or 1).
#ifndef WRITE_VERSION
#define WRITE_VERSION 2
#endif
#include "../common/docgen.hpp"
#include "../common/parsehelp.hpp"
#include <functional>
using namespace vh;
using cm::Value;

static bool strict_utf8(const std::string &b, std::vector<uint32_t> &cps) {
    size_t i = 0, n = b.size();
    while (i < n) {
        unsigned char c = b[i]; uint32_t cp; int len;
        if (c < 0x80) { cp = c; len = 1; }
        else if (c >= 0xC2 && c <= 0xDF) { cp = c & 0x1F; len = 2; }
        else if (c >= 0xE0 && c <= 0xEF) { cp = c & 0x0F; len = 3; }
        else if (c >= 0xF0 && c <= 0xF4) { cp = c & 0x07; len = 4; }
        else return false;
        if (i + len > n) return false;
        for (int k = 1; k < len; k++) { unsigned char d = b[i + k]; if ((d & 0xC0) != 0x80) return false; cp = (cp << 6) | (d & 0x3F); }
        if ((len == 3 && cp < 0x800) || (len == 4 && cp < 0x10000) || cp > 0x10FFFF || (cp >= 0xD800 && cp <= 0xDFFF)) return false;
        cps.push_back(cp); i += len;
    }
    return true;
}
static bool cif2_char(uint32_t c) {
    if (c == 9 || c == 10 || c == 13) return true;
    if (c < 0x20 || c == 0x7F) return false;
    if (c >= 0x80 && c < 0xA0) return false;
    if (c >= 0xFDD0 && c <= 0xFDEF) return false;
    if ((c & 0xFFFE) == 0xFFFE) return false;
    if (c == 0xFEFF) return false;
    return true;
}
static bool cif11_char(uint32_t c) { return c == 9 || c == 10 || c == 13 || (c >= 0x20 && c <= 0x7E); }

static std::string check_output_text(const std::string &bytes, int version) {
    const char *magic = version == 2 ? "#\\#CIF_2.0\n" : "#\\#CIF_1.1\n";
    if (bytes.compare(0, strlen(magic), magic) != 0) return "output does not start with the version comment: " + esc(bytes.substr(0, 20));
    std::vector<uint32_t> cps;
    if (!strict_utf8(bytes, cps)) return "output is not valid UTF-8";
    int col = 0, line = 1;
    for (uint32_t c : cps) {
        if (version == 2 ? !cif2_char(c) : !cif11_char(c)) { char b[64]; snprintf(b, sizeof b, "output contains U+%04X (line %d), not a CIF %s character", c, line, version == 2 ? "2.0" : "1.1"); return b; }
        if (c == 10 || c == 13) { col = 0; line++; } else if (++col > 2048) return "output line " + std::to_string(line) + " is longer than 2048 characters";
    }
    return "";
}

struct Scan { bool composite = false, nlsemi = false, non11 = false, nested = false, key_hard = false, table_entry = false; };
static void scan_str(const ustr &s, Scan &sc, bool is_value) {
    for (size_t i = 0; i < s.size(); i++) {
        char16_t c = s[i];
        if (!(c == 9 || c == 10 || c == 13 || (c >= 0x20 && c <= 0x7E))) sc.non11 = true;
        if (is_value && (c == u'\n' || c == u'\r') && i + 1 < s.size() && s[i + 1] == u';') sc.nlsemi = true;   // (CR is a line terminator in the written file just as LF is)
    }
}
static int cplen(const ustr &s) { int n = 0; for (char16_t c : s) if (!(c >= 0xDC00 && c <= 0xDFFF)) n++; return n; }
static bool key_clearly_writable(const ustr &k) {
    // single-line, short, with a free quote character; or triple-quotable with short lines
    size_t b = 0; bool multi = false;
    for (size_t i = 0; i <= k.size(); i++) if (i == k.size() || k[i] == u'\n') { if (cplen(k.substr(b, i - b)) > 2030) return false; if (i < k.size()) multi = true; b = i + 1; }
    if (!multi && (k.find(u'\'') == ustr::npos || k.find(u'"') == ustr::npos)) return true;
    return cp::fits_triple_quote(k, u'\'') || cp::fits_triple_quote(k, u'"');
}
static void scan_value(const Value &v, Scan &sc) {
    if (v.k == Value::LIST) { sc.composite = true; for (auto &e : v.elems) scan_value(e, sc); }
    else if (v.k == Value::TABLE) { sc.composite = true; if (!v.entries.empty()) sc.table_entry = true; for (auto &e : v.entries) { scan_str(e.first, sc, false); if (!key_clearly_writable(e.first)) sc.key_hard = true; scan_value(e.second, sc); } }
    else if (v.k == Value::CHAR || v.k == Value::NUMB) scan_str(v.text, sc, true);
}
static void scan_cont(const cm::Container &c, Scan &sc, int depth) {
    scan_str(c.code, sc, false);
    if (depth >= 2) sc.nested = true;
    for (auto &l : c.loops) { for (auto &n : l.names) scan_str(n, sc, false); for (auto &r : l.rows) for (auto &v : r) scan_value(v, sc); }
    for (auto &f : c.frames) scan_cont(f, sc, depth + 1);
}

static std::string run_case(const CaseFile &c) {
    cm::Doc d;
    if (!cm::parse_doc(c.get("doc"), d)) return "bad case file (doc)";
    const int version = WRITE_VERSION;
    Scan sc; for (auto &b : d.blocks) scan_cont(b, sc, 0);
    CaseGuard guard;
    std::string msg;
    cif_tp *cif = nullptr, *back = nullptr;
    char *mem = nullptr; size_t memlen = 0;
    int rc = cm::build(d, &cif);
    if (rc != CIF_OK) { count_excluded("unbuildable"); label("unbuildable"); return guard.check(); }   // generator produced something the API refuses: not this property's business
    cm::Doc orig; std::string bytes;
    struct cif_write_opts_s *wo = nullptr;
    struct cif_parse_opts_s *po = nullptr;
    ph::ErrLog log;
    do {
        if ((rc = cm::dump(cif, orig)) != CIF_OK) { msg = std::string("dump of the original failed: ") + cm::code_name(rc); break; }
        // a CIF file does not distinguish CR, CR LF and LF: whatever terminators a stored string holds, it reads back with LF
        { std::function<void(Value &)> nv = [&](Value &v) { if (v.k == Value::CHAR) { ustr o; for (size_t i = 0; i < v.text.size(); i++) { if (v.text[i] == u'\r') { o += u'\n'; if (i + 1 < v.text.size() && v.text[i + 1] == u'\n') i++; } else o += v.text[i]; } v.text = o; } for (auto &e : v.elems) nv(e); for (auto &e : v.entries) nv(e.second); };
          std::function<void(cm::Container &)> nc = [&](cm::Container &ct) { for (auto &l : ct.loops) for (auto &r : l.rows) for (auto &v : r) nv(v); for (auto &f : ct.frames) nc(f); };
          for (auto &b : orig.blocks) nc(b); }
        if (cif_write_options_create(&wo) != CIF_OK) { msg = "cif_write_options_create failed"; break; }
        wo->cif_version = version == 2 ? (c.geti("explicit2") ? 2 : 0) : 1;
        FILE *f = open_memstream(&mem, &memlen);
        rc = cif_write(f, wo, cif);
        fclose(f);
        bytes.assign(mem ? mem : "", memlen);
        if (const char *dp = getenv("VERIF_DUMP_OUTPUT")) { FILE *df = fopen(dp, "wb"); if (df) { fwrite(bytes.data(), 1, bytes.size(), df); fclose(df); } }   // triage aid
        if (version == 2) {
            if (rc == CIF_DISALLOWED_VALUE && sc.key_hard) { label("refused-key"); break; }
            // (F-TABLE-WRAP, fixed: an unquoted number or a nested table that did not fit on the line after "key": made cif_write fail.)
            if (rc != CIF_OK) { msg = std::string("cif_write (CIF 2.0) returned ") + cm::code_name(rc) + " for a CIF within the guaranteed domain"; break; }
        } else {
            bool value_pb = sc.composite || sc.nlsemi, char_pb = sc.non11;
            if (rc == CIF_DISALLOWED_VALUE) { if (!value_pb) msg = "CIF 1.1 write refused with CIF_DISALLOWED_VALUE but the CIF holds no list, table or inexpressible string"; else label("refused-value"); break; }
            if (rc == CIF_DISALLOWED_CHAR) { if (!char_pb) msg = "CIF 1.1 write refused with CIF_DISALLOWED_CHAR but every code, name and string is pure CIF 1.1"; else label("refused-char"); break; }
            if (rc != CIF_OK) { msg = std::string("CIF 1.1 write returned ") + cm::code_name(rc); break; }
            if (value_pb || char_pb) label("inexpressible-but-OK");
        }
        label("written");
        msg = check_output_text(bytes, version);
        if (!msg.empty()) break;
        if (cif_parse_options_create(&po) != CIF_OK) { msg = "cif_parse_options_create failed"; break; }
        po->max_frame_depth = sc.nested ? -1 : 1;
        if (version == 1) { po->line_folding_modifier = 1; po->text_prefixing_modifier = 1; }
        rc = ph::parse_bytes(bytes, po, &back, &log);
        if (!log.errs.empty()) { msg = "re-parsing the output reported: " + ph::errs_str(log); break; }
        if (rc != CIF_OK) { msg = std::string("re-parsing the output returned ") + cm::code_name(rc); break; }
        cm::Doc bd;
        if ((rc = cm::dump(back, bd)) != CIF_OK) { msg = std::string("dump of the re-parsed CIF failed: ") + cm::code_name(rc); break; }
        std::string diff = cm::equiv_diff(orig, bd);
        if (!diff.empty()) { msg = "re-parsed CIF is not equivalent to the original: " + diff; break; }
        // labels on what the writer actually produced
        if (bytes.find("\n;") != std::string::npos) label("out:text-field");
        if (bytes.find("'''") != std::string::npos || bytes.find("\"\"\"") != std::string::npos) label("out:triple");
        if (bytes.find("\\\n") != std::string::npos) label("out:fold-or-prefix");
        if (bytes.find("loop_") != std::string::npos) label("out:loop");
        if (bytes.find("save_") != std::string::npos) label("out:frame");
        if (bytes.find('{') != std::string::npos) label("out:table?");
    } while (0);
    if (!msg.empty() && !bytes.empty()) msg += "\n--- output (" + std::to_string(bytes.size()) + " bytes) ---\n" + esc(bytes.substr(0, 1500));
    free(mem);
    cm::ufree(wo); cm::ufree(po);
    if (back) (void) cif_destroy(back);
    if (cif) (void) cif_destroy(cif);
    if (msg.empty()) msg = guard.check();
    return msg;
}

static bool hard_value(const Value &v) {
    if (v.k == Value::LIST || v.k == Value::TABLE) return true;
    if (v.k != Value::CHAR || !v.quoted) return false;
    bool sq = v.text.find(u'\'') != ustr::npos, dq = v.text.find(u'"') != ustr::npos, nl = v.text.find(u'\n') != ustr::npos;
    return nl || (sq && dq) || cplen(v.text) > 2040;
}

int main(int argc, char **argv) {
    Engine e;
    e.name = WRITE_VERSION == 2 ? "C02_write" : "C13_write11";
    e.run = []() {
        { cif_tp *w = nullptr; if (cif_create(&w) == CIF_OK) (void) cif_destroy(w); }
        return rc::check(WRITE_VERSION == 2 ? "C02 cif_write output re-parses to an equivalent CIF" : "C13 CIF 1.1 output is pure and round-trips, or is refused", []() {
            g::DocOpts o; o.dialect = cp::CIF2; o.frame_depth = 3; o.max_frames = 2; o.long_values = true;
            o.vo.numb_kind = true; o.vo.maxdepth = 3; o.vo.maxlen = 120; o.hard_text = true; o.cr_values = true; o.vo.long_keys = true;
            if (WRITE_VERSION == 1) {
                int flavour = *g::range(0, 9);
                if (flavour < 7) { o.dialect = cp::CIF11; o.vo.prof = g::P_CIF11; o.vo.composites = false; }     // expressible (unless "\n;")
                else if (flavour == 7) { o.dialect = cp::CIF11; o.vo.prof = g::P_CIF11; o.vo.composites = true; o.vo.keyprof = g::P_CIF11_LINE; }  // composites
                else { o.dialect = cp::CIF2; o.vo.prof = g::P_CIF2; o.vo.composites = false; }                        // non-1.1 characters
            }
            cm::Doc d = *g::doc(o);
            if (WRITE_VERSION == 1 && o.dialect == cp::CIF11 && !o.vo.composites && *g::chance(25)) {
                // exactly ONE inexpressible element in an otherwise pure CIF 1.1 document, at a generated place: a writer that checks names,
                // codes and values one by one must not let a later, acceptable element mask the refusal of an earlier one
                std::vector<ustr *> names, codes; std::vector<cm::Value *> vals;
                std::function<void(cm::Container &)> collect = [&](cm::Container &k) {
                    codes.push_back(&k.code);
                    for (auto &l : k.loops) { for (auto &n : l.names) names.push_back(&n); for (auto &r : l.rows) for (auto &v : r) vals.push_back(&v); }
                    for (auto &f : k.frames) collect(f);
                };
                for (auto &b : d.blocks) collect(b);
                int what = *g::range(0, 9); size_t pick = (size_t) *g::range(0, 99999);
                static const char16_t *BAD[] = {u"\u00E9", u"\u0394", u"\u00A0", u"\U0001D4B3"};
                ustr bad = BAD[pick % 4];
                if (what < 5 && !names.empty()) { ustr &n = *names[pick % names.size()]; n.insert(1 + (pick / 7) % n.size(), bad); label("single-defect:item-name"); }
                else if (what < 7 && !codes.empty()) { ustr &k = *codes[pick % codes.size()]; k.insert((pick / 7) % (k.size() + 1), bad); label("single-defect:code"); }
                else if (!vals.empty()) { cm::Value &v = *vals[pick % vals.size()]; if (what == 9) { v = cm::Value::list({cm::Value::chr(u"x")}); label("single-defect:composite-value"); } else { v = cm::Value::chr(ustr(u"a") + bad + u"b", true); label("single-defect:value-char"); } }
            }
            CaseFile c; c.set("doc", cm::ser_plain(d)); c.seti("explicit2", *g::range(0, 1));
            VH_BEGIN(c);
            bool nt = false; size_t maxline = 0;
            for (auto &b : d.blocks) { std::vector<const cm::Container *> st{&b}; while (!st.empty()) { auto *k = st.back(); st.pop_back(); for (auto &l : k->loops) for (auto &r : l.rows) for (auto &v : r) if (hard_value(v)) nt = true; for (auto &f : k->frames) st.push_back(&f); } }
            if (nt) nontrivial(fnv(c.get("doc")));
            if (c.get("doc").size() < 300) sample(c.get("doc"));
            std::string m = run_case(c);
            if (!m.empty()) { record_fail(c, m); RC_FAIL(m); }
        });
    };
    e.replay = run_case;
    e.classify = [](const CaseFile &) { return std::string(); };
    return engine_main(argc, argv, e);
}
