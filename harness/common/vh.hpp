// vh: tiny harness framework shared by every engine (no rapidcheck dependency here).
//  * CaseFile: self-describing text replay files (key=hex-escaped value)
//  * Stats: evaluations, label histogram, distinct non-trivial hashes, samples
//  * crash capture: the case being executed is dumped from a sanitizer death callback
//  * engine_main(): --run / --replay / --classify entry points
#pragma once
#include <cstdint>
#include <cstdio>
#include <functional>
#include <map>
#include <set>
#include <string>
#include <vector>

namespace vh {
using ustr = std::u16string;

// ---- text helpers -----------------------------------------------------------------
std::string esc(const std::string &bytes);            // printable escape, reversible
std::string unesc(const std::string &s);
std::string u8(const ustr &s);                        // UTF-16 -> UTF-8 (lenient: lone surrogates -> WTF-8)
ustr u16(const std::string &utf8);                    // UTF-8 -> UTF-16 (lenient inverse of u8)
std::string uesc(const ustr &s);                      // \uXXXX escape of non-ASCII / control, for messages
std::string ser_u16(const ustr &s);                   // reversible ascii form of UTF-16 units
ustr deser_u16(const std::string &s);
uint64_t fnv(const std::string &s);

// ---- case files -------------------------------------------------------------------
struct CaseFile {
    std::map<std::string, std::string> kv;            // raw (unescaped) values
    std::string get(const std::string &k, const std::string &dflt = "") const;
    long geti(const std::string &k, long dflt = 0) const;
    void set(const std::string &k, const std::string &v) { kv[k] = v; }
    void seti(const std::string &k, long v) { kv[k] = std::to_string(v); }
    std::string serialize() const;
    static CaseFile parse(const std::string &text);
    static bool load(const std::string &path, CaseFile &out);
    bool save(const std::string &path) const;
};

// ---- statistics -------------------------------------------------------------------
void label(const std::string &l);                     // CASE class label (histogram)
void nontrivial(uint64_t h);                          // this case is non-trivial; h identifies it
void sample(const std::string &s);                    // candidate sample (reservoir keeps a few)
void count_excluded(const std::string &finding, long n = 1);
void count_eval(long n = 1);                          // one evaluated case (called by begin_case too)
void note(const std::string &k, long v);              // extra numeric coverage key (summed)

// ---- case lifecycle -----------------------------------------------------------------
// begin_case: remember the case so a sanitizer abort can still dump it; counts one evaluation
void begin_case(const CaseFile &c);
// record_fail: write the (shrinking-stage) failing case; the last one written is the minimal one
void record_fail(const CaseFile &c, const std::string &msg);
// shrinking is bounded: once a failure has been recorded, at most ~400 further executions / ~90 s are spent on shrinking;
// afterwards engines let the remaining shrink candidates pass at once (see VH_BEGIN in gens.hpp).  The clock is used only to
// bound shrinking effort, never for a verdict.
bool shrink_exhausted();

struct Engine {
    std::string name;                                  // engine name (also property id prefix)
    std::function<bool()> run;                         // runs rapidcheck properties; returns all-passed
    std::function<std::string(const CaseFile &)> replay;   // "" = pass, else failure message
    std::function<std::string(const CaseFile &)> classify; // "" = no known finding matches, else its id
};
int engine_main(int argc, char **argv, const Engine &e);
// for programs that do not go through engine_main (libFuzzer targets): where to write statistics, and a flush
void set_stats_path(const std::string &path, const std::string &engine, const std::string &worker);
void flush_stats(const char *result);
const std::string &out_dir();
const std::string &worker_id();
long opt_cases();                                      // --cases N (0 = engine default)
long opt_size();
std::string tier();                                    // "quick" | "thorough"

// per-case resource/global-state guard (C16 oracle, used by every engine):
//  * library allocations through the verif_alloc shim must be back at the baseline
//  * SQLite's own heap (sqlite3_memory_used) must be back at the baseline (unfinalised statements,
//    unclosed connections)
//  * LC_NUMERIC and the floating-point rounding mode must be what they were
// check() returns "" or a message starting with "leak:" / "global-state:".
struct CaseGuard {
    long base; long long sq_base; std::string loc; int round;
    CaseGuard();
    std::string check() const;
};
void harness_init_globals();                           // LC_NUMERIC := C.utf8 (the only non-"C" locale present)
} // namespace vh
