// rapidcheck generators for abstract CIF documents (cm::Doc) and layout tapes.
#pragma once
#include "gens.hpp"
#include "cifprint.hpp"

namespace g {
using cm::Container;
using cm::Doc;
using cm::Loop;

struct DocOpts {
    cp::Dialect dialect = cp::CIF2;
    int max_blocks = 3, max_items = 5, max_loops = 2, max_cols = 4, max_rows = 4, max_frames = 2, frame_depth = 1;
    ValueOpts vo;
    bool long_values = false;     // occasionally a single-line value near / beyond the 2048 line limit
    bool hard_text = false;       // add strings built from delimiter-defeating fragments
    bool cr_values = false;       // occasionally a string holding CR / CR LF (reads back with LF)
    bool api_domain = false;      // names/codes may use the full CIF 2.0 repertoire (incl. supplementary); values per vo
};

inline ustr strip_blanks(const ustr &s) { ustr o; for (char16_t c : s) if (!is_ws(c)) o += c; return o; }
inline ustr randcase(const ustr &s, uint32_t bits) {
    ustr o = s; int i = 0;
    for (auto &c : o) { if (c >= 'a' && c <= 'z' && ((bits >> (i % 31)) & 1)) c -= 32; i++; }
    return o;
}

// a name tail: either empty or '.' + non-blank characters of the dialect
inline Gen<ustr> name_tail(cp::Dialect d) {
    Profile p = d == cp::CIF2 ? P_CIF2_LINE : P_CIF11_LINE;
    return rc::gen::weightedOneOf<ustr>({{3, rc::gen::just(ustr())},
                                         {5, rc::gen::map(text(p, 8), [](ustr t) { return u"." + strip_blanks(t); })},
                                         {2, rc::gen::element<ustr>(u".x", u".[1]", u".a'b", u".data_", u".é", u".Å", u".\U0001D4B3z", u".loop_", u".;")}});
}
// the k-th distinct name with the given stem: stem + k + tail, ASCII letters in random case.  Two names with different k
// cannot be equivalent under NFC/case folding (they differ in an ASCII digit string delimited by a non-digit).
inline Gen<ustr> nth_name(const char16_t *stem, int k, cp::Dialect d) {
    ustr base = ustr(stem) + vh::u16(std::to_string(k));
    return rc::gen::map(rc::gen::pair(name_tail(d), range(0, 0x3fffffff)), [base, d](std::pair<ustr, int> p) {
        ustr t = p.first;
        if (d == cp::CIF11) { ustr f; for (char16_t c : t) if (c >= 0x21 && c <= 0x7e) f += c; t = f; if (!t.empty() && t[0] != u'.') t = u"." + t; }
        return randcase(base, (uint32_t) p.second) + t;
    });
}

// strings assembled from the fragments that decide how a writer must present a value (both triple delimiters, newline-
// semicolon, empty lines, backslashes before line ends, leading semicolons, trailing blanks)
inline Gen<Value> hard_text(bool cif11) {
    auto frag = cif11 ? rc::gen::element<ustr>(u"' ", u"\" ", u"'", u"\"", u"\n;", u"\n", u"\\\n", u"\\ \n", u";", u" ", u"a", u"\n\n", u"\\", u"b c", u"_x", u"#", u"\t\n", u"data_")
                      : rc::gen::element<ustr>(u"'''", u"\"\"\"", u"'", u"\"", u"\n;", u"\n", u"\\\n", u"\\ \n", u";", u" ", u"a", u"\n\n", u"\\", u"b c", u"é", u"#", u"\t\n", u"\U0001D4B3");
    return rc::gen::map(rc::gen::container<std::vector<ustr>>(frag), [](std::vector<ustr> v) { ustr s; for (auto &f : v) s += f; return Value::chr(s, true); });
}

// single-line values that nevertheless need a text field (both quote kinds closed by a blank, or too long to quote) and whose
// only line ends in a backslash -- which read back looks like a fold/prefix marker unless the writer protects it
inline Gen<Value> mimic_text(bool cif11) {
    return rc::gen::map(rc::gen::tuple(range(0, 5), range(0, 0x3fffffff), range(0, 3)), [cif11](std::tuple<int, int, int> t) {
        int shape = std::get<0>(t); uint32_t r = (uint32_t) std::get<1>(t); int trail = std::get<2>(t);
        auto word = [&](int k) { ustr w; int n = 1 + (int) ((r >> (k * 5)) & 7); for (int i = 0; i < n; i++) w += (char16_t) (u'a' + ((r >> (i + k)) & 15)); return w; };
        ustr s;
        switch (shape) {
        case 0: s = word(0) + u"' " + word(1) + u"\" " + word(2) + u"\\"; break;                      // both quotes, one trailing backslash
        case 1: s = word(0) + u"\" x' " + word(1) + u"\\"; break;
        case 2: s = ustr(2046 - (size_t) (r & 1), u'q') + u"\\"; break;                               // 2047 / 2046 characters: too long for a quoted string on one line
        case 3: s = word(0) + u"' " + word(1) + u"\" " + word(2) + u"\\" + word(3) + u"\\"; break;     // two backslashes, the last one final
        case 4: s = cif11 ? word(0) + u"' \" " + u"\\" : word(0) + u"'''" + word(1) + u"\"\"\"" + u"\\"; break;
        default: s = u";" + word(0) + u"' " + word(1) + u"\" " + u"\\"; break;                        // the same, starting with a semicolon
        }
        if (trail == 1) s += u" "; else if (trail == 2) s += u"\t ";
        return Value::chr(s, true);
    });
}

inline Gen<Value> doc_value(const DocOpts &o) {
    if (o.hard_text && !o.long_values) return rc::gen::weightedOneOf<Value>({{16, value(o.vo, 0)}, {4, hard_text(o.dialect == cp::CIF11)}, {1, mimic_text(o.dialect == cp::CIF11)}});
    if (!o.long_values) return value(o.vo, 0);
    Profile lp = o.dialect == cp::CIF2 ? P_CIF2_LINE : P_CIF11_LINE;
    auto longv = rc::gen::map(rc::gen::tuple(rc::gen::element(2040, 2044, 2045, 2046, 2047, 2048, 2049, 2052, 2100, 4095, 4097), text(lp, 12), range(0, 40)),
                              [](std::tuple<int, ustr, int> t) {
                                  int n = std::get<0>(t); ustr s = std::get<1>(t); size_t at = (size_t) std::get<2>(t);
                                  ustr fill((size_t) n, u'w'); at = std::min(at, fill.size());
                                  ustr r = fill.substr(0, at) + s + fill.substr(at);
                                  ustr cut; int cps = 0;   // exactly n code points
                                  for (size_t i = 0; i < r.size() && cps < n; i++) { cut += r[i]; if (!(r[i] >= 0xD800 && r[i] <= 0xDBFF)) cps++; }
                                  return Value::chr(cut, true);
                              });
    // values that a writer must line-fold, dense in the characters that decide where a fold may go (a fold directly before ';', inside
    // a surrogate pair, after a backslash, at or between blanks): 2049..7000 code units, few or no blanks
    bool c2 = o.dialect == cp::CIF2;
    auto foldv = rc::gen::map(rc::gen::tuple(range(2049, 7000), range(0, 0x3fffffff), rc::gen::element(0, 0, 1, 2)),
                              [c2](std::tuple<int, int, int> t) {
                                  int n = std::get<0>(t); uint32_t x = (uint32_t) std::get<1>(t) | 1u; int style = std::get<2>(t);
                                  ustr s;
                                  while ((int) s.size() < n) {
                                      x = x * 1664525u + 1013904223u;           // deterministic expansion of the generated seed (part of the generated value)
                                      uint32_t r = (x >> 8) % 100;
                                      if (r < 30) s += u';';
                                      else if (r < 36) s += u'\\';
                                      else if (r < 38 && style != 1) s += u' ';
                                      else if (r < 39 && style == 2) s += u'\n';
                                      else if (r < 43 && c2) { s += (char16_t) 0xD835; s += (char16_t) 0xDCB3; }
                                      else if (r < 45) s += u'\'';
                                      else if (r < 47) s += u'"';
                                      else s += (char16_t) (u'a' + (x >> 20) % 26);
                                  }
                                  return Value::chr(s, true);
                              });
    // multi-line values whose lines differ much in length (a writer that tracks its output column must use the LAST line's length
    // after such a value): 1-3 lines of 0..60 characters around one line of 1200..2040
    auto tailv = rc::gen::map(rc::gen::tuple(rc::gen::weightedOneOf<int>({{3, range(1200, 2040)}, {1, range(2041, 2300)}}), range(0, 0x3fffffff)),
                              [](std::tuple<int, int> t) {
                                  int n = std::get<0>(t); uint32_t x = (uint32_t) std::get<1>(t) | 1u;
                                  auto shortline = [&]() { x = x * 1664525u + 1013904223u; int k = (int) ((x >> 10) % 61); return ustr((size_t) k, (char16_t) (u'a' + (x >> 24) % 26)); };
                                  ustr longline((size_t) n, u'y');
                                  x = x * 1664525u + 1013904223u; int shape = (int) ((x >> 12) % 4);
                                  ustr s = shape == 0 ? shortline() + u"\n" + longline                 // long LAST line
                                         : shape == 1 ? longline + u"\n" + shortline()                 // long FIRST line
                                         : shape == 2 ? shortline() + u"\n" + longline + u"\n" + shortline()
                                                      : shortline() + u"\n" + shortline() + u"\n" + longline;
                                  return Value::chr(s, true);
                              });
    // values that need the text-prefix protocol (a line starting with ';', no triple-quoted form possible in CIF 2.0) AND hold a line
    // whose length is within a few characters of the line limit (the prefix takes two characters of every line)
    auto pfxv = rc::gen::map(rc::gen::tuple(range(2038, 2052), range(0, 5)),
                             [c2](std::tuple<int, int> t) {
                                 int n = std::get<0>(t), shape = std::get<1>(t);
                                 ustr head = c2 ? ustr(u"a\n;b \'\'\' \"\"\"") : ustr(u"a\n;b");
                                 ustr longline((size_t) n, u'x');
                                 // shapes 4, 5: prefixed AND folded, the line's only blank within a few characters of where a folded segment must end
                                 ustr s = shape == 0 ? head + u"\n" + longline : shape == 1 ? longline + u"\n" + head : shape == 2 ? head + u"\n" + longline + u"\nz"
                                        : shape == 3 ? longline.substr(0, (size_t) n - 8) + u"\n;" + head
                                        : shape == 4 ? head + u"\n" + longline + u" " + ustr(300, u'y') : head + u"\n" + longline.substr(0, (size_t) n - 8) + u"\t" + ustr(2100, u'y') + u" z";
                                 return Value::chr(s, true);
                             });
    // long runs of semicolons: an unprefixed text field cannot be folded directly before a ';' (F-SEMIRUN)
    auto semiv = rc::gen::map(rc::gen::tuple(rc::gen::element(2038, 2044, 2045, 2046, 2047, 2048, 2049, 2060, 3000, 4100, 6200), range(0, 5), range(0, 4)),
                              [](std::tuple<int, int, int> t) {
                                  static const char16_t *HEAD[] = {u"a", u"ab ", u"a b;c", u"x\ny", u" ", u"\\"};
                                  static const char16_t *TAIL[] = {u"", u"b", u" b", u"\nz", u";\\"};
                                  ustr s = HEAD[std::get<1>(t)]; s += ustr((size_t) std::get<0>(t), u';'); s += TAIL[std::get<2>(t)];
                                  return Value::chr(s, true);
                              });
    // values holding carriage returns (lone, or as CR LF): a CIF file cannot tell them from LF, so they read back as LF -- and a ';'
    // behind one starts a line just as it does behind LF
    auto crv = rc::gen::map(rc::gen::tuple(range(0, 9), range(0, 0x3fffffff)), [](std::tuple<int, int> t) {
        static const char16_t *S[] = {u"abc\r;def", u"a\r\n;b", u"x\ry", u"x\r", u"\r;", u"a;\rb\r", u"l1\rl2\nl3", u"it's \"q\" \r;x", u"p\r\r;q", u"s\n;t\r;u"};
        ustr s = S[std::get<0>(t)]; uint32_t r = (uint32_t) std::get<1>(t);
        if (r & 1) s += u" tail"; if (r & 2) s = u"head " + s;
        return Value::chr(s, true);
    });
    if (o.hard_text && o.cr_values) return rc::gen::weightedOneOf<Value>({{30, value(o.vo, 0)}, {1, longv}, {1, foldv}, {1, tailv}, {1, pfxv}, {1, semiv}, {1, crv}, {7, hard_text(o.dialect == cp::CIF11)}, {1, mimic_text(o.dialect == cp::CIF11)}});
    if (o.hard_text) return rc::gen::weightedOneOf<Value>({{30, value(o.vo, 0)}, {1, longv}, {1, foldv}, {1, tailv}, {1, pfxv}, {1, semiv}, {7, hard_text(o.dialect == cp::CIF11)}, {1, mimic_text(o.dialect == cp::CIF11)}});
    return rc::gen::weightedOneOf<Value>({{30, value(o.vo, 0)}, {1, longv}, {1, foldv}, {1, tailv}, {1, pfxv}, {1, semiv}});
}

inline Gen<Container> container(const DocOpts &o, const char16_t *stem, int idx, int depth) {
    DocOpts oo = o;
    return rc::gen::exec([oo, stem, idx, depth]() {
        Container c;
        c.code = *nth_name(stem, idx, oo.dialect);
        int counter = 0;
        int nitems = *sized(0, oo.max_items);
        if (nitems > 0) {
            Loop s; s.has_cat = true; s.cat = ustr();
            std::vector<Value> row;
            for (int i = 0; i < nitems; i++) { s.names.push_back(u"_" + *nth_name(u"n", counter++, oo.dialect)); row.push_back(*doc_value(oo)); }
            s.rows.push_back(row);
            c.loops.push_back(s);
        }
        int nloops = *sized(0, oo.max_loops);
        for (int l = 0; l < nloops; l++) {
            Loop lp; lp.has_cat = false;
            int ncols = *range(1, oo.max_cols), nrows = *range(1, oo.max_rows);
            for (int i = 0; i < ncols; i++) lp.names.push_back(u"_" + *nth_name(u"n", counter++, oo.dialect));
            for (int r = 0; r < nrows; r++) { std::vector<Value> row; for (int i = 0; i < ncols; i++) row.push_back(*doc_value(oo)); lp.rows.push_back(row); }
            c.loops.push_back(lp);
        }
        if (depth < oo.frame_depth) {
            int nframes = *sized(0, oo.max_frames);
            for (int f = 0; f < nframes; f++) c.frames.push_back(*rc::gen::scale(0.6, container(oo, depth == 0 ? u"f" : depth == 1 ? u"g" : u"h", f, depth + 1)));   // codes differ by level
        }
        return c;
    });
}

inline Gen<Doc> doc(const DocOpts &o) {
    DocOpts oo = o;
    return rc::gen::exec([oo]() {
        Doc d;
        int nb = *range(oo.max_blocks > 0 ? 1 : 0, std::max(1, oo.max_blocks));
        if (*chance(3)) nb = 0;
        for (int b = 0; b < nb; b++) d.blocks.push_back(*container(oo, u"b", b, 0));
        return d;
    });
}

inline Gen<std::vector<uint32_t>> tape(int maxlen = 4000) {
    return rc::gen::mapcat(sized(0, maxlen), [](int n) { return rc::gen::container<std::vector<uint32_t>>((size_t) n, rc::gen::map(range(0, 9999), [](int x) { return (uint32_t) x; })); });
}
inline std::string ser_tape(const std::vector<uint32_t> &t) { std::string s; for (auto v : t) { s += std::to_string(v); s += ' '; } return s; }
inline std::vector<uint32_t> parse_tape(const std::string &s) { std::vector<uint32_t> t; size_t i = 0; while (i < s.size()) { size_t e = s.find(' ', i); if (e == std::string::npos) e = s.size(); if (e > i) t.push_back((uint32_t) atol(s.substr(i, e - i).c_str())); i = e + 1; } return t; }
} // namespace g
