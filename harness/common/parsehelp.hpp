// helpers shared by the document-based engines: parse bytes with an error log, etc.
#pragma once
#include "cifmodel.hpp"
#include <cstring>
#include <string>
#include <vector>

namespace ph {
struct Err { int code; size_t line, col; };
struct ErrLog { std::vector<Err> errs; long limit = 100000; int reject_at = -1; int reject_code = 0; };
inline int log_cb(int code, size_t line, size_t column, const UChar *text, size_t length, void *data) {
    ErrLog *l = (ErrLog *) data;
    // touch every code unit the callback is told is readable (ASan turns an over-read into a crash)
    volatile UChar sink = 0; if (text) for (size_t i = 0; i < length; i++) sink ^= text[i];
    (void) sink;
    l->errs.push_back({code, line, column});
    if (l->reject_at >= 0 && (int) l->errs.size() - 1 == l->reject_at) return l->reject_code;
    if ((long) l->errs.size() > l->limit) return 9999;
    return 0;
}
inline FILE *mem_file(const std::string &bytes) {
    if (bytes.empty()) return fopen("/dev/null", "rb");
    return fmemopen((void *) bytes.data(), bytes.size(), "rb");
}
// parse with the given (already filled) options; installs the logging callback unless keep_cb
inline int parse_bytes(const std::string &bytes, struct cif_parse_opts_s *opts, cif_tp **cif, ErrLog *log) {
    FILE *f = mem_file(bytes);
    if (!f) return CIF_ERROR;
    if (opts && log) { opts->error_callback = log_cb; opts->user_data = log; }
    int rc = cif_parse(f, opts, cif);
    fclose(f);
    return rc;
}
inline std::string errs_str(const ErrLog &l, size_t max = 8) {
    std::string s;
    for (size_t i = 0; i < l.errs.size() && i < max; i++) { s += std::string(i ? ", " : "") + cm::code_name(l.errs[i].code) + "@" + std::to_string(l.errs[i].line) + ":" + std::to_string(l.errs[i].col); }
    if (l.errs.size() > max) s += ", ...";
    return s;
}
} // namespace ph
