#include "cifprint.hpp"
#include <algorithm>

namespace cp {

static bool is_ws(char16_t c) { return c == ' ' || c == '\t' || c == '\n' || c == '\r'; }
static bool ieq(const ustr &s, size_t n, const char *w) {
    for (size_t i = 0; i < n; i++) { if (i >= s.size()) return false; char16_t c = s[i]; if (c >= 'A' && c <= 'Z') c += 32; if (c != (char16_t) w[i]) return false; }
    return true;
}
static bool reserved_word_form(const ustr &s) {
    if (s.size() >= 5 && (ieq(s, 5, "data_") || ieq(s, 5, "save_"))) return true;
    if (s.size() == 5 && (ieq(s, 5, "loop_") || ieq(s, 5, "stop_"))) return true;
    if (s.size() == 7 && ieq(s, 7, "global_")) return true;
    return false;
}
static int cplen(const ustr &s) { int n = 0; for (char16_t c : s) if (!(c >= 0xDC00 && c <= 0xDFFF)) n++; return n; }
static std::vector<ustr> split_lines(const ustr &t) {
    std::vector<ustr> v; size_t b = 0;
    for (size_t i = 0; i <= t.size(); i++) if (i == t.size() || t[i] == u'\n') { v.push_back(t.substr(b, i - b)); b = i + 1; }
    return v;
}

bool fits_single_quote(const ustr &t, char16_t q, Dialect d) {
    for (size_t i = 0; i < t.size(); i++) {
        if (t[i] == u'\n' || t[i] == u'\r') return false;
        if (t[i] == q) {
            if (d == CIF2) return false;
            // CIF 1.1: a quote character closes the string only when followed by whitespace (or the end of input)
            if (i + 1 < t.size() && (t[i + 1] == ' ' || t[i + 1] == '\t')) return false;
        }
    }
    return true;
}
bool fits_triple_quote(const ustr &t, char16_t q) {
    ustr tri(3, q);
    if (t.find(tri) != ustr::npos) return false;
    if (!t.empty() && t.back() == q) return false;
    if (t.find(u'\r') != ustr::npos) return false;
    return true;
}
// first line of the form  P '\' ws*   or   P '\\' ws*   with P free of backslashes: a parser that decodes the
// prefix / line-folding protocols may take it for a protocol marker
bool first_line_protocol_like(const ustr &t) {
    size_t e = t.find(u'\n'); ustr l = t.substr(0, e);
    while (!l.empty() && (l.back() == ' ' || l.back() == '\t')) l.pop_back();
    if (l.empty() || l.back() != u'\\') return false;
    l.pop_back();
    if (!l.empty() && l.back() == u'\\') l.pop_back();
    return l.find(u'\\') == ustr::npos;
}

struct Printer {
    Tape &tp; const PrintOpts &o; PrintInfo &info;
    ustr out; int col = 0;
    Printer(Tape &t, const PrintOpts &oo, PrintInfo &i) : tp(t), o(oo), info(i) {}

    void raw(const ustr &s) {   // s contains no line terminators
        out += s; col += cplen(s); info.max_line = std::max(info.max_line, col);
    }
    void eol() {
        int kinds[3], n = 0;
        if (o.eols & EOL_LF) kinds[n++] = 0;
        if (o.eols & EOL_CRLF) kinds[n++] = 1;
        if (o.eols & EOL_CR) kinds[n++] = 2;
        int k = n ? kinds[tp.next(n)] : 0;
        if (k == 0) out += u'\n'; else if (k == 1) { out += u"\r\n"; info.labels.insert("crlf"); } else { out += u'\r'; info.labels.insert("cr"); }
        col = 0;
    }
    // text that may contain '\n' (content newlines): each is emitted as a chosen terminator
    void text(const ustr &s) {
        size_t b = 0;
        for (size_t i = 0; i <= s.size(); i++) if (i == s.size() || s[i] == u'\n') { raw(s.substr(b, i - b)); if (i < s.size()) eol(); b = i + 1; }
    }
    // insignificant blanks: replaced by a line terminator when they would push the line over the limit
    void blank(const ustr &b) { if (col + cplen(b) > o.line_limit) eol(); else raw(b); }
    void comment() {
        if (col > 0) blank(u" ");
        static const char16_t *bodies[] = {u"#", u"# c", u"#data_x _a 'b", u"#\\#CIF_2.0", u"# ; [ { \"\"\"", u"#\t#"};
        ustr b = bodies[tp.next(6)];
        if (out.size() <= 1 && b[1] == u'\\') b = u"# not a magic comment";   // a version comment at the very start would select the dialect
        if (col + cplen(b) > o.line_limit) { eol(); }
        raw(b);
        if (o.booster && tp.flip(30)) {   // pad the comment so that the line is exactly limit-d long
            int target = o.line_limit - (int) tp.next(3);
            if (target > col) { raw(ustr((size_t) (target - col), u'x')); info.labels.insert(target == o.line_limit ? "len2048" : "len2046-7"); }
        }
        eol();
        info.labels.insert("comment");
    }
    void ws(bool required) {
        int n = required ? 1 + (int) tp.next(3) : (int) tp.next(3);
        for (int i = 0; i < n; i++) {
            switch (tp.next(7)) {
            case 0: case 1: blank(u" "); break;
            case 2: blank(u"\t"); break;
            case 3: eol(); break;
            case 4: if (o.comments) comment(); else blank(u" "); break;
            case 5: blank(u"  "); break;
            default: eol(); break;
            }
        }
    }
    // make room for a token whose first line is w code points wide
    void room(int w) { if (col > 0 && col + w > o.line_limit) eol(); }

    ustr keyword(const char *k) { ustr s; for (const char *p = k; *p; p++) { char16_t c = (char16_t) *p; if (c >= 'a' && c <= 'z' && tp.flip(30)) c -= 32; s += c; } return s; }

    bool bare_ok(const Value &v) {
        const ustr &t = v.text;
        if (t.empty()) return false;
        for (char16_t c : t) if (is_ws(c)) return false;
        if (t[0] == '_' || t[0] == '#' || t[0] == '$' || t[0] == '\'' || t[0] == '"') return false;
        if (reserved_word_form(t)) return false;
        if (t == u"?" || t == u".") return false;
        if (o.dialect == CIF2) { for (char16_t c : t) if (c == '[' || c == ']' || c == '{' || c == '}') return false; }
        else if (t[0] == '[' || t[0] == ']') return false;
        return cplen(t) <= o.line_limit;
    }

    void text_field(const ustr &T) {
        bool ok = true;
        ustr body = encode_text_field(T, tp, o, info, ok);
        if (!ok) { info.ok = false; info.why = "text field not encodable"; return; }
        if (col > 0 || out.empty()) eol();   // the opening ';' must be the first character of a line (not of the file)
        raw(u";"); text(body); eol(); raw(u";");
        // whitespace is required after the closing delimiter: emit it here so every context gets it
        if (tp.flip(50)) raw(u" "); else eol();
        info.labels.insert("text");
    }

    void value(const Value &v, int ctx /*0 top, 1 in list, 2 table value*/) {
        switch (v.k) {
        case Value::NA: room(1); raw(u"."); return;
        case Value::UNK: room(1); raw(u"?"); return;
        case Value::NUMB:
        case Value::CHAR: {
            const ustr &t = v.text;
            if (!v.quoted) {
                // an unquoted value can only be presented whitespace-delimited
                Value tmp = v;
                bool ok = bare_ok(tmp) || (v.k == Value::NUMB && !t.empty());
                if (!ok) { info.ok = false; info.why = "unquoted value not presentable bare: " + vh::uesc(t); return; }
                room(cplen(t));
                if (t[0] == ';' && col == 0) raw(u" ");
                raw(t); info.labels.insert("bare");
                return;
            }
            enum { SQ, DQ, TSQ, TDQ, TEXT, BARE11 };
            std::vector<int> opts;
            int len = cplen(t);
            auto lines = split_lines(t);
            bool single = lines.size() == 1;
            if (single && len + 2 <= o.line_limit) {
                if (fits_single_quote(t, u'\'', o.dialect)) opts.push_back(SQ);
                if (fits_single_quote(t, u'"', o.dialect)) opts.push_back(DQ);
            }
            if (o.dialect == CIF2) {
                bool fit = true;
                for (size_t i = 0; i < lines.size(); i++) {
                    int w = cplen(lines[i]) + (i == 0 ? 3 : 0) + (i + 1 == lines.size() ? 3 : 0);
                    if (w > o.line_limit) fit = false;
                }
                if (fit && fits_triple_quote(t, u'\'')) opts.push_back(TSQ);
                if (fit && fits_triple_quote(t, u'"')) opts.push_back(TDQ);
            }
            {   // text field: possible iff the encoder can present it
                Tape probe; PrintInfo pi; bool ok = true;
                (void) encode_text_field(t, probe, o, pi, ok);
                if (ok) opts.push_back(TEXT);
            }
            if (o.dialect == CIF11) {
                // CIF 1.1: a bare token containing brackets/braces denotes a value the parser must report as quoted
                bool hasbr = false; for (char16_t c : t) if (c == '[' || c == ']' || c == '{' || c == '}') hasbr = true;
                Value tmp = v;
                if (hasbr && bare_ok(tmp) && t[0] != ';') opts.push_back(BARE11);
            }
            if (opts.empty()) { info.ok = false; info.why = "no delimiter admits " + vh::uesc(t); return; }
            int ch = opts[tp.next((uint32_t) opts.size())];
            switch (ch) {
            case SQ: case DQ: {
                ustr q(1, ch == SQ ? u'\'' : u'"');
                room(len + 2); raw(q + t + q); info.labels.insert(ch == SQ ? "sq" : "dq"); break; }
            case TSQ: case TDQ: {
                ustr q(3, ch == TSQ ? u'\'' : u'"');
                room(3 + cplen(lines[0]) + (single ? 3 : 0));
                raw(q); text(t); raw(q);
                info.labels.insert("triple"); if (!single) info.labels.insert("triple-multiline");
                if (ctx == 1) info.labels.insert("triple-in-list");
                break; }
            case TEXT:
                text_field(t);
                if (ctx == 1) info.labels.insert("text-in-list");
                if (ctx == 2) info.labels.insert("text-in-table");
                break;
            case BARE11: room(len); raw(t); info.labels.insert("bare-bracket-1.1"); break;
            }
            return; }
        case Value::LIST: {
            if (o.dialect != CIF2) { info.ok = false; info.why = "list in CIF 1.1"; return; }
            room(1); raw(u"["); info.labels.insert("list");
            ws(false);
            for (size_t i = 0; i < v.elems.size(); i++) {
                if (i) ws(true);
                value(v.elems[i], 1);
                if (!info.ok) return;
            }
            if (!v.elems.empty()) ws(false);
            room(1); raw(u"]");
            return; }
        case Value::TABLE: {
            if (o.dialect != CIF2) { info.ok = false; info.why = "table in CIF 1.1"; return; }
            room(1); raw(u"{"); info.labels.insert("table");
            ws(false);
            for (size_t i = 0; i < v.entries.size(); i++) {
                if (i) ws(true);
                key(v.entries[i].first);
                if (!info.ok) return;
                raw(u":");
                value(v.entries[i].second, 2);
                if (!info.ok) return;
            }
            if (!v.entries.empty()) ws(false);
            room(1); raw(u"}");
            return; }
        }
    }

    void key(const ustr &k) {
        enum { SQ, DQ, TSQ, TDQ };
        std::vector<int> opts; int len = cplen(k);
        auto lines = split_lines(k);
        bool single = lines.size() == 1;
        if (single && len + 3 <= o.line_limit) {
            if (fits_single_quote(k, u'\'', CIF2)) opts.push_back(SQ);
            if (fits_single_quote(k, u'"', CIF2)) opts.push_back(DQ);
        }
        bool fit = true;
        for (size_t i = 0; i < lines.size(); i++) if (cplen(lines[i]) + 7 > o.line_limit) fit = false;
        if (fit && fits_triple_quote(k, u'\'')) opts.push_back(TSQ);
        if (fit && fits_triple_quote(k, u'"')) opts.push_back(TDQ);
        if (opts.empty()) { info.ok = false; info.why = "table key not presentable: " + vh::uesc(k); return; }
        int ch = opts[tp.next((uint32_t) opts.size())];
        if (ch == SQ || ch == DQ) { ustr q(1, ch == SQ ? u'\'' : u'"'); room(len + 3); raw(q + k + q); }
        else { ustr q(3, ch == TSQ ? u'\'' : u'"'); room(3 + cplen(lines[0]) + (single ? 4 : 0)); raw(q); text(k); raw(q); info.labels.insert("key-triple"); }
    }

    void container_body(const Container &c, int depth) {
        // collect printable units: scalar items, loops, frames; shuffle
        struct Unit { int kind; size_t a, b; };
        std::vector<Unit> units;
        for (size_t i = 0; i < c.loops.size(); i++) {
            const cm::Loop &l = c.loops[i];
            if (l.is_scalar()) { for (size_t j = 0; j < l.names.size(); j++) units.push_back({0, i, j}); }
            else units.push_back({1, i, 0});
        }
        for (size_t i = 0; i < c.frames.size(); i++) units.push_back({2, i, 0});
        for (size_t i = units.size(); i > 1; i--) std::swap(units[i - 1], units[tp.next((uint32_t) i)]);
        for (auto &u : units) {
            if (!info.ok) return;
            ws(true);
            if (u.kind == 0) {
                const cm::Loop &l = c.loops[u.a];
                room(cplen(l.names[u.b])); raw(l.names[u.b]);
                info.order.push_back("I " + vh::uesc(l.names[u.b]));
                ws(true);
                if (l.rows.empty() || u.b >= l.rows[0].size()) { info.ok = false; info.why = "scalar without value"; return; }
                value(l.rows[0][u.b], 0);
            } else if (u.kind == 1) {
                const cm::Loop &l = c.loops[u.a];
                room(5); raw(keyword("loop_")); info.labels.insert("loop");
                info.order.push_back("L " + std::to_string(u.a));
                for (auto &n : l.names) { ws(true); room(cplen(n)); raw(n); }
                if (l.rows.empty()) { info.ok = false; info.why = "loop without packets"; return; }
                for (auto &r : l.rows) for (size_t j = 0; j < l.names.size(); j++) {
                    ws(true);
                    if (j >= r.size()) { info.ok = false; info.why = "short row"; return; }
                    value(r[j], 0);
                    if (!info.ok) return;
                }
            } else {
                const Container &f = c.frames[u.a];
                room(5 + cplen(f.code)); raw(keyword("save_") + f.code); info.labels.insert(depth ? "nested-frames" : "frames");
                info.order.push_back("F " + vh::uesc(f.code));
                container_body(f, depth + 1);
                if (!info.ok) return;
                ws(true);
                room(5); raw(keyword("save_"));
                info.order.push_back("E");
            }
        }
    }
};

ustr encode_text_field(const ustr &T, Tape &tp, const PrintOpts &o, PrintInfo &info, bool &ok) {
    ok = true;
    if (T.find(u'\r') != ustr::npos) { ok = false; return ustr(); }
    auto lines = split_lines(T);
    const int L = o.line_limit;
    bool nl_semi = T.find(u"\n;") != ustr::npos;
    bool lead_semi = !T.empty() && T[0] == u';';
    bool plike = first_line_protocol_like(T);
    bool any_long = false;
    for (size_t i = 0; i < lines.size(); i++) if (cplen(lines[i]) + (i == 0 ? 1 : 0) > L) any_long = true;
    bool protocols = o.dialect == CIF2 && o.protocols;
    enum { PLAIN, FOLD, PREFIX, PFOLD };
    std::vector<int> modes;
    if (!nl_semi && !any_long && !(protocols && plike)) modes.push_back(PLAIN);
    if (protocols) {
        if (!nl_semi && !lead_semi) modes.push_back(FOLD);
        // prefix chosen below (1..6 code points); conservative length test with the longest prefix
        bool long_with_prefix = false;
        for (auto &l : lines) if (cplen(l) + 6 > L) long_with_prefix = true;
        if (!long_with_prefix) modes.push_back(PREFIX);
        modes.push_back(PFOLD);
    }
    if (modes.empty()) { ok = false; return ustr(); }
    int mode = modes[tp.next((uint32_t) modes.size())];
    if (mode == PLAIN) return T;
    static const char16_t *prefixes[] = {u">", u"> ", u" ", u"CIF>", u"#", u"x;", u"_p", u"'", u"\"\"\"", u"é", u"  ", u"]"};
    ustr P = (mode == FOLD) ? ustr() : ustr(prefixes[tp.next(12)]);
    static const char16_t *trail[] = {u"", u"", u" ", u"\t", u"  \t"};
    ustr body = P;
    body += (mode == PREFIX) ? u"\\" : (mode == FOLD ? u"\\" : u"\\\\");
    body += trail[tp.next(5)];
    info.labels.insert(mode == FOLD ? "fold" : mode == PREFIX ? "prefix" : "fold+prefix");
    const int plen = cplen(P);
    for (size_t i = 0; i < lines.size(); i++) {
        bool last = i + 1 == lines.size();
        ustr rem = lines[i];
        body += u'\n'; body += P;
        if (mode != PREFIX) {
            const int roomcp = L - plen - 4;   // code points of content a physical line may carry besides '\\' and trailing blanks
            for (;;) {
                int len = cplen(rem);
                bool must = len > roomcp;
                bool want = len > 0 && tp.flip(must ? 100 : 12);
                if (!must && !want) break;
                size_t maxcut = rem.size();
                if (must) { size_t units = 0; int cps = 0; while (units < rem.size() && cps < roomcp) { units += (rem[units] >= 0xD800 && rem[units] <= 0xDBFF && units + 1 < rem.size()) ? 2 : 1; cps++; } maxcut = units; }
                size_t cut = maxcut ? 1 + tp.next((uint32_t) maxcut) : 0;
                if (cut > rem.size()) cut = rem.size();
                if (cut < rem.size() && rem[cut] >= 0xDC00 && rem[cut] <= 0xDFFF && cut > 0 && rem[cut - 1] >= 0xD800 && rem[cut - 1] <= 0xDBFF) cut++;
                // without a prefix, the continuation line must not start with ';': cut after the run of semicolons
                while (mode == FOLD && cut < rem.size() && rem[cut] == u';') cut++;
                if (cplen(rem.substr(0, cut)) > roomcp) { ok = false; return ustr(); }   // (a >2000 run of ';' -- not foldable without prefix)
                body += rem.substr(0, cut); body += u'\\'; body += trail[tp.next(5)]; body += u'\n'; body += P;
                rem = rem.substr(cut);
                info.labels.insert("folded-line");
            }
            body += rem;
            if (!last) {
                // a content line that ends in backslash + blanks would read as a fold: protect it with an extra fold
                ustr r = rem; while (!r.empty() && (r.back() == ' ' || r.back() == '\t')) r.pop_back();
                if (!r.empty() && r.back() == u'\\') { body += u'\\'; body += u'\n'; body += P; info.labels.insert("protected-backslash"); }
            }
        } else {
            body += rem;
        }
    }
    return body;
}

std::string print(const Doc &d, Tape &tape, const PrintOpts &o, PrintInfo &info) {
    Printer p(tape, o, info);
    if (o.bom) { p.out += (char16_t) 0xFEFF; info.labels.insert("bom"); }
    if (o.magic == 1) { p.raw(o.dialect == CIF2 ? u"#\\#CIF_2.0" : u"#\\#CIF_1.1"); if (o.dialect == CIF2 && tape.flip(20)) p.raw(u" "); p.eol(); }
    else if (o.magic == 2) { p.raw(u"#\\#CIF_1.0"); p.eol(); }
    else { p.ws(false); if (p.col > 0) p.eol(); }
    bool first = true;
    for (auto &b : d.blocks) {
        p.ws(!first);
        first = false;
        p.room(5 + cplen(b.code)); p.raw(p.keyword("data_") + b.code);
        info.order.push_back("B " + vh::uesc(b.code));
        p.container_body(b, 0);
        if (!info.ok) return std::string();
    }
    // trailing whitespace; a document may also end right after its last token
    p.ws(false);
    std::set<std::string> dk;
    for (auto &l : info.labels) if (l == "sq" || l == "dq" || l == "triple" || l == "text" || l == "bare") dk.insert(l);
    info.delim_kinds = (int) dk.size();
    return vh::u8(p.out);
}
} // namespace cp
