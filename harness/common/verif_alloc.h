/* Forced-include allocation shim (guard VERIF_ALLOC_SHIM).  Compiled into every
 * library translation unit by bin/vbuild with `-include verif_alloc.h`; nothing
 * in /repo is modified.  Maps the C allocator entry points used by the library
 * (and by the uthash macros expanded inside it) to counting, fault-injectable
 * wrappers implemented in verif_alloc.c. */
#ifndef VERIF_ALLOC_H
#define VERIF_ALLOC_H
#define VERIF_ALLOC_SHIM 1
#include <stddef.h>
#include <stdlib.h>
#include <string.h>
#ifdef __cplusplus
extern "C" {
#endif
void *verif_malloc(size_t n);
void *verif_calloc(size_t a, size_t b);
void *verif_realloc(void *p, size_t n);
void  verif_free(void *p);
char *verif_strdup(const char *s);
/* control surface used by the harness */
long  verif_live(void);          /* live allocations made through the shim */
long  verif_total(void);         /* allocation requests since last reset */
void  verif_reset_count(void);   /* total := 0 */
void  verif_fail_at(long k);     /* fail the k-th request from now (1-based); 0 disarms */
int   verif_fault_fired(void);   /* did the armed fault fire? */
#ifdef __cplusplus
}
#endif
#ifndef VERIF_ALLOC_IMPL
#define malloc  verif_malloc
#define calloc  verif_calloc
#define realloc verif_realloc
#define free    verif_free
#define strdup  verif_strdup
#endif
#endif
