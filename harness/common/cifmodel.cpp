#include "cifmodel.hpp"
#include "verif_alloc.h"
#undef malloc
#undef calloc
#undef realloc
#undef free
#undef strdup
#include <algorithm>
#include <cstring>
#include <unicode/unorm2.h>
#include <unicode/ustring.h>

namespace cm {

int Value::depth() const {
    int d = 0;
    for (auto &e : elems) d = std::max(d, e.depth());
    for (auto &e : entries) d = std::max(d, e.second.depth());
    return (k == LIST || k == TABLE) ? d + 1 : 0;
}
size_t Value::nodes() const {
    size_t n = 1;
    for (auto &e : elems) n += e.nodes();
    for (auto &e : entries) n += e.second.nodes();
    return n;
}

static std::string q(const ustr &s) {
    std::string o = "\""; char b[16];
    for (char16_t c : s) {
        if (c == '\\') o += "\\\\";
        else if (c >= 0x20 && c < 0x7f && c != '"') o += (char) c;
        else { snprintf(b, sizeof b, "\\u%04X", (unsigned) c); o += b; }
    }
    return o + "\"";
}
static bool unq(const std::string &s, size_t &p, ustr &out) {
    if (p >= s.size() || s[p] != '"') return false;
    size_t e = p + 1;
    while (e < s.size() && s[e] != '"') e += (s[e] == '\\') ? 2 : 1;
    if (e >= s.size()) return false;
    out = vh::deser_u16(s.substr(p + 1, e - p - 1));
    p = e + 1;
    return true;
}

std::string ser(const Value &v, Mode m) {
    switch (v.k) {
    case Value::CHAR: case Value::NUMB: {
        std::string o = (v.k == Value::NUMB && m == EXACT) ? "N" : "C";
        if (m == KEY && !v.text.empty() && v.text[0] == u';') o += "?";
        else o += v.quoted ? "1" : "0";
        return o + q(v.text);
    }
    case Value::NA: return "NA";
    case Value::UNK: return "UNK";
    case Value::LIST: {
        std::string o = "L[";
        for (size_t i = 0; i < v.elems.size(); i++) { if (i) o += ","; o += ser(v.elems[i], m); }
        return o + "]";
    }
    case Value::TABLE: {
        std::vector<std::pair<ustr, std::string>> es;
        for (auto &e : v.entries) es.push_back({e.first, ser(e.second, m)});
        std::sort(es.begin(), es.end());
        std::string o = "T{";
        for (size_t i = 0; i < es.size(); i++) { if (i) o += ","; o += q(es[i].first) + ":" + es[i].second; }
        return o + "}";
    }
    }
    return "?";
}

bool parse_value(const std::string &s, size_t &p, Value &out) {
    out = Value();
    if (s.compare(p, 2, "NA") == 0) { out.k = Value::NA; p += 2; return true; }
    if (s.compare(p, 3, "UNK") == 0) { out.k = Value::UNK; p += 3; return true; }
    if (p >= s.size()) return false;
    char c = s[p];
    if (c == 'C' || c == 'N') {
        if (p + 1 >= s.size()) return false;
        out.k = c == 'C' ? Value::CHAR : Value::NUMB;
        out.quoted = s[p + 1] == '1';
        p += 2;
        return unq(s, p, out.text);
    }
    if (c == 'L') {
        if (s.compare(p, 2, "L[") != 0) return false;
        p += 2; out.k = Value::LIST;
        if (p < s.size() && s[p] == ']') { p++; return true; }
        for (;;) {
            Value e; if (!parse_value(s, p, e)) return false;
            out.elems.push_back(e);
            if (p < s.size() && s[p] == ',') { p++; continue; }
            if (p < s.size() && s[p] == ']') { p++; return true; }
            return false;
        }
    }
    if (c == 'T') {
        if (s.compare(p, 2, "T{") != 0) return false;
        p += 2; out.k = Value::TABLE;
        if (p < s.size() && s[p] == '}') { p++; return true; }
        for (;;) {
            ustr key; Value e;
            if (!unq(s, p, key)) return false;
            if (p >= s.size() || s[p] != ':') return false;
            p++;
            if (!parse_value(s, p, e)) return false;
            out.entries.push_back({key, e});
            if (p < s.size() && s[p] == ',') { p++; continue; }
            if (p < s.size() && s[p] == '}') { p++; return true; }
            return false;
        }
    }
    return false;
}
bool parse_value(const std::string &s, Value &out) { size_t p = 0; return parse_value(s, p, out) && p == s.size(); }

// ---- Doc canonical text ---------------------------------------------------------------
static std::string ser_loop_canon(const Loop &l, Mode m, bool with_cat) {
    std::vector<size_t> idx(l.names.size());
    for (size_t i = 0; i < idx.size(); i++) idx[i] = i;
    std::sort(idx.begin(), idx.end(), [&](size_t a, size_t b) { return l.names[a] < l.names[b]; });
    std::string o = "loop ";
    if (with_cat) o += l.has_cat ? q(l.cat) : std::string("-");
    else o += l.is_scalar() ? "scalar" : "-";
    o += " [";
    for (size_t i = 0; i < idx.size(); i++) { if (i) o += ","; o += q(l.names[idx[i]]); }
    o += "] {\n";
    std::vector<std::string> rows;
    for (auto &r : l.rows) {
        std::string t = "  row";
        for (size_t i = 0; i < idx.size(); i++) { t += " "; t += idx[i] < r.size() ? ser(r[idx[i]], m) : std::string("<missing>"); }
        rows.push_back(t);
    }
    std::sort(rows.begin(), rows.end());
    for (auto &r : rows) { o += r; o += "\n"; }
    return o + " }\n";
}
static std::string ser_cont_canon(const Container &c, const char *kw, Mode m, bool with_cat, int ind) {
    std::string pad(ind, ' ');
    std::string o = pad + kw + " " + q(c.code) + " {\n";
    std::vector<std::string> ls;
    for (auto &l : c.loops) ls.push_back(ser_loop_canon(l, m, with_cat));
    std::sort(ls.begin(), ls.end());
    for (auto &l : ls) o += pad + " " + l;
    std::vector<std::pair<ustr, std::string>> fs;
    for (auto &f : c.frames) fs.push_back({f.code, ser_cont_canon(f, "frame", m, with_cat, ind + 1)});
    std::sort(fs.begin(), fs.end());
    for (auto &f : fs) o += f.second;
    return o + pad + "}\n";
}
std::string ser(const Doc &d, Mode m, bool with_cat) {
    std::vector<std::pair<ustr, std::string>> bs;
    for (auto &b : d.blocks) bs.push_back({b.code, ser_cont_canon(b, "block", m, with_cat, 0)});
    std::sort(bs.begin(), bs.end());
    std::string o;
    for (auto &b : bs) o += b.second;
    return o;
}

// ---- Doc plain text (order preserving, parseable) ---------------------------------------
static void ser_cont_plain(const Container &c, const char *kw, std::string &o) {
    o += kw; o += " "; o += q(c.code); o += " {\n";
    for (auto &l : c.loops) {
        o += "loop "; o += l.has_cat ? q(l.cat) : std::string("-"); o += " [";
        for (size_t i = 0; i < l.names.size(); i++) { if (i) o += ","; o += q(l.names[i]); }
        o += "] {\n";
        for (auto &r : l.rows) { o += "row"; for (auto &v : r) { o += " "; o += ser(v, EXACT); } o += " ;\n"; }
        o += "}\n";
    }
    for (auto &f : c.frames) ser_cont_plain(f, "frame", o);
    o += "}\n";
}
std::string ser_plain(const Doc &d) { std::string o; for (auto &b : d.blocks) ser_cont_plain(b, "block", o); return o; }

static void ws(const std::string &s, size_t &p) { while (p < s.size() && (s[p] == ' ' || s[p] == '\n')) p++; }
static bool lit(const std::string &s, size_t &p, const char *w) { ws(s, p); size_t n = strlen(w); if (s.compare(p, n, w) == 0) { p += n; return true; } return false; }
static bool parse_cont(const std::string &s, size_t &p, Container &c) {
    ws(s, p);
    if (!unq(s, p, c.code)) return false;
    if (!lit(s, p, "{")) return false;
    for (;;) {
        if (lit(s, p, "}")) return true;
        if (lit(s, p, "loop")) {
            Loop l; ws(s, p);
            if (p < s.size() && s[p] == '-') { p++; l.has_cat = false; }
            else { l.has_cat = true; if (!unq(s, p, l.cat)) return false; }
            if (!lit(s, p, "[")) return false;
            ws(s, p);
            if (p < s.size() && s[p] == ']') p++;
            else for (;;) { ustr n; ws(s, p); if (!unq(s, p, n)) return false; l.names.push_back(n); if (lit(s, p, ",")) continue; if (lit(s, p, "]")) break; return false; }
            if (!lit(s, p, "{")) return false;
            for (;;) {
                if (lit(s, p, "}")) break;
                if (!lit(s, p, "row")) return false;
                std::vector<Value> r;
                for (;;) { if (lit(s, p, ";")) break; Value v; ws(s, p); if (!parse_value(s, p, v)) return false; r.push_back(v); }
                l.rows.push_back(r);
            }
            c.loops.push_back(l);
        } else if (lit(s, p, "frame")) {
            Container f; if (!parse_cont(s, p, f)) return false; c.frames.push_back(f);
        } else return false;
    }
}
bool parse_doc(const std::string &s, Doc &out) {
    out = Doc(); size_t p = 0;
    for (;;) {
        ws(s, p);
        if (p >= s.size()) return true;
        if (!lit(s, p, "block")) return false;
        Container b; if (!parse_cont(s, p, b)) return false;
        out.blocks.push_back(b);
    }
}

// ---- normalisation + equivalence ----------------------------------------------------------
static ustr unorm2_apply(const UNormalizer2 *n, const ustr &s) {
    UErrorCode ec = U_ZERO_ERROR;
    std::vector<UChar> buf(s.size() * 4 + 16);
    int32_t len = unorm2_normalize(n, (const UChar *) s.data(), (int32_t) s.size(), buf.data(), (int32_t) buf.size(), &ec);
    if (U_FAILURE(ec)) return s;
    return ustr((const char16_t *) buf.data(), (size_t) len);
}
ustr nfc(const ustr &s) { UErrorCode ec = U_ZERO_ERROR; return unorm2_apply(unorm2_getNFCInstance(&ec), s); }
ustr nfd(const ustr &s) { UErrorCode ec = U_ZERO_ERROR; return unorm2_apply(unorm2_getNFDInstance(&ec), s); }
ustr norm_name(const ustr &s) {
    ustr d = nfd(s);
    UErrorCode ec = U_ZERO_ERROR;
    std::vector<UChar> buf(d.size() * 3 + 16);
    int32_t len = u_strFoldCase(buf.data(), (int32_t) buf.size(), (const UChar *) d.data(), (int32_t) d.size(), U_FOLD_CASE_DEFAULT, &ec);
    if (U_FAILURE(ec)) return s;
    return nfc(ustr((const char16_t *) buf.data(), (size_t) len));
}

std::string value_equiv_diff(const Value &a, const Value &b) {
    auto textual = [](const Value &v) { return v.k == Value::CHAR || v.k == Value::NUMB; };
    if (textual(a) || textual(b)) {
        if (!(textual(a) && textual(b))) return "kind differs: " + ser(a) + " vs " + ser(b);
        if (a.text != b.text) return "text differs: " + ser(a) + " vs " + ser(b);
        if (a.quoted != b.quoted && !(!a.quoted && b.quoted && !a.text.empty() && a.text[0] == u';')) return "quoted status differs: " + ser(a) + " vs " + ser(b);
        return "";
    }
    if (a.k != b.k) return "kind differs: " + ser(a) + " vs " + ser(b);
    if (a.k == Value::LIST) {
        if (a.elems.size() != b.elems.size()) return "list length differs: " + ser(a) + " vs " + ser(b);
        for (size_t i = 0; i < a.elems.size(); i++) { std::string d = value_equiv_diff(a.elems[i], b.elems[i]); if (!d.empty()) return d; }
    } else if (a.k == Value::TABLE) {
        if (a.entries.size() != b.entries.size()) return "table size differs: " + ser(a) + " vs " + ser(b);
        for (auto &e : a.entries) {
            const Value *m = nullptr;
            for (auto &f : b.entries) if (nfc(f.first) == nfc(e.first)) m = &f.second;
            if (!m) return "table key missing after round trip: " + vh::uesc(e.first);
            std::string d = value_equiv_diff(e.second, *m); if (!d.empty()) return d;
        }
    }
    return "";
}

namespace {
struct CLoop { std::vector<ustr> names; bool scalar; std::vector<std::vector<const Value *>> rows; std::vector<std::string> keys; };
CLoop canon_loop(const Loop &l) {
    CLoop c; c.scalar = l.is_scalar();
    std::vector<size_t> idx(l.names.size());
    std::vector<ustr> nn; for (auto &n : l.names) nn.push_back(norm_name(n));
    for (size_t i = 0; i < idx.size(); i++) idx[i] = i;
    std::sort(idx.begin(), idx.end(), [&](size_t x, size_t y) { return nn[x] < nn[y]; });
    for (auto i : idx) c.names.push_back(nn[i]);
    std::vector<std::pair<std::string, std::vector<const Value *>>> rows;
    for (auto &r : l.rows) {
        std::vector<const Value *> row; std::string k, k2;
        for (auto i : idx) { const Value *v = i < r.size() ? &r[i] : nullptr; row.push_back(v); k += v ? ser(*v, KEY) : "<missing>"; k += "|"; k2 += v ? ser(*v, EQUIV) : ""; k2 += "|"; }
        rows.push_back({k + "#" + k2, row});
    }
    std::sort(rows.begin(), rows.end(), [](const auto &x, const auto &y) { return x.first < y.first; });
    for (auto &r : rows) { c.rows.push_back(r.second); c.keys.push_back(r.first); }
    return c;
}
std::string cont_diff(const Container &a, const Container &b, const std::string &path) {
    std::vector<CLoop> la, lb;
    for (auto &l : a.loops) la.push_back(canon_loop(l));
    for (auto &l : b.loops) lb.push_back(canon_loop(l));
    auto cmp = [](const CLoop &x, const CLoop &y) { return x.names < y.names; };
    std::sort(la.begin(), la.end(), cmp); std::sort(lb.begin(), lb.end(), cmp);
    // scalar items may be spread differently over "scalar loop" vs one-packet loops?  No: scalar-ness is part of the model
    if (la.size() != lb.size()) return path + ": " + std::to_string(la.size()) + " loops originally, " + std::to_string(lb.size()) + " after round trip";
    for (size_t i = 0; i < la.size(); i++) {
        if (la[i].names != lb[i].names) return path + ": loop item-name sets differ (" + (la[i].names.empty() ? std::string("") : vh::uesc(la[i].names[0])) + " ... vs " + (lb[i].names.empty() ? std::string("") : vh::uesc(lb[i].names[0])) + " ...)";
        if (la[i].rows.size() != lb[i].rows.size()) return path + ": packet count differs in loop of " + vh::uesc(la[i].names[0]);
        for (size_t r = 0; r < la[i].rows.size(); r++) for (size_t j = 0; j < la[i].names.size(); j++) {
            const Value *x = la[i].rows[r][j], *y = lb[i].rows[r][j];
            if (!x || !y) { if (x != y) return path + ": missing cell"; continue; }
            std::string d = value_equiv_diff(*x, *y);
            if (!d.empty()) return path + " item " + vh::uesc(la[i].names[j]) + ": " + d;
        }
    }
    if (a.frames.size() != b.frames.size()) return path + ": frame count differs";
    std::vector<std::pair<ustr, const Container *>> fa, fb;
    for (auto &f : a.frames) fa.push_back({norm_name(f.code), &f});
    for (auto &f : b.frames) fb.push_back({norm_name(f.code), &f});
    std::sort(fa.begin(), fa.end()); std::sort(fb.begin(), fb.end());
    for (size_t i = 0; i < fa.size(); i++) {
        if (fa[i].first != fb[i].first) return path + ": frame codes differ: " + vh::uesc(fa[i].second->code) + " vs " + vh::uesc(fb[i].second->code);
        std::string d = cont_diff(*fa[i].second, *fb[i].second, path + "/save_" + vh::uesc(fa[i].second->code)); if (!d.empty()) return d;
    }
    return "";
}
} // namespace
std::string equiv_diff(const Doc &a, const Doc &b) {
    if (a.blocks.size() != b.blocks.size()) return "block count differs: " + std::to_string(a.blocks.size()) + " vs " + std::to_string(b.blocks.size());
    std::vector<std::pair<ustr, const Container *>> fa, fb;
    for (auto &f : a.blocks) fa.push_back({norm_name(f.code), &f});
    for (auto &f : b.blocks) fb.push_back({norm_name(f.code), &f});
    std::sort(fa.begin(), fa.end()); std::sort(fb.begin(), fb.end());
    for (size_t i = 0; i < fa.size(); i++) {
        if (fa[i].first != fb[i].first) return "block codes differ: " + vh::uesc(fa[i].second->code) + " vs " + vh::uesc(fb[i].second->code);
        std::string d = cont_diff(*fa[i].second, *fb[i].second, "data_" + vh::uesc(fa[i].second->code)); if (!d.empty()) return d;
    }
    return "";
}

// ---- bridges ----------------------------------------------------------------------------
UChar *udup(const ustr &s) {
    UChar *p = (UChar *) verif_malloc((s.size() + 1) * sizeof(UChar));
    if (!p) return nullptr;
    memcpy(p, s.data(), s.size() * sizeof(UChar)); p[s.size()] = 0;
    return p;
}
ustr take(UChar *s) { if (!s) return ustr(); ustr r((const char16_t *) s); verif_free(s); return r; }
void ufree(void *p) { verif_free(p); }

int to_cif(const Value &v, cif_value_tp **out) {
    int rc; cif_value_tp *val = *out; bool mine = false;
    if (!val) { rc = cif_value_create(CIF_UNK_KIND, &val); if (rc != CIF_OK) return rc; mine = true; }
    switch (v.k) {
    case Value::CHAR:
        rc = cif_value_copy_char(val, (const UChar *) v.text.c_str());
        if (rc == CIF_OK && !v.quoted) rc = cif_value_set_quoted(val, CIF_NOT_QUOTED);
        break;
    case Value::NUMB: {
        UChar *t = udup(v.text);
        if (!t) { rc = CIF_MEMORY_ERROR; break; }
        rc = cif_value_parse_numb(val, t);
        if (rc != CIF_OK) verif_free(t);
        else if (v.quoted) rc = cif_value_set_quoted(val, CIF_QUOTED);
        break; }
    case Value::NA: rc = cif_value_init(val, CIF_NA_KIND); break;
    case Value::UNK: rc = cif_value_init(val, CIF_UNK_KIND); break;
    case Value::LIST:
        rc = cif_value_init(val, CIF_LIST_KIND);
        for (size_t i = 0; rc == CIF_OK && i < v.elems.size(); i++) {
            cif_value_tp *e = nullptr;
            rc = to_cif(v.elems[i], &e);
            if (rc == CIF_OK) { rc = cif_value_insert_element_at(val, i, e); cif_value_free(e); }
        }
        break;
    case Value::TABLE:
        rc = cif_value_init(val, CIF_TABLE_KIND);
        for (size_t i = 0; rc == CIF_OK && i < v.entries.size(); i++) {
            cif_value_tp *e = nullptr;
            rc = to_cif(v.entries[i].second, &e);
            if (rc == CIF_OK) { rc = cif_value_set_item_by_key(val, (const UChar *) v.entries[i].first.c_str(), e); cif_value_free(e); }
        }
        break;
    default: rc = CIF_ARGUMENT_ERROR;
    }
    if (rc != CIF_OK) { if (mine) cif_value_free(val); return rc; }
    *out = val;
    return CIF_OK;
}

int from_cif(cif_value_tp *v, Value &out) {
    out = Value();
    cif_kind_tp k = cif_value_kind(v);
    int rc;
    switch (k) {
    case CIF_CHAR_KIND: case CIF_NUMB_KIND: {
        UChar *t = nullptr;
        out.k = k == CIF_CHAR_KIND ? Value::CHAR : Value::NUMB;
        rc = cif_value_get_text(v, &t);
        if (rc != CIF_OK) return rc;
        if (!t) return CIF_INTERNAL_ERROR;
        out.text = take(t);
        out.quoted = cif_value_is_quoted(v) != CIF_NOT_QUOTED;
        return CIF_OK; }
    case CIF_NA_KIND: out.k = Value::NA; return CIF_OK;
    case CIF_UNK_KIND: out.k = Value::UNK; return CIF_OK;
    case CIF_LIST_KIND: {
        size_t n = 0; out.k = Value::LIST;
        rc = cif_value_get_element_count(v, &n); if (rc != CIF_OK) return rc;
        for (size_t i = 0; i < n; i++) {
            cif_value_tp *e = nullptr; Value ev;
            rc = cif_value_get_element_at(v, i, &e); if (rc != CIF_OK) return rc;
            rc = from_cif(e, ev); if (rc != CIF_OK) return rc;
            out.elems.push_back(std::move(ev));
        }
        return CIF_OK; }
    case CIF_TABLE_KIND: {
        const UChar **keys = nullptr; out.k = Value::TABLE;
        rc = cif_value_get_keys(v, &keys); if (rc != CIF_OK) return rc;
        for (const UChar **kp = keys; *kp; kp++) {
            cif_value_tp *e = nullptr; Value ev;
            rc = cif_value_get_item_by_key(v, *kp, &e);
            if (rc == CIF_OK) rc = from_cif(e, ev);
            if (rc != CIF_OK) { verif_free(keys); return rc; }
            out.entries.push_back({ustr((const char16_t *) *kp), std::move(ev)});
        }
        verif_free(keys);
        return CIF_OK; }
    }
    return CIF_INTERNAL_ERROR;
}

int dump_loop(cif_loop_tp *l, Loop &out) {
    out = Loop();
    UChar *cat = nullptr; UChar **names = nullptr;
    int rc = cif_loop_get_category(l, &cat);
    if (rc != CIF_OK) return rc;
    out.has_cat = cat != nullptr; out.cat = take(cat);
    rc = cif_loop_get_names(l, &names);
    if (rc != CIF_OK) return rc;
    for (UChar **n = names; *n; n++) out.names.push_back(take(*n));
    verif_free(names);
    cif_pktitr_tp *it = nullptr;
    rc = cif_loop_get_packets(l, &it);
    if (rc == CIF_EMPTY_LOOP) return CIF_OK;
    if (rc != CIF_OK) { if (getenv("VERIF_DUMP_DEBUG")) fprintf(stderr, "dump_loop: get_packets -> %d\n", rc); return rc; }
    cif_packet_tp *pkt = nullptr;
    int rc2;
    while ((rc = cif_pktitr_next_packet(it, &pkt)) == CIF_OK) {
        std::vector<Value> row;
        for (auto &n : out.names) {
            cif_value_tp *v = nullptr; Value mv;
            rc = cif_packet_get_item(pkt, (const UChar *) n.c_str(), &v);
            if (rc == CIF_OK) rc = from_cif(v, mv);
            if (rc != CIF_OK) { cif_packet_free(pkt); (void) cif_pktitr_abort(it); return rc == CIF_NOSUCH_ITEM ? CIF_INTERNAL_ERROR : rc; }
            row.push_back(std::move(mv));
        }
        out.rows.push_back(std::move(row));
    }
    cif_packet_free(pkt);
    rc2 = cif_pktitr_close(it);
    if (getenv("VERIF_DUMP_DEBUG") && (rc != CIF_FINISHED || rc2 != CIF_OK)) fprintf(stderr, "dump_loop: next_packet ended with %d, close -> %d\n", rc, rc2);
    if (rc != CIF_FINISHED) return rc;
    return rc2;
}

int dump_container(cif_container_tp *c, Container &out) {
    out = Container();
    UChar *code = nullptr;
    int rc = cif_container_get_code(c, &code);
    if (rc != CIF_OK) return rc;
    out.code = take(code);
    cif_loop_tp **loops = nullptr;
    rc = cif_container_get_all_loops(c, &loops);
    if (rc != CIF_OK) return rc;
    for (cif_loop_tp **l = loops; *l; l++) {
        if (rc == CIF_OK) { Loop ml; rc = dump_loop(*l, ml); if (rc == CIF_OK) out.loops.push_back(std::move(ml)); }
        cif_loop_free(*l);
    }
    verif_free(loops);
    if (rc != CIF_OK) return rc;
    cif_container_tp **frames = nullptr;
    rc = cif_container_get_all_frames(c, &frames);
    if (rc != CIF_OK) return rc;
    for (cif_container_tp **f = frames; *f; f++) {
        if (rc == CIF_OK) { Container mf; rc = dump_container(*f, mf); if (rc == CIF_OK) out.frames.push_back(std::move(mf)); }
        cif_container_free(*f);
    }
    verif_free(frames);
    return rc;
}

int dump(cif_tp *cif, Doc &out) {
    out = Doc();
    cif_block_tp **blocks = nullptr;
    int rc = cif_get_all_blocks(cif, &blocks);
    if (rc != CIF_OK) return rc;
    for (cif_block_tp **b = blocks; *b; b++) {
        if (rc == CIF_OK) { Container mb; rc = dump_container(*b, mb); if (rc == CIF_OK) out.blocks.push_back(std::move(mb)); }
        cif_container_free(*b);
    }
    verif_free(blocks);
    return rc;
}

int build_container(cif_container_tp *c, const Container &m) {
    int rc = CIF_OK;
    for (auto &l : m.loops) {
        if (l.is_scalar() && l.rows.size() == 1) {
            for (size_t j = 0; j < l.names.size() && rc == CIF_OK; j++) {
                cif_value_tp *v = nullptr;
                rc = to_cif(l.rows[0][j], &v);
                if (rc == CIF_OK) { rc = cif_container_set_value(c, (const UChar *) l.names[j].c_str(), v); cif_value_free(v); }
            }
            if (rc != CIF_OK) return rc;
            continue;
        }
        std::vector<UChar *> names;
        for (auto &n : l.names) names.push_back((UChar *) n.c_str());
        names.push_back(nullptr);
        cif_loop_tp *loop = nullptr;
        rc = cif_container_create_loop(c, l.has_cat ? (const UChar *) l.cat.c_str() : nullptr, names.data(), &loop);
        if (rc != CIF_OK) return rc;
        for (auto &r : l.rows) {
            cif_packet_tp *pkt = nullptr;
            rc = cif_packet_create(&pkt, names.data());
            for (size_t j = 0; rc == CIF_OK && j < r.size(); j++) {
                cif_value_tp *v = nullptr;
                rc = to_cif(r[j], &v);
                if (rc == CIF_OK) { rc = cif_packet_set_item(pkt, (const UChar *) l.names[j].c_str(), v); cif_value_free(v); }
            }
            if (rc == CIF_OK) rc = cif_loop_add_packet(loop, pkt);
            cif_packet_free(pkt);
            if (rc != CIF_OK) break;
        }
        cif_loop_free(loop);
        if (rc != CIF_OK) return rc;
    }
    for (auto &f : m.frames) {
        cif_container_tp *fc = nullptr;
        rc = cif_container_create_frame(c, (const UChar *) f.code.c_str(), &fc);
        if (rc != CIF_OK) return rc;
        rc = build_container(fc, f);
        cif_container_free(fc);
        if (rc != CIF_OK) return rc;
    }
    return CIF_OK;
}

int build(const Doc &d, cif_tp **out) {
    cif_tp *cif = nullptr;
    int rc = cif_create(&cif);
    if (rc != CIF_OK) return rc;
    for (auto &b : d.blocks) {
        cif_block_tp *bc = nullptr;
        rc = cif_create_block(cif, (const UChar *) b.code.c_str(), &bc);
        if (rc == CIF_OK) { rc = build_container(bc, b); cif_container_free(bc); }
        if (rc != CIF_OK) { (void) cif_destroy(cif); return rc; }
    }
    *out = cif;
    return CIF_OK;
}

// every number reachable in `real` (copies made by clone / list / table / packet operations included) must denote what its own text
// denotes: its value and standard uncertainty are compared, bit for bit, with those of a value freshly parsed from that text
std::string numbers_consistent(cif_value_tp *real, const std::string &what, int depth) {
    if (!real || depth > 8) return "";
    cif_kind_tp k = cif_value_kind(real);
    if (k == CIF_NUMB_KIND) {
        UChar *t = nullptr; if (cif_value_get_text(real, &t) != CIF_OK || !t) return "";
        cif_value_tp *f = nullptr; std::string e;
        if (cif_value_create(CIF_UNK_KIND, &f) == CIF_OK) {
            UChar *t2 = udup((const char16_t *) t);
            if (t2 && cif_value_parse_numb(f, t2) == CIF_OK) {
                double a = 0, b = 0, sa = 0, sb = 0;
                int r1 = cif_value_get_number(real, &a), r2 = cif_value_get_number(f, &b), r3 = cif_value_get_su(real, &sa), r4 = cif_value_get_su(f, &sb);
                char buf[200];
                if (r1 != CIF_OK || r3 != CIF_OK) e = what + ": number " + vh::uesc(ustr((const char16_t *) t)) + ": cif_value_get_number / get_su failed";
                else if (r2 == CIF_OK && r4 == CIF_OK && (memcmp(&a, &b, sizeof a) != 0 || memcmp(&sa, &sb, sizeof sa) != 0)) {
                    snprintf(buf, sizeof buf, " has value %.17g su %.17g, but its text denotes value %.17g su %.17g", a, sa, b, sb);
                    e = what + ": number " + vh::uesc(ustr((const char16_t *) t)) + buf;
                }
            } else if (t2) ufree(t2);
            cif_value_free(f);
        }
        ufree(t);
        return e;
    }
    if (k == CIF_LIST_KIND) {
        size_t n = 0; if (cif_value_get_element_count(real, &n) != CIF_OK) return "";
        for (size_t i = 0; i < n; i++) { cif_value_tp *el = nullptr; if (cif_value_get_element_at(real, i, &el) == CIF_OK) { std::string e = numbers_consistent(el, what, depth + 1); if (!e.empty()) return e; } }
    } else if (k == CIF_TABLE_KIND) {
        const UChar **keys = nullptr; if (cif_value_get_keys(real, &keys) != CIF_OK || !keys) return "";
        std::string e;
        for (const UChar **q = keys; *q && e.empty(); q++) { cif_value_tp *el = nullptr; if (cif_value_get_item_by_key(real, *q, &el) == CIF_OK) e = numbers_consistent(el, what, depth + 1); }
        ufree(keys);
        return e;
    }
    return "";
}

const char *code_name(int rc) {
    // (an if-chain, not a switch: a header in which two codes collide must still compile, so that C20 can report it)
    {
#define X(n) if (rc == n) return #n;
    X(CIF_OK) X(CIF_FINISHED) X(CIF_ERROR) X(CIF_MEMORY_ERROR) X(CIF_INVALID_HANDLE) X(CIF_INTERNAL_ERROR) X(CIF_ARGUMENT_ERROR)
    X(CIF_MISUSE) X(CIF_NOT_SUPPORTED) X(CIF_ENVIRONMENT_ERROR) X(CIF_CLIENT_ERROR) X(CIF_DUP_BLOCKCODE) X(CIF_INVALID_BLOCKCODE)
    X(CIF_NOSUCH_BLOCK) X(CIF_DUP_FRAMECODE) X(CIF_INVALID_FRAMECODE) X(CIF_NOSUCH_FRAME) X(CIF_CAT_NOT_UNIQUE) X(CIF_INVALID_CATEGORY)
    X(CIF_NOSUCH_LOOP) X(CIF_RESERVED_LOOP) X(CIF_WRONG_LOOP) X(CIF_EMPTY_LOOP) X(CIF_NULL_LOOP) X(CIF_DUP_ITEMNAME) X(CIF_INVALID_ITEMNAME)
    X(CIF_NOSUCH_ITEM) X(CIF_AMBIGUOUS_ITEM) X(CIF_INVALID_PACKET) X(CIF_PARTIAL_PACKET) X(CIF_DISALLOWED_VALUE) X(CIF_INVALID_NUMBER)
    X(CIF_INVALID_INDEX) X(CIF_INVALID_BARE_VALUE) X(CIF_INVALID_CHAR) X(CIF_UNMAPPED_CHAR) X(CIF_DISALLOWED_CHAR) X(CIF_MISSING_SPACE)
    X(CIF_MISSING_ENDQUOTE) X(CIF_UNCLOSED_TEXT) X(CIF_OVERLENGTH_LINE) X(CIF_DISALLOWED_INITIAL_CHAR) X(CIF_WRONG_ENCODING) X(CIF_NO_BLOCK_HEADER)
    X(CIF_FRAME_NOT_ALLOWED) X(CIF_NO_FRAME_TERM) X(CIF_UNEXPECTED_TERM) X(CIF_EOF_IN_FRAME) X(CIF_RESERVED_WORD) X(CIF_MISSING_VALUE)
    X(CIF_UNEXPECTED_VALUE) X(CIF_UNEXPECTED_DELIM) X(CIF_MISSING_DELIM) X(CIF_MISSING_KEY) X(CIF_UNQUOTED_KEY) X(CIF_MISQUOTED_KEY) X(CIF_NULL_KEY)
#undef X
    }
    return "CIF_?";
}
} // namespace cm
