// Reference model types for CIF content, independent of the library's code, plus
// the bridges dump()/build()/to_cif()/from_cif() that touch the library only through
// its public API (cif.h).
#pragma once
#include "vh.hpp"
extern "C" {
#include "cif.h"
}
#include <string>
#include <utility>
#include <vector>

namespace cm {
using vh::ustr;

struct Value {
    enum Kind { CHAR = 0, NUMB = 1, LIST = 2, TABLE = 3, NA = 4, UNK = 5 } k = UNK;
    ustr text;              // CHAR / NUMB
    bool quoted = false;    // CHAR / NUMB
    std::vector<Value> elems;                           // LIST
    std::vector<std::pair<ustr, Value>> entries;        // TABLE (order irrelevant; canonical text sorts)
    static Value chr(const ustr &t, bool q = true) { Value v; v.k = CHAR; v.text = t; v.quoted = q; return v; }
    static Value num(const ustr &t, bool q = false) { Value v; v.k = NUMB; v.text = t; v.quoted = q; return v; }
    static Value na() { Value v; v.k = NA; return v; }
    static Value unk() { Value v; v.k = UNK; return v; }
    static Value list(std::vector<Value> e = {}) { Value v; v.k = LIST; v.elems = std::move(e); return v; }
    static Value table(std::vector<std::pair<ustr, Value>> e = {}) { Value v; v.k = TABLE; v.entries = std::move(e); return v; }
    int depth() const;
    size_t nodes() const;
};
// canonical text (tables sorted by key code units).  mode: EXACT keeps NUMB/CHAR and quoted;
// EQUIV maps NUMB to unquoted CHAR (the C02/C13 allowance) -- see also equiv_leading_semi.
enum Mode { EXACT = 0, EQUIV = 1, KEY = 2 };  // KEY: EQUIV with the quoted flag of strings starting with ";" erased (sort key only)
std::string ser(const Value &v, Mode m = EXACT);
bool parse_value(const std::string &s, size_t &pos, Value &out);   // inverse of ser(EXACT)
bool parse_value(const std::string &s, Value &out);

struct Loop {
    bool has_cat = false;   // category NULL?
    ustr cat;               // "" = scalar loop
    std::vector<ustr> names;                       // original spelling
    std::vector<std::vector<Value>> rows;          // rows[i][j] is the value for names[j]
    bool is_scalar() const { return has_cat && cat.empty(); }
};
struct Container {
    ustr code;
    std::vector<Loop> loops;
    std::vector<Container> frames;
};
struct Doc { std::vector<Container> blocks; };

// canonical text of a Doc: containers sorted by code, loops by smallest name, names sorted (columns
// permuted with them), rows sorted.  with_cat: include loop categories (C04) or only scalar-ness.
std::string ser(const Doc &d, Mode m = EXACT, bool with_cat = false);
// plain (non-canonical, order preserving) text used for replay files
std::string ser_plain(const Doc &d);
bool parse_doc(const std::string &s, Doc &out);

// Independent normalisation pipeline (ICU unorm2 NFD -> u_strFoldCase -> unorm2 NFC; the library itself calls the older
// unorm_normalize API) used by oracles that must match names the way CIF does.
ustr norm_name(const ustr &s);
ustr nfc(const ustr &s);
ustr nfd(const ustr &s);
// CIF-equivalence of a re-read document with its original (C02/C13): containers by code, loops by item-name set (both
// under norm_name), packets as multisets, values equal in text / quoted status / recursive structure where NUMB and CHAR
// with the same text are the same value and an originally unquoted string starting with ';' may come back quoted;
// table keys compared under NFC.  Returns "" when equivalent, else a description of the first difference.
std::string equiv_diff(const Doc &orig, const Doc &back);
std::string value_equiv_diff(const Value &orig, const Value &back);

// ---- library bridges (public API only) ------------------------------------------------
// All return a CIF result code; on failure everything acquired is released.
int to_cif(const Value &v, cif_value_tp **out);       // *out may be NULL (created) or an existing value
int from_cif(cif_value_tp *v, Value &out);
int dump(cif_tp *cif, Doc &out);
int dump_container(cif_container_tp *c, Container &out);
int dump_loop(cif_loop_tp *l, Loop &out);
int build(const Doc &d, cif_tp **out);                // creates a new managed CIF
int build_container(cif_container_tp *c, const Container &m);
UChar *udup(const ustr &s);                            // allocate with the shim (library may take ownership)
ustr take(UChar *s);                                   // copy + release a library-returned string (NULL -> "")
void ufree(void *p);                                   // release library-returned plain memory
const char *code_name(int rc);
// every CIF_NUMB_KIND value reachable in v has the value and su of a number freshly parsed from its own text (bitwise); "" or a description
std::string numbers_consistent(cif_value_tp *v, const std::string &what, int depth = 0);
} // namespace cm
