#define VERIF_ALLOC_IMPL 1
#include "verif_alloc.h"
static long g_live = 0, g_total = 0, g_fail_at = 0;
static int g_fired = 0;
static int should_fail(void) {
    g_total++;
    if (g_fail_at > 0 && g_total == g_fail_at) { g_fired = 1; g_fail_at = 0; return 1; }
    return 0;
}
void *verif_malloc(size_t n) {
    void *p;
    if (should_fail()) return NULL;
    p = malloc(n ? n : 1);
    if (p) g_live++;
    return p;
}
void *verif_calloc(size_t a, size_t b) {
    void *p;
    if (should_fail()) return NULL;
    p = calloc(a ? a : 1, b ? b : 1);
    if (p) g_live++;
    return p;
}
void *verif_realloc(void *p, size_t n) {
    void *q;
    if (should_fail()) return NULL;
    if (p == NULL) { q = malloc(n ? n : 1); if (q) g_live++; return q; }
    if (n == 0) { free(p); g_live--; return NULL; }
    q = realloc(p, n);
    return q;
}
void verif_free(void *p) { if (p) { g_live--; free(p); } }
char *verif_strdup(const char *s) {
    size_t n = strlen(s) + 1;
    char *p = (char *) verif_malloc(n);
    if (p) memcpy(p, s, n);
    return p;
}
long verif_live(void) { return g_live; }
long verif_total(void) { return g_total; }
void verif_reset_count(void) { g_total = 0; g_fired = 0; }
void verif_fail_at(long k) { g_total = 0; g_fired = 0; g_fail_at = k; }
int  verif_fault_fired(void) { return g_fired; }
