// C03 oracle shared by the libFuzzer target (harness/fuzz/fuzz_parse.cpp) and the rapidcheck twin (harness/pbt/C03_struct.cpp):
// for arbitrary bytes x option combination x error-callback policy, cif_parse is total, honours the callback contract and
// leaves a consistent CIF.  Returns "" or a failure description.
#pragma once
#include "cifmodel.hpp"
#include "parsehelp.hpp"
#include <cstring>
#include <string>

namespace c03 {
using vh::label;

enum { NWS = 12 };
struct Opts {
    int prefer = 0, depth = 1, fold = 0, prefix = 0, ws = 0, eol = 0, enc = 0, force = 0, target = 0; unsigned long long tape = ~0ULL;
    static Opts decode(const unsigned char *b, size_t n) {   // 12 bytes
        Opts o; if (n < 12) return o;
        static const int P[] = {-1, 0, 1, 19, 20, 21}, D[] = {-1, 0, 1, 2}, M[] = {-1, 0, 1};
        o.prefer = P[b[0] % 6]; o.depth = D[b[1] % 4]; o.fold = M[b[2] % 3]; o.prefix = M[b[3] % 3]; o.ws = b[4] % NWS; o.eol = b[5] % NWS; o.enc = b[6] < 200 ? b[6] % 5 : 5 + (b[6] - 200) % 4; o.force = b[7] % 5 == 0; o.target = b[8] % 3;
        o.tape = 0; for (int i = 0; i < 3; i++) o.tape = (o.tape << 8) | b[9 + i];
        o.tape |= ~0ULL << 24;      // only the first 24 errors can be rejected; later ones are accepted
        return o;
    }
    std::string str() const { char b[160]; snprintf(b, sizeof b, "prefer=%d depth=%d fold=%d prefix=%d ws=%d eol=%d enc=%d force=%d target=%d tape=%llx", prefer, depth, fold, prefix, ws, eol, enc, force, target, tape & 0xffffff); return b; }
};
// extra white space / end-of-line sets: documented ones (ASCII, C1 controls) and, because the property quantifies over every
// combination of options, bytes outside the documented set (>= 0xA0), which must be ignored or handled without a memory error
static const char *WS[] = {nullptr, "\v", "\f", "\v\f\x1f", "\x85", "\x9f\x80", "\xa0", "\xc2\x85", "\xff", "\xc1\xc2\xc3", "\xd5\xe0\xf0", "~"};
static const char *ENC[] = {nullptr, "UTF-8", "ISO-8859-1", "UTF-16LE", "windows-1252", "CESU-8", "UTF-16BE", "US-ASCII", "UTF-32"};   // (option byte 6: values below 200 select the first five, as in older replay files)

struct Log { std::vector<ph::Err> errs; std::string bad; unsigned long long tape = ~0ULL; int rejected_at = -1; long limit; };
static int cb(int code, size_t line, size_t col, const UChar *text, size_t length, void *data) {
    Log *l = (Log *) data; (void) col;
    volatile UChar sink = 0; if (text) for (size_t i = 0; i < length; i++) sink ^= text[i];
    (void) sink;
    if (line < 1 && l->bad.empty()) l->bad = std::string("error callback (") + cm::code_name(code) + ") invoked with line number 0";
    if (code <= 0 && l->bad.empty()) l->bad = "error callback invoked with non-positive code " + std::to_string(code);
    size_t k = l->errs.size();
    l->errs.push_back({code, line, col});
    if ((long) l->errs.size() > l->limit) { if (l->bad.empty()) l->bad = "more than " + std::to_string(l->limit) + " error callbacks for this input: the parser does not make progress between errors"; return 9999; }
    if (k < 64 && !((l->tape >> k) & 1)) { l->rejected_at = (int) k; return 1000 + (int) k; }
    return 0;
}
static void fill(struct cif_parse_opts_s *po, const Opts &o) {
    po->prefer_cif2 = o.prefer; po->max_frame_depth = o.depth; po->line_folding_modifier = o.fold; po->text_prefixing_modifier = o.prefix;
    po->extra_ws_chars = WS[o.ws]; po->extra_eol_chars = WS[o.eol]; po->default_encoding_name = ENC[o.enc]; po->force_default_encoding = o.force;
}
static int w_ok(cif_tp *, void *) { return 0; }
static int w_okc(cif_container_tp *, void *) { return 0; }
static int w_okl(cif_loop_tp *, void *) { return 0; }
static int w_okp(cif_packet_tp *, void *) { return 0; }
static int w_oki(UChar *, cif_value_tp *, void *) { return 0; }

static std::string prune_all(cif_container_tp *c) {
    int rc = cif_container_prune(c);
    if (rc != CIF_OK) return std::string("cif_container_prune returned ") + cm::code_name(rc);
    cif_container_tp **fr = nullptr;
    rc = cif_container_get_all_frames(c, &fr);
    if (rc != CIF_OK) return std::string("cif_container_get_all_frames returned ") + cm::code_name(rc);
    std::string m;
    for (cif_container_tp **f = fr; *f; f++) { if (m.empty()) m = prune_all(*f); cif_container_free(*f); }
    cm::ufree(fr);
    return m;
}

// exercise a CIF that a parse produced or modified
static std::string exercise(cif_tp *cif, bool had_empty_loop_possible) {
    cif_handler_tp h = {w_ok, w_ok, w_okc, w_okc, w_okc, w_okc, w_okl, w_okl, w_okp, w_okp, w_oki};
    int rc = cif_walk(cif, &h, nullptr);
    if (rc != CIF_OK && !(rc == CIF_EMPTY_LOOP && had_empty_loop_possible)) return std::string("cif_walk over the parsed CIF returned ") + cm::code_name(rc);
    cif_block_tp **blocks = nullptr;
    rc = cif_get_all_blocks(cif, &blocks);
    if (rc != CIF_OK) return std::string("cif_get_all_blocks returned ") + cm::code_name(rc);
    std::string m;
    for (cif_block_tp **b = blocks; *b; b++) { if (m.empty()) m = prune_all(*b); cif_container_free(*b); }
    cm::ufree(blocks);
    if (!m.empty()) return m;
    rc = cif_walk(cif, &h, nullptr);
    if (rc != CIF_OK) return std::string("after pruning, cif_walk returned ") + cm::code_name(rc);
    cm::Doc d;
    rc = cm::dump(cif, d);
    if (rc != CIF_OK) return std::string("the parsed CIF cannot be read back through the public getters: ") + cm::code_name(rc);
    FILE *nul = fopen("/dev/null", "wb");
    rc = cif_write(nul, nullptr, cif); fclose(nul);
    if (strcmp(cm::code_name(rc), "CIF_?") == 0) return "cif_write returned the undefined code " + std::to_string(rc);
    label(std::string("write:") + cm::code_name(rc));
    cif_block_tp *nb = nullptr;
    rc = cif_create_block(cif, u"zz_after_parse", &nb);
    if (rc == CIF_DUP_BLOCKCODE) rc = cif_get_block(cif, u"zz_after_parse", &nb);
    if (rc != CIF_OK) return std::string("creating a block in the parsed CIF returned ") + cm::code_name(rc);
    rc = cif_container_set_value(nb, u"_zz_after", nullptr);
    cif_container_free(nb);
    if (rc != CIF_OK) return std::string("setting a value in the parsed CIF returned ") + cm::code_name(rc);
    return "";
}

static std::string check_input(const std::string &input, const Opts &o) {
    vh::CaseGuard guard;
    std::string msg;
    struct cif_parse_opts_s *po = nullptr;
    if (cif_parse_options_create(&po) != CIF_OK) return "cif_parse_options_create failed";
    fill(po, o);
    long limit = 16L * (long) input.size() + 256;
    // --- P_all: accept everything
    Log all; all.limit = limit; all.tape = ~0ULL;
    cif_tp *cif = nullptr; cm::Doc pre_doc; bool prepop = o.target == 2;
    if (prepop) {
        cif_block_tp *pb = nullptr; cif_loop_tp *lp = nullptr; cif_packet_tp *pk = nullptr; UChar *nm[] = {(UChar *) u"_la", (UChar *) u"_lb", nullptr};
        if (cif_create(&cif) != CIF_OK || cif_create_block(cif, u"pre", &pb) != CIF_OK || cif_container_set_value(pb, u"_keep", nullptr) != CIF_OK
            || cif_container_create_loop(pb, u"c", nm, &lp) != CIF_OK || cif_packet_create(&pk, nm) != CIF_OK || cif_loop_add_packet(lp, pk) != CIF_OK || cif_loop_add_packet(lp, pk) != CIF_OK) msg = "cannot pre-populate";
        cif_packet_free(pk); if (lp) cif_loop_free(lp); if (pb) cif_container_free(pb);
        if (msg.empty() && cm::dump(cif, pre_doc) != CIF_OK) msg = "cannot dump pre-populated CIF";
    }
    int rc_all = -1;
    if (msg.empty()) {
        po->error_callback = cb; po->user_data = &all;
        FILE *f = ph::mem_file(input);
        rc_all = cif_parse(f, po, o.target == 0 ? nullptr : &cif); fclose(f);
        if (!all.bad.empty()) msg = all.bad;
        else if (strcmp(cm::code_name(rc_all), "CIF_?") == 0) msg = "cif_parse returned the undefined code " + std::to_string(rc_all);
        else if (rc_all != CIF_OK && all.errs.empty()) msg = std::string("cif_parse failed with ") + cm::code_name(rc_all) + " without reporting any error to the callback (options valid, all errors accepted)";
    }
    bool dup_block = false, empty_loop = false;
    for (auto &e : all.errs) { if (e.code == CIF_DUP_BLOCKCODE) dup_block = true; if (e.code == CIF_EMPTY_LOOP) empty_loop = true; }
    if (msg.empty() && cif) {
        if (prepop && !dup_block) {
            cm::Doc after;
            if (cm::dump(cif, after) != CIF_OK) msg = "cannot dump the target CIF after the parse";
            else {
                const cm::Container *b = nullptr; for (auto &c : after.blocks) if (c.code == u"pre") b = &c;
                cm::Doc only; if (b) only.blocks.push_back(*b);
                if (cm::ser(only, cm::EXACT, true) != cm::ser(pre_doc, cm::EXACT, true)) msg = "a pre-existing data block of the target CIF was changed by parsing unrelated input";
            }
        }
        if (msg.empty()) msg = exercise(cif, empty_loop || rc_all != CIF_OK);
    }
    if (cif) { int d = cif_destroy(cif); cif = nullptr; if (d != CIF_OK && msg.empty()) msg = std::string("cif_destroy returned ") + cm::code_name(d); }
    if (!all.errs.empty()) { label(std::string("first:") + cm::code_name(all.errs[0].code)); if (rc_all == CIF_OK) vh::nontrivial(vh::fnv(input + o.str())); }
    else label("no-error");
    // --- P_die: default handler (abort on first error) must return exactly the first code of P_all
    // (skipped when the input re-opened the pre-existing block: the comparison parses use a fresh target)
    if (msg.empty() && !(prepop && dup_block)) {
        po->error_callback = nullptr; po->user_data = nullptr;
        cif_tp *c2 = nullptr; FILE *f = ph::mem_file(input);
        int rc_die = cif_parse(f, po, o.target == 0 ? nullptr : &c2); fclose(f);
        if (c2) (void) cif_destroy(c2);
        int want = all.errs.empty() ? rc_all : all.errs[0].code;
        if (rc_die != want) msg = std::string("with the default (abort) handler cif_parse returned ") + cm::code_name(rc_die) + " (" + std::to_string(rc_die) + "), but the first error an all-accepting parse reports is " + cm::code_name(want);
    }
    // --- P_tape: reject the k-th error with a distinctive value
    if (msg.empty() && (o.tape & 0xffffff) != 0xffffff && !(prepop && dup_block)) {
        Log t; t.limit = limit; t.tape = o.tape;
        po->error_callback = cb; po->user_data = &t;
        cif_tp *c3 = nullptr; FILE *f = ph::mem_file(input);
        int rc_t = cif_parse(f, po, o.target == 0 ? nullptr : &c3); fclose(f);
        if (!t.bad.empty()) msg = t.bad;
        else if (t.rejected_at >= 0) {
            label("tape-reject");
            if (rc_t != 1000 + t.rejected_at) msg = "the error callback rejected error #" + std::to_string(t.rejected_at) + " by returning " + std::to_string(1000 + t.rejected_at) + " but cif_parse returned " + std::to_string(rc_t);
            for (size_t i = 0; msg.empty() && i < t.errs.size() && i < all.errs.size(); i++) if (t.errs[i].code != all.errs[i].code) msg = "error #" + std::to_string(i) + " differs between two parses of the same input";
        } else if (rc_t != rc_all) msg = "two all-accepting parses of the same input returned different codes";
        if (c3) { if (msg.empty()) msg = exercise(c3, true); (void) cif_destroy(c3); }
    }
    cm::ufree(po);
    if (msg.empty()) msg = guard.check();
    return msg;
}
} // namespace c03
