#include "vh.hpp"
#include "verif_alloc.h"
#undef malloc
#undef calloc
#undef realloc
#undef free
#undef strdup
#include <algorithm>
#include <csignal>
#include <cstdlib>
#include <cstring>
#include <fcntl.h>
#include <fstream>
#include <sstream>
#include <unistd.h>
#include <ctime>
#include <clocale>
#include <cfenv>
#include <sqlite3.h>

extern "C" void __sanitizer_set_death_callback(void (*)(void)) __attribute__((weak));

namespace vh {

// ---------------------------------------------------------------- text helpers
std::string esc(const std::string &b) {
    std::string o;
    static const char *hx = "0123456789abcdef";
    for (unsigned char c : b) {
        if (c == '\\') o += "\\\\";
        else if (c == '\n') o += "\\n";
        else if (c >= 0x20 && c < 0x7f) o += (char) c;
        else { o += "\\x"; o += hx[c >> 4]; o += hx[c & 15]; }
    }
    return o;
}
static int hv(char c) { return c <= '9' ? c - '0' : (c | 0x20) - 'a' + 10; }
std::string unesc(const std::string &s) {
    std::string o;
    for (size_t i = 0; i < s.size(); i++) {
        if (s[i] != '\\' || i + 1 >= s.size()) { o += s[i]; continue; }
        char n = s[++i];
        if (n == 'n') o += '\n';
        else if (n == '\\') o += '\\';
        else if (n == 'x' && i + 2 < s.size()) { o += (char) (hv(s[i + 1]) * 16 + hv(s[i + 2])); i += 2; }
        else o += n;
    }
    return o;
}
std::string u8(const ustr &s) {
    std::string o;
    for (size_t i = 0; i < s.size(); i++) {
        uint32_t c = s[i];
        if (c >= 0xD800 && c < 0xDC00 && i + 1 < s.size() && s[i + 1] >= 0xDC00 && s[i + 1] < 0xE000) {
            c = 0x10000 + ((c - 0xD800) << 10) + (s[i + 1] - 0xDC00);
            i++;
        }
        if (c < 0x80) o += (char) c;
        else if (c < 0x800) { o += (char) (0xC0 | (c >> 6)); o += (char) (0x80 | (c & 0x3F)); }
        else if (c < 0x10000) { o += (char) (0xE0 | (c >> 12)); o += (char) (0x80 | ((c >> 6) & 0x3F)); o += (char) (0x80 | (c & 0x3F)); }
        else { o += (char) (0xF0 | (c >> 18)); o += (char) (0x80 | ((c >> 12) & 0x3F)); o += (char) (0x80 | ((c >> 6) & 0x3F)); o += (char) (0x80 | (c & 0x3F)); }
    }
    return o;
}
ustr u16(const std::string &s) {
    ustr o;
    size_t i = 0, n = s.size();
    while (i < n) {
        unsigned char c = s[i];
        uint32_t cp; int len;
        if (c < 0x80) { cp = c; len = 1; }
        else if ((c & 0xE0) == 0xC0) { cp = c & 0x1F; len = 2; }
        else if ((c & 0xF0) == 0xE0) { cp = c & 0x0F; len = 3; }
        else if ((c & 0xF8) == 0xF0) { cp = c & 0x07; len = 4; }
        else { cp = 0xFFFD; len = 1; }
        if (i + len > n) { o += (char16_t) 0xFFFD; break; }
        for (int k = 1; k < len; k++) cp = (cp << 6) | (s[i + k] & 0x3F);
        i += len;
        if (cp >= 0x10000) { cp -= 0x10000; o += (char16_t) (0xD800 + (cp >> 10)); o += (char16_t) (0xDC00 + (cp & 0x3FF)); }
        else o += (char16_t) cp;
    }
    return o;
}
std::string uesc(const ustr &s) {
    std::string o; char b[16];
    for (char16_t c : s) {
        if (c == '\\') o += "\\\\";
        else if (c == '\n') o += "\\n";
        else if (c >= 0x20 && c < 0x7f) o += (char) c;
        else { snprintf(b, sizeof b, "\\u%04X", (unsigned) c); o += b; }
    }
    return o;
}
std::string ser_u16(const ustr &s) { return uesc(s); }
ustr deser_u16(const std::string &s) {
    ustr o;
    for (size_t i = 0; i < s.size(); i++) {
        if (s[i] != '\\' || i + 1 >= s.size()) { o += (char16_t) (unsigned char) s[i]; continue; }
        char n = s[++i];
        if (n == 'n') o += u'\n';
        else if (n == '\\') o += u'\\';
        else if (n == 'u' && i + 4 < s.size()) {
            o += (char16_t) (hv(s[i + 1]) * 4096 + hv(s[i + 2]) * 256 + hv(s[i + 3]) * 16 + hv(s[i + 4])); i += 4;
        } else o += (char16_t) (unsigned char) n;
    }
    return o;
}
uint64_t fnv(const std::string &s) {
    uint64_t h = 1469598103934665603ULL;
    for (unsigned char c : s) { h ^= c; h *= 1099511628211ULL; }
    return h;
}

// ---------------------------------------------------------------- case files
std::string CaseFile::get(const std::string &k, const std::string &d) const { auto it = kv.find(k); return it == kv.end() ? d : it->second; }
long CaseFile::geti(const std::string &k, long d) const { auto it = kv.find(k); return it == kv.end() ? d : atol(it->second.c_str()); }
std::string CaseFile::serialize() const {
    std::string o;
    for (auto &p : kv) { o += p.first; o += '='; o += esc(p.second); o += '\n'; }
    return o;
}
CaseFile CaseFile::parse(const std::string &t) {
    CaseFile c; std::istringstream in(t); std::string line;
    while (std::getline(in, line)) {
        if (line.empty() || line[0] == '#') continue;
        size_t e = line.find('=');
        if (e == std::string::npos) continue;
        c.kv[line.substr(0, e)] = unesc(line.substr(e + 1));
    }
    return c;
}
bool CaseFile::load(const std::string &path, CaseFile &out) {
    std::ifstream f(path, std::ios::binary);
    if (!f) return false;
    std::stringstream ss; ss << f.rdbuf();
    out = parse(ss.str());
    return true;
}
bool CaseFile::save(const std::string &path) const {
    std::ofstream f(path, std::ios::binary | std::ios::trunc);
    if (!f) return false;
    f << serialize();
    return (bool) f;
}

// ---------------------------------------------------------------- stats
static std::map<std::string, long> g_labels, g_excluded, g_notes;
static std::set<uint64_t> g_nt;
static std::vector<std::string> g_samples;
static long g_evals = 0, g_sample_seen = 0;
static std::string g_cur, g_out = ".", g_wid = "0", g_stats, g_engine, g_tier = "quick";
static long g_cases = 0, g_size = 0;
static std::string g_failmsg; static bool g_failed = false;
static long g_shrink_execs = 0; static time_t g_first_fail = 0;
static uint64_t g_lcg = 88172645463325252ULL;

void label(const std::string &l) { g_labels[l]++; }
void nontrivial(uint64_t h) { g_nt.insert(h); }
void sample(const std::string &s) {
    g_sample_seen++;
    std::string t = s.size() > 600 ? s.substr(0, 600) + "...(" + std::to_string(s.size()) + " bytes)" : s;
    if (g_samples.size() < 8) { g_samples.push_back(t); return; }
    g_lcg ^= g_lcg << 13; g_lcg ^= g_lcg >> 7; g_lcg ^= g_lcg << 17;   // deterministic reservoir
    long j = (long) (g_lcg % (uint64_t) g_sample_seen);
    if (j < 8) g_samples[j] = t;
}
void count_excluded(const std::string &f, long n) { g_excluded[f] += n; }
void count_eval(long n) { g_evals += n; }
void note(const std::string &k, long v) { g_notes[k] += v; }

static std::string jstr(const std::string &s) {
    std::string o = "\""; char b[8];
    for (unsigned char c : s) {
        if (c == '"' || c == '\\') { o += '\\'; o += (char) c; }
        else if (c < 0x20 || c >= 0x7f) { snprintf(b, sizeof b, "\\u%04x", c); o += b; }
        else o += (char) c;
    }
    return o + "\"";
}
static void write_stats(const char *result) {
    if (g_stats.empty()) return;
    std::ofstream f(g_stats, std::ios::trunc);
    f << "{\"engine\":" << jstr(g_engine) << ",\"worker\":" << jstr(g_wid) << ",\"result\":" << jstr(result)
      << ",\"evaluations\":" << g_evals << ",\"nontrivial\":" << g_nt.size() << ",\"fail_msg\":" << jstr(g_failmsg) << ",\"labels\":{";
    bool first = true;
    for (auto &p : g_labels) { f << (first ? "" : ",") << jstr(p.first) << ":" << p.second; first = false; }
    f << "},\"excluded\":{"; first = true;
    for (auto &p : g_excluded) { f << (first ? "" : ",") << jstr(p.first) << ":" << p.second; first = false; }
    f << "},\"notes\":{"; first = true;
    for (auto &p : g_notes) { f << (first ? "" : ",") << jstr(p.first) << ":" << p.second; first = false; }
    f << "},\"samples\":["; first = true;
    for (auto &s : g_samples) { f << (first ? "" : ",") << jstr(s); first = false; }
    f << "]}\n";
    f.close();
    std::ofstream h(g_stats + ".nt", std::ios::binary | std::ios::trunc);
    for (uint64_t v : g_nt) h.write((const char *) &v, 8);
}

// ---------------------------------------------------------------- case lifecycle
static int g_watchdog = 60;   // seconds a single case may run before it is declared hung (cases take milliseconds)
// VERIF_KEEP_DIR / VERIF_KEEP_N: save the first N generated cases of this worker as case files (the driver re-runs them through an
// uninstrumented build under valgrind, which sees what ASan cannot: uses of uninitialised memory)
static void keep_case(const CaseFile &c) {
    static long kept = 0; static long want = -1; static std::string dir;
    if (want < 0) { const char *d = getenv("VERIF_KEEP_DIR"), *n = getenv("VERIF_KEEP_N"); want = (d && n) ? atol(n) : 0; if (d) dir = d; }
    if (kept >= want || g_failed) return;
    // spread the kept cases over the run (rapidcheck's size grows with the case number): every (cases / want)-th case
    long stride = g_cases > want && want > 0 ? g_cases / want : 1;
    if (g_evals % stride != 0) return;
    CaseFile d = c; d.set("_engine", g_engine);
    d.save(dir + "/keep-" + g_engine + "-" + g_wid + "-" + std::to_string(kept++) + ".case");
}
void begin_case(const CaseFile &c) { g_cur = c.serialize(); g_evals++; keep_case(c); alarm(g_watchdog); }
void record_fail(const CaseFile &c, const std::string &msg) {
    CaseFile d = c; d.set("_engine", g_engine); d.set("_msg", msg);
    d.save(g_out + "/fail-" + g_engine + "-" + g_wid + ".case");
    g_failmsg = msg; if (!g_failed) g_first_fail = time(nullptr); g_failed = true;
}
bool shrink_exhausted() {
    if (!g_failed) return false;
    g_shrink_execs++;
    long maxe = getenv("VERIF_SHRINK_EXECS") ? atol(getenv("VERIF_SHRINK_EXECS")) : 400;
    return g_shrink_execs > maxe || time(nullptr) - g_first_fail > 90;
}
static void death_cb() {
    static int once = 0; if (once++) return;
    std::string p = g_out + "/crash-" + g_engine + "-" + g_wid + ".case";
    int fd = open(p.c_str(), O_WRONLY | O_CREAT | O_TRUNC, 0644);
    if (fd >= 0) {
        std::string hdr = "_engine=" + g_engine + "\n_msg=sanitizer or abort (memory-safety, C16)\n";
        (void) !write(fd, hdr.data(), hdr.size());
        (void) !write(fd, g_cur.data(), g_cur.size());
        close(fd);
    }
    g_failmsg = "crash"; write_stats("crash");
}
static void abrt(int) { death_cb(); _exit(134); }
static bool g_replaying = false;
static void on_alarm(int) {
    static const char m[] = "REPLAY fail hang: the case did not finish within the watchdog limit\n";
    if (g_replaying) { (void) !write(1, m, sizeof m - 1); _exit(1); }
    std::string p = g_out + "/hang-" + g_engine + "-" + g_wid + ".case";
    int fd = open(p.c_str(), O_WRONLY | O_CREAT | O_TRUNC, 0644);
    if (fd >= 0) {
        std::string hdr = "_engine=" + g_engine + "\n_msg=hang: the case did not finish within the watchdog limit\n";
        (void) !write(fd, hdr.data(), hdr.size());
        (void) !write(fd, g_cur.data(), g_cur.size());
        close(fd);
    }
    g_failmsg = "hang: a single case ran for more than the watchdog limit"; write_stats("hang");
    _exit(124);
}

void set_stats_path(const std::string &path, const std::string &engine, const std::string &worker) { g_stats = path; g_engine = engine; g_wid = worker; }
void flush_stats(const char *result) { write_stats(result); }
const std::string &out_dir() { return g_out; }
const std::string &worker_id() { return g_wid; }
long opt_cases() { return g_cases; }
long opt_size() { return g_size; }
std::string tier() { return g_tier; }

int engine_main(int argc, char **argv, const Engine &e) {
    g_engine = e.name;
    std::string mode, file;
    for (int i = 1; i < argc; i++) {
        std::string a = argv[i];
        auto nxt = [&]() { return i + 1 < argc ? std::string(argv[++i]) : std::string(); };
        if (a == "--run") mode = "run";
        else if (a == "--replay") { mode = "replay"; file = nxt(); }
        else if (a == "--classify") { mode = "classify"; file = nxt(); }
        else if (a == "--stats") g_stats = nxt();
        else if (a == "--out") g_out = nxt();
        else if (a == "--id") g_wid = nxt();
        else if (a == "--cases") g_cases = atol(nxt().c_str());
        else if (a == "--size") g_size = atol(nxt().c_str());
        else if (a == "--tier") g_tier = nxt();
    }
    if (__sanitizer_set_death_callback) __sanitizer_set_death_callback(death_cb);
    signal(SIGABRT, abrt);
    signal(SIGALRM, on_alarm);
    if (getenv("VERIF_WATCHDOG")) g_watchdog = atoi(getenv("VERIF_WATCHDOG"));
    setvbuf(stdout, nullptr, _IOLBF, 0);
    harness_init_globals();
    if (mode == "run") {
        bool ok = e.run();
        alarm(0);
        write_stats(ok ? "pass" : "fail");
        printf("STAT engine=%s worker=%s evaluations=%ld nontrivial=%zu\n", g_engine.c_str(), g_wid.c_str(), g_evals, g_nt.size());
        if (!ok) printf("FAIL engine=%s case=%s/fail-%s-%s.case msg=%s\n", g_engine.c_str(), g_out.c_str(), g_engine.c_str(), g_wid.c_str(), esc(g_failmsg).c_str());
        fflush(stdout);
        _exit(ok ? 0 : 1);   // skip LeakSanitizer noise from rapidcheck internals on failing runs
    }
    if (mode == "replay" || mode == "classify") {
        CaseFile c;
        if (!CaseFile::load(file, c)) { fprintf(stderr, "cannot read %s\n", file.c_str()); return 2; }
        if (mode == "classify") {
            std::string k = e.classify ? e.classify(c) : "";
            printf("CLASSIFY %s\n", k.empty() ? "none" : k.c_str());
            return 0;
        }
        g_cur = c.serialize();
        g_replaying = true; alarm(g_watchdog);
        std::string msg = e.replay(c);
        alarm(0);
        if (msg.empty()) { printf("REPLAY pass\n"); fflush(stdout); _exit(0); }
        printf("REPLAY fail %s\n", esc(msg).c_str()); fflush(stdout);
        _exit(1);
    }
    fprintf(stderr, "usage: %s --run|--replay f|--classify f [--stats p --out d --id w --cases n --size k --tier t]\n", argv[0]);
    return 2;
}

void harness_init_globals() { setlocale(LC_NUMERIC, "C.utf8"); fesetround(FE_TONEAREST); }
CaseGuard::CaseGuard() : base(verif_live()), sq_base(sqlite3_memory_used()), round(fegetround()) {
    const char *l = setlocale(LC_NUMERIC, nullptr); loc = l ? l : "";
}
std::string CaseGuard::check() const {
    long d = verif_live() - base;
    if (d != 0) return "leak: " + std::to_string(d) + " library allocation(s) still live after the caller released everything";
    long long s = sqlite3_memory_used() - sq_base;
    if (s > 0) return "leak: " + std::to_string(s) + " bytes of storage-engine memory still held after all CIFs were destroyed";
    const char *l = setlocale(LC_NUMERIC, nullptr);
    if (loc != (l ? l : "")) return "global-state: LC_NUMERIC changed from '" + loc + "' to '" + (l ? l : "") + "'";
    if (fegetround() != round) return "global-state: floating-point rounding mode changed";
    return "";
}
} // namespace vh
