// rapidcheck generators shared by the engines.  Every random choice goes through rapidcheck
// (so cases shrink and replay); ranges are wrapped so that small sizes do not collapse them.
#pragma once
#include "cifmodel.hpp"
#include <rapidcheck.h>

// begin a generated case; once the shrink budget is used up the remaining shrink candidates are let through as passing
#define VH_BEGIN(c) do { vh::begin_case(c); if (vh::shrink_exhausted()) RC_SUCCEED("shrink budget exhausted"); } while (0)

namespace g {
using cm::Value;
using rc::Gen;
using vh::ustr;

// uniform int in [lo, hi] independent of the current size
inline Gen<int> range(int lo, int hi) { return rc::gen::resize(1000, rc::gen::inRange(lo, hi + 1)); }
// int in [lo, hi] whose upper end grows with size (0..100)
inline Gen<int> sized(int lo, int hi) {
    return rc::gen::withSize([=](int sz) { int top = lo + (int) ((long) (hi - lo) * std::min(sz, 100) / 100); return rc::gen::resize(1000, rc::gen::inRange(lo, top + 1)); });
}
inline Gen<bool> chance(int pct) { return rc::gen::map(range(0, 99), [=](int x) { return x < pct; }); }

inline void push_cp(ustr &s, uint32_t c) {
    if (c >= 0x10000) { c -= 0x10000; s += (char16_t) (0xD800 + (c >> 10)); s += (char16_t) (0xDC00 + (c & 0x3FF)); }
    else s += (char16_t) c;
}

enum Profile {
    P_CIF2 = 0,      // characters a CIF 2.0 document may contain in a value (incl. TAB, LF; no CR)
    P_CIF11 = 1,     // CIF 1.1: 0x20-0x7E, TAB, LF
    P_ANY = 2,       // any well-formed UTF-16 (API-level strings): controls, noncharacters, U+FEFF too
    P_CIF2_LINE = 3, // P_CIF2 without LF
    P_CIF11_LINE = 4
};

// one code point, weighted towards the syntactically significant characters
inline Gen<uint32_t> codepoint(Profile p) {
    static const char syn[] = "'\";\\#_$[]{}:?.,";
    auto ascii_syn = rc::gen::map(range(0, (int) sizeof(syn) - 2), [](int i) { return (uint32_t) syn[i]; });
    auto alnum = rc::gen::map(range(0, 65), [](int i) { static const char a[] = "abcdefghijklmnopqrstuvwxyzABCDEFGHIJKLMNOPQRSTUVWXYZ0123456789+-()"; return (uint32_t) a[i]; });
    auto blank = rc::gen::element<uint32_t>(0x20, 0x20, 0x20, 0x09);
    auto nl = rc::gen::just<uint32_t>(0x0A);
    auto printable = rc::gen::map(range(0x21, 0x7E), [](int c) { return (uint32_t) c; });
    if (p == P_CIF11 || p == P_CIF11_LINE) {
        if (p == P_CIF11) return rc::gen::weightedOneOf<uint32_t>({{30, ascii_syn}, {40, alnum}, {12, blank}, {8, nl}, {10, printable}});
        return rc::gen::weightedOneOf<uint32_t>({{30, ascii_syn}, {40, alnum}, {12, blank}, {10, printable}});
    }
    auto latin1 = rc::gen::map(range(0xA0, 0x17F), [](int c) { return (uint32_t) c; });
    auto bmp = rc::gen::element<uint32_t>(0x3B1, 0x3A9, 0x3C2, 0x345, 0x1FB3, 0x1E9E, 0xDF, 0x130, 0x131, 0x1F0, 0x149, 0x410, 0x44F, 0xAC00, 0xD7A3, 0x1100, 0x1161, 0x11A8,
                                          0x4E2D, 0x212B, 0x2126, 0x301, 0x300, 0x323, 0x327, 0x308, 0x200D, 0x2028, 0x2029, 0x85, 0xFFFD, 0xE000, 0xFDCF, 0xFDF0, 0xD7FF, 0xA0);
    auto supp = rc::gen::element<uint32_t>(0x10000, 0x1D4B3, 0x10400, 0x10428, 0x1E900, 0x1F600, 0x2F800, 0x1FFFD, 0x10FFFD, 0xE0001, 0x20000);
    if (p == P_CIF2 || p == P_CIF2_LINE) {
        // 0x85, 0x2028, 0x2029 are *not* CIF line terminators: ordinary allowed characters above U+00A0, except
        // U+0085 which is a C1 control (not allowed) -> filter
        auto bmp2 = rc::gen::map(bmp, [](uint32_t c) { return c == 0x85 ? (uint32_t) 0xE9 : c; });
        if (p == P_CIF2) return rc::gen::weightedOneOf<uint32_t>({{28, ascii_syn}, {34, alnum}, {10, blank}, {7, nl}, {6, printable}, {5, latin1}, {7, bmp2}, {3, supp}});
        return rc::gen::weightedOneOf<uint32_t>({{28, ascii_syn}, {34, alnum}, {10, blank}, {6, printable}, {5, latin1}, {7, bmp2}, {3, supp}});
    }
    // P_ANY
    auto odd = rc::gen::element<uint32_t>(0x01, 0x07, 0x0B, 0x0C, 0x0D, 0x1F, 0x7F, 0x80, 0x9F, 0xFEFF, 0xFFFE, 0xFFFF, 0xFDD0, 0xFDEF, 0x1FFFE, 0x10FFFF, 0x10FFFE);
    auto anybmp = rc::gen::map(range(0x1, 0xFFFF), [](int c) { return (uint32_t) ((c >= 0xD800 && c <= 0xDFFF) ? 0x41 : c); });
    auto anysupp = rc::gen::map(range(0x10000, 0x10FFFF), [](int c) { return (uint32_t) c; });
    return rc::gen::weightedOneOf<uint32_t>({{22, ascii_syn}, {30, alnum}, {9, blank}, {6, nl}, {5, printable}, {5, latin1}, {7, bmp}, {4, supp}, {5, odd}, {4, anybmp}, {3, anysupp}});
}

inline ustr from_cps(const std::vector<uint32_t> &v) { ustr s; for (auto c : v) push_cp(s, c); return s; }

// text of up to maxlen code points (length grows with size)
inline Gen<ustr> text(Profile p, int maxlen) {
    return rc::gen::mapcat(sized(0, maxlen), [=](int n) {
        return rc::gen::map(rc::gen::container<std::vector<uint32_t>>((size_t) n, codepoint(p)), [](const std::vector<uint32_t> &v) { return from_cps(v); });
    });
}

// ---- CIF 2.0 lexical predicates written from the specification (not from the library) ----------
inline bool is_ws(char16_t c) { return c == ' ' || c == '\t' || c == '\n' || c == '\r'; }
inline bool ieq(const ustr &s, size_t n, const char *w) {   // first n chars of s equal w, ASCII case-insensitively
    for (size_t i = 0; i < n; i++) { if (i >= s.size()) return false; char16_t c = s[i]; if (c >= 'A' && c <= 'Z') c += 32; if (c != (char16_t) w[i]) return false; }
    return true;
}
inline bool is_reserved_word_form(const ustr &s) {
    if (s.size() >= 5 && (ieq(s, 5, "data_") || ieq(s, 5, "save_"))) return true;
    if (s.size() == 5 && (ieq(s, 5, "loop_") || ieq(s, 5, "stop_"))) return true;
    if (s.size() == 7 && ieq(s, 7, "global_")) return true;
    return false;
}
inline bool has_reserved_first(const ustr &s) { return !s.empty() && (s[0] == '_' || s[0] == '#' || s[0] == '$' || s[0] == '\'' || s[0] == '"'); }
// may this text be presented whitespace-delimited in CIF 2.0 (as a CHAR value; "?" and "." excluded here)?
inline bool can_be_bare2(const ustr &s) {
    if (s.empty()) return false;
    if (has_reserved_first(s) || is_reserved_word_form(s)) return false;
    for (char16_t c : s) if (is_ws(c) || c == '[' || c == ']' || c == '{' || c == '}') return false;
    return true;
}

// a string that can legally be an *unquoted* CHAR value (no leading ';' to stay clear of text-field ambiguity unless asked)
inline Gen<ustr> bare_text(Profile p, int maxlen, bool allow_semi = false) {
    return rc::gen::map(text(p == P_CIF11 ? P_CIF11_LINE : (p == P_CIF2 ? P_CIF2_LINE : p), maxlen), [=](ustr s) {
        ustr o;
        for (char16_t c : s) if (!is_ws(c) && c != '[' && c != ']' && c != '{' && c != '}' && c != 0) o += c;
        while (!o.empty() && (has_reserved_first(o) || (!allow_semi && o[0] == ';'))) o.erase(0, 1);
        if (o.empty()) o = u"x";
        if (is_reserved_word_form(o)) o = u"x" + o;
        if (o == u"?" || o == u".") o += u"q";
        return o;
    });
}

// ---- numbers ------------------------------------------------------------------------------
inline Gen<ustr> number_text() {
    return rc::gen::exec([]() {
        ustr s;
        int sign = *range(0, 3);
        if (sign == 1) s += u'+'; else if (sign == 2) s += u'-';
        int nint = *rc::gen::weightedElement<int>({{2, 0}, {6, 1}, {4, 3}, {1, 12}});
        int nfrac = *rc::gen::weightedElement<int>({{4, -1}, {2, 0}, {5, 2}, {2, 7}, {1, 20}});
        if (nint == 0 && nfrac <= 0) nint = 1;
        for (int i = 0; i < nint; i++) s += (char16_t) ('0' + *range(0, 9));
        if (nfrac >= 0) { s += u'.'; for (int i = 0; i < nfrac; i++) s += (char16_t) ('0' + *range(0, 9)); }
        if (*chance(35)) {
            s += *chance(50) ? u'e' : u'E';
            int es = *range(0, 2); if (es == 1) s += u'+'; else if (es == 2) s += u'-';
            int ne = *range(1, 3);
            for (int i = 0; i < ne; i++) s += (char16_t) ('0' + *range(0, 9));
        }
        if (*chance(40)) {
            s += u'(';
            int ns = *range(1, 4);
            for (int i = 0; i < ns; i++) s += (char16_t) ('0' + *range(0, 9));
            s += u')';
        }
        return s;
    });
}

// ---- values -------------------------------------------------------------------------------
struct ValueOpts {
    Profile prof = P_CIF2;
    int maxlen = 60;        // code points per string
    int maxdepth = 3;
    int maxmembers = 4;
    bool composites = true;
    bool numb_kind = true;  // produce NUMB-kind values (API domain) or only CHAR (parser domain)
    bool quoted_numb = true;
    Profile keyprof = P_CIF2_LINE;   // P_CIF2 adds LF inside keys (API-level only: such keys cannot be written)
    bool long_keys = false;          // rarely a 1985..2030-character key (writer line-breaking boundaries)
};

inline Gen<Value> scalar_value(const ValueOpts &o) {
    auto qchar = rc::gen::map(text(o.prof, o.maxlen), [](ustr t) { return Value::chr(t, true); });
    auto bchar = rc::gen::map(bare_text(o.prof, std::min(o.maxlen, 24)), [](ustr t) { return Value::chr(t, false); });
    auto numlike = rc::gen::map(rc::gen::pair(number_text(), chance(o.quoted_numb ? 20 : 0)), [o](std::pair<ustr, bool> p) {
        return o.numb_kind ? Value::num(p.first, p.second) : Value::chr(p.first, p.second);
    });
    auto special = rc::gen::element(Value::na(), Value::unk(), Value::chr(u"?", true), Value::chr(u".", true), Value::chr(u"", true));
    return rc::gen::weightedOneOf<Value>({{40, qchar}, {20, bchar}, {20, numlike}, {12, special}});
}

inline Gen<ustr> table_key(const ValueOpts &o) {
    auto usual = rc::gen::element<ustr>(u"a", u"A", u"key", u" k ", u"é", u"e\u0301", u"'", u"\"", u"a:b", u"'''\"\"\"");   // (the last one has no quoted form at all: cif_write must refuse such a table, and clean up after refusing)
    if (!o.long_keys) return rc::gen::weightedOneOf<ustr>({{1, rc::gen::just(ustr())}, {6, text(o.keyprof, 8)}, {2, usual}});
    // rarely a key that nearly fills a line (a writer must decide where to break the line before "key":value; boundary lengths)
    auto longkey = rc::gen::map(rc::gen::pair(range(1985, 2030), range(0, 999)), [](std::pair<int, int> p) {
        ustr t = vh::u16(std::to_string(p.second)); ustr k((size_t) p.first - t.size(), u'k'); return k + t; });
    return rc::gen::weightedOneOf<ustr>({{4, rc::gen::just(ustr())}, {24, text(o.keyprof, 8)}, {8, usual}, {1, longkey}});
}

ustr nfc_key(const ustr &s);   // defined in gens.cpp-less manner below (uses ICU unorm2)

inline Gen<Value> value(const ValueOpts &o, int depth) {
    if (!o.composites || depth >= o.maxdepth) return scalar_value(o);
    ValueOpts oo = o;
    auto lst = rc::gen::mapcat(sized(0, o.maxmembers), [oo, depth](int n) {
        return rc::gen::map(rc::gen::container<std::vector<Value>>((size_t) n, rc::gen::scale(0.7, value(oo, depth + 1))), [](std::vector<Value> v) { return Value::list(std::move(v)); });
    });
    auto tbl = rc::gen::mapcat(sized(0, o.maxmembers), [oo, depth](int n) {
        return rc::gen::map(rc::gen::container<std::vector<std::pair<ustr, Value>>>((size_t) n, rc::gen::pair(table_key(oo), rc::gen::scale(0.7, value(oo, depth + 1)))),
                            [](std::vector<std::pair<ustr, Value>> es) {
                                // keys must be distinct under canonical equivalence: keep the first of each NFC class
                                std::vector<std::pair<ustr, Value>> out; std::vector<ustr> seen;
                                for (auto &e : es) {
                                    ustr k = nfc_key(e.first); bool dup = false;
                                    for (auto &s : seen) if (s == k) dup = true;
                                    if (!dup) { seen.push_back(k); out.push_back(e); }
                                }
                                return Value::table(std::move(out));
                            });
    });
    return rc::gen::weightedOneOf<Value>({{70, scalar_value(o)}, {15, rc::gen::lazy([lst] { return lst; })}, {15, rc::gen::lazy([tbl] { return tbl; })}});
}

} // namespace g

#include <unicode/unorm2.h>
namespace g {
inline ustr nfc_key(const ustr &s) {
    UErrorCode ec = U_ZERO_ERROR;
    const UNormalizer2 *n = unorm2_getNFCInstance(&ec);
    std::vector<UChar> buf(s.size() * 3 + 8);
    int32_t len = unorm2_normalize(n, (const UChar *) s.data(), (int32_t) s.size(), buf.data(), (int32_t) buf.size(), &ec);
    if (U_FAILURE(ec)) return s;
    return ustr((const char16_t *) buf.data(), (size_t) len);
}
} // namespace g
