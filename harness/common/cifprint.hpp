// An independent CIF serialiser ("layout printer") written from the CIF 2.0 / CIF 1.1 grammar,
// driven by a tape of generated layout choices.  It shares no code with the library's ciffile.c.
#pragma once
#include "cifmodel.hpp"
#include <set>

namespace cp {
using cm::Container;
using cm::Doc;
using cm::Value;
using vh::ustr;

// A tape of layout choices; exhausted tape yields 0 (the plainest choice), so shrinking the tape
// simplifies the layout.
struct Tape {
    std::vector<uint32_t> t; size_t pos = 0;
    uint32_t next(uint32_t mod) { if (mod <= 1) return 0; uint32_t v = pos < t.size() ? t[pos] : 0; pos++; return v % mod; }
    bool flip(uint32_t pct) { return next(100) + pct >= 100; }   // exhausted tape (0) -> false unless pct == 100
};

enum Dialect { CIF2 = 2, CIF11 = 1 };
enum EolMask { EOL_LF = 1, EOL_CRLF = 2, EOL_CR = 4 };

struct PrintOpts {
    Dialect dialect = CIF2;
    int eols = EOL_LF;          // which terminators the layout may use (in whitespace and inside values)
    bool comments = true;
    int magic = 1;              // 0 none, 1 the dialect's own magic comment, 2 "#\#CIF_1.0" (CIF 1.1 only)
    bool bom = false;           // UTF-8 BOM first
    bool protocols = true;      // CIF2: text-field prefix/fold protocols available; CIF 1.1 default parse mode: not decoded
    int line_limit = 2048;
    bool booster = false;       // try to produce lines of exactly line_limit-2 .. line_limit
};

struct PrintInfo {
    std::set<std::string> labels;     // fold, prefix, fold+prefix, triple, sq, dq, bare, text, text-in-list, key-triple, frames, comment, len2048 ...
    int delim_kinds = 0;
    int max_line = 0;
    std::vector<std::string> order;   // units in print order: "B <code>", "I <name>", "L <loop index in its container>", "F <code>", "E" (frame end)
    bool ok = true;                   // false: some value could not be presented (generator bug) -- case must be discarded
    std::string why;
};

// Serialises the document; returns UTF-8 bytes.  Doc loops with is_scalar() are printed as plain items.
std::string print(const Doc &d, Tape &tape, const PrintOpts &o, PrintInfo &info);

// Text-field body encoder (exposed for C18): returns the physical text between the opening ';' and the closing
// "\n;" for content T, or sets ok=false if it cannot be presented under the options.
ustr encode_text_field(const ustr &T, Tape &tape, const PrintOpts &o, PrintInfo &info, bool &ok);

// can the value text be presented with the given delimiter under the dialect? (predicates from the grammar)
bool fits_single_quote(const ustr &t, char16_t q, Dialect d);
bool fits_triple_quote(const ustr &t, char16_t q);
bool first_line_protocol_like(const ustr &t);
} // namespace cp
