#!/bin/bash
# seedimport5.sh Cxx : fifth batch (/tmp/seed/out5/Cxx/{patch,demo,meta}_{a,b}) -> /verif/seeded/Cxx{i,j}
P=$1
for k in a b; do
  [ -f /tmp/seed/out5/$P/patch_$k.diff ] || continue
  n=$([ $k = a ] && echo i || echo j)
  d=/verif/seeded/$P$n; mkdir -p $d
  cp /tmp/seed/out5/$P/patch_$k.diff $d/patch.diff; cp /tmp/seed/out5/$P/demo_$k.c $d/demo.c; cp /tmp/seed/out5/$P/meta_$k.json $d/meta.json
  echo "### $P$n"; /verif/tools/seedconfirm.sh $d | tee $d/confirm.log
done
