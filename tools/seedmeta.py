#!/usr/bin/env python3
"""seedmeta.py: fold the confirmation logs and the check results into seeded/*/meta.json and print the DESIGN.md table.
usage: seedmeta.py RESULTS-file...   (later files override earlier ones; a result line pair is '##### <id>' / '== <check> rc=<n>')"""
import json, glob, os, re, sys
res = {}
first = {}
for rf in sys.argv[1:]:
    cur = None
    for line in open(rf, errors='replace'):
        m = re.match(r'##### (\S+)', line)
        if m: cur = m.group(1); continue
        m = re.match(r'== (\S+) rc=(\d+)', line)
        if m and cur:
            res.setdefault(cur, {})[m.group(1)] = (int(m.group(2)), os.path.basename(rf))
            first.setdefault(cur, {}).setdefault(m.group(1), (int(m.group(2)), os.path.basename(rf)))
rows = []
for d in sorted(glob.glob('/verif/seeded/C*/')):
    sid = os.path.basename(d.rstrip('/'))
    mp = os.path.join(d, 'meta.json')
    meta = json.load(open(mp))
    meta['id'] = sid
    meta['breaks_property'] = sid[:3]
    conf = open(os.path.join(d, 'confirm.log')).read() if os.path.exists(os.path.join(d, 'confirm.log')) else ''
    meta['confirmed_by_me'] = {
        'how': 'tools/seedconfirm.sh: scratch worktree of /repo HEAD outside /repo and /verif; git apply patch.diff; make; make -k check; demo.c built and run against the unpatched and the patched library',
        'tests_with_patch': (re.search(r'tests: (.*)', conf) or [None, ''])[1].strip(),
        'demo': (re.search(r'demo baseline.*', conf) or [''])[0].strip(),
        'verdict': 'CONFIRMED' if 'CONFIRMED' in conf else 'not confirmed'}
    r = res.get(sid, {})
    meta['checks_run'] = {k: {'exit': v[0], 'detected': v[0] == 1, 'run': v[1], 'how': ('tools/seedrun_wt.sh: patch applied in a scratch worktree of /repo HEAD (a long run against /repo was in progress); VERIF_REPO=<worktree> bin/vcheck %s quick (VERIF_SEED=1); worktree reverted' % k) if (6 <= int((re.search(r'round(\d+)', v[1]) or [0, 0])[1]) <= 21) else ('tools/seedrun.sh: git -C /repo apply patch.diff; bin/vcheck %s quick (VERIF_SEED=1); git -C /repo checkout -- .' % k)} for k, v in r.items()}
    f = first.get(sid, {})
    missed_first = [k for k, v in f.items() if v[0] != 1]
    if missed_first: meta['missed_before_strengthening'] = missed_first
    json.dump(meta, open(mp, 'w'), indent=1, ensure_ascii=False); open(mp, 'a').write('\n')
    det = ', '.join('%s' % k for k, v in r.items() if v[0] == 1) or '-'
    miss = ', '.join(k for k, v in r.items() if v[0] != 1)
    summ = (meta.get('summary') or '').replace('|', '\\|').replace('\n', ' ')
    if len(summ) > 230: summ = summ[:227] + '...'
    rows.append('| %s | %s | %s | %s |' % (sid, summ, det + (' (first run: missed)' if missed_first and not miss else ''), miss or ''))
print('| seed | change (needs something specific to manifest; details in seeded/<id>/meta.json) | caught by (quick tier) | missed by |')
print('|---|---|---|---|')
print('\n'.join(rows))
