#!/usr/bin/env python3
"""ddmin.py <case file> <engine exe> <substring of failure message> [key=input] -- greedy byte-level reduction of one blob of a case"""
import subprocess, sys, os, tempfile
sys.path.insert(0, os.path.dirname(os.path.abspath(__file__)))
from mkcase import esc
def unesc(s):
    out=bytearray(); i=0
    while i<len(s):
        c=s[i]
        if c=='\\' and i+1<len(s):
            n=s[i+1]
            if n=='n': out.append(10); i+=2
            elif n=='\\': out.append(0x5c); i+=2
            elif n=='x': out.append(int(s[i+2:i+4],16)); i+=4
            else: out.append(ord(n)); i+=2
        else: out+=c.encode('utf8'); i+=1
    return bytes(out)
case, exe, needle = sys.argv[1:4]; key = sys.argv[4] if len(sys.argv)>4 else 'input'
kv={}
for l in open(case, errors='surrogateescape'):
    k,_,v=l.rstrip('\n').partition('='); kv[k]=v
data=unesc(kv[key])
import re
BAD=re.compile(rb'(^|[ \t\r\n])_($|[ \t\r\n])')
def fails(b):
    if os.environ.get('DD_NO_LONE_UNDERSCORE') and BAD.search(b): return False
    with tempfile.NamedTemporaryFile('w',suffix='.case',delete=False) as f:
        for k,v in kv.items():
            f.write('%s=%s\n'%(k, esc(b) if k==key else v))
        p=f.name
    try:
        r=subprocess.run([exe,'--replay',p],stdout=subprocess.PIPE,stderr=subprocess.STDOUT,text=True,errors='replace',timeout=120)
        return needle in r.stdout
    except subprocess.TimeoutExpired:
        return False
    finally: os.unlink(p)
assert fails(data), "does not fail initially"
n=2
while len(data)>=2:
    chunk=max(1,len(data)//n); reduced=False
    for i in range(0,len(data),chunk):
        cand=data[:i]+data[i+chunk:]
        if cand and fails(cand): data=cand; n=max(n-1,2); reduced=True; break
    if not reduced:
        if chunk==1: break
        n=min(n*2,len(data))
print(len(data), repr(data))
out=case+'.min'
with open(out,'w') as f:
    for k,v in kv.items(): f.write('%s=%s\n'%(k, esc(data) if k==key else v))
print('written', out)
