#!/bin/bash
# seedimport.sh Cxx : copy /tmp/seed/out/Cxx/{patch,demo,meta}_k into /verif/seeded/Cxxk/ and confirm each
P=$1
for k in a b c; do
  [ -f /tmp/seed/out/$P/patch_$k.diff ] || continue
  d=/verif/seeded/$P$k; mkdir -p $d
  cp /tmp/seed/out/$P/patch_$k.diff $d/patch.diff; cp /tmp/seed/out/$P/demo_$k.c $d/demo.c; cp /tmp/seed/out/$P/meta_$k.json $d/meta.json
  echo "### $P$k"; /verif/tools/seedconfirm.sh $d | tee $d/confirm.log
done
