#!/bin/bash
# seedimport6.sh Cxx : sixth batch (/tmp/seed/out6/Cxx/{patch,demo,meta}_{a,b}) -> /verif/seeded/Cxx{k,l}
P=$1
for k in a b; do
  [ -f /tmp/seed/out6/$P/patch_$k.diff ] || continue
  n=$([ $k = a ] && echo k || echo l)
  d=/verif/seeded/$P$n; mkdir -p $d
  cp /tmp/seed/out6/$P/patch_$k.diff $d/patch.diff; cp /tmp/seed/out6/$P/demo_$k.c $d/demo.c; cp /tmp/seed/out6/$P/meta_$k.json $d/meta.json
  echo "### $P$n"; /verif/tools/seedconfirm.sh $d | tee $d/confirm.log
done
