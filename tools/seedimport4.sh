#!/bin/bash
# seedimport3.sh Cxx : fourth batch (/tmp/seed/out4/Cxx/{patch,demo,meta}_{a,b}) -> /verif/seeded/Cxx{g,h}
P=$1
for k in a b; do
  [ -f /tmp/seed/out4/$P/patch_$k.diff ] || continue
  n=$([ $k = a ] && echo g || echo h)
  d=/verif/seeded/$P$n; mkdir -p $d
  cp /tmp/seed/out4/$P/patch_$k.diff $d/patch.diff; cp /tmp/seed/out4/$P/demo_$k.c $d/demo.c; cp /tmp/seed/out4/$P/meta_$k.json $d/meta.json
  echo "### $P$n"; /verif/tools/seedconfirm.sh $d | tee $d/confirm.log
done
