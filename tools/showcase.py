#!/usr/bin/env python3
"""print the lines of the 'bytes' blob of a case file with their lengths"""
import sys
def unesc(s):
    out=bytearray(); i=0
    while i<len(s):
        c=s[i]
        if c=='\\' and i+1<len(s):
            n=s[i+1]
            if n=='n': out.append(10); i+=2
            elif n=='\\': out.append(0x5c); i+=2
            elif n=='x': out.append(int(s[i+2:i+4],16)); i+=4
            else: out.append(ord(n)); i+=2
        else: out+=c.encode('utf8'); i+=1
    return bytes(out)
for l in open(sys.argv[1]):
    k,_,v=l.rstrip('\n').partition('=')
    if k in ('bytes',):
        b=unesc(v)
        import re
        for i,x in enumerate(re.split(b'\r\n|\n|\r',b)):
            t=x.decode('utf8','replace')
            print(i+1,len(t),repr(t[:100]), ('...'+repr(t[-40:])) if len(t)>100 else '')
    elif k in ('_msg',): print(k, v[:2000])
    elif len(sys.argv)>2: print(k, v[:1500])
