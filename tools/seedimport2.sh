#!/bin/bash
# seedimport2.sh Cxx : second batch (/tmp/seed/out2/Cxx/{patch,demo,meta}_{a,b}) -> /verif/seeded/Cxx{c,d}
P=$1
for k in a b; do
  [ -f /tmp/seed/out2/$P/patch_$k.diff ] || continue
  n=$([ $k = a ] && echo c || echo d)
  d=/verif/seeded/$P$n; mkdir -p $d
  cp /tmp/seed/out2/$P/patch_$k.diff $d/patch.diff; cp /tmp/seed/out2/$P/demo_$k.c $d/demo.c; cp /tmp/seed/out2/$P/meta_$k.json $d/meta.json
  echo "### $P$n"; /verif/tools/seedconfirm.sh $d | tee $d/confirm.log
done
