#!/bin/bash
# seedrun_wt.sh <seeded dir> <check id>... : like seedrun.sh, but applies the seeded change in a scratch worktree of /repo HEAD
# (VERIF_REPO points the check there) so that /repo itself stays untouched -- used while long runs against /repo are in progress.
D=$(readlink -f "$1"); shift
WT=${SEED_WT:-/tmp/seedchk/wt}
[ -d "$WT" ] || git -C /repo worktree add --detach "$WT" >/dev/null 2>&1
git -C "$WT" checkout -q -- . ; git -C "$WT" checkout -q --detach "$(git -C /repo rev-parse HEAD)"
git -C "$WT" apply "$D/patch.diff" || exit 2
trap 'git -C "$WT" checkout -q -- .' EXIT
mkdir -p /tmp/seedchk/ev
for c in "$@"; do
  out=$(VERIF_REPO=$WT VERIF_EVIDENCE_DIR=/tmp/seedchk/ev VERIF_SEED=${VERIF_SEED:-1} /verif/bin/vcheck $c ${SEED_TIER:-quick} 2>&1); rc=$?
  # exit 1 counts as "detected" only with a VIOLATION line (a crashed driver also exits 1)
  if [ $rc -eq 1 ] && ! echo "$out" | grep -q "^VIOLATION property="; then rc=3; fi
  echo "== $c rc=$rc"; echo "$out" | grep -E "VIOLATION|SUMMARY|detail:|INCONCLUSIVE" | head -8
done
