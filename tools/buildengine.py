#!/usr/bin/env python3
"""buildengine.py <src relative to harness/> [kind]  -- build one engine and print the binary path"""
import sys, importlib.util, importlib.machinery
loader = importlib.machinery.SourceFileLoader('vcheck', '/verif/bin/vcheck')
spec = importlib.util.spec_from_loader('vcheck', loader)
m = importlib.util.module_from_spec(spec); loader.exec_module(m)
kind = sys.argv[2] if len(sys.argv) > 2 else 'pbt'
print(m.build_engine(sys.argv[1], m.vbuild('fuzz' if kind == 'fuzz' else 'san'), kind))
