#!/bin/bash
# seedrun.sh <seeded dir> <check id>... : apply the seeded change to /repo, run the named checks (quick tier),
# undo it straight afterwards.  Evidence of these runs goes to /tmp, never to /verif/evidence.
D=$(readlink -f "$1"); shift
[ -z "$(git -C /repo status --porcelain --untracked-files=no)" ] || { echo "/repo working tree not clean"; exit 2; }
git -C /repo apply "$D/patch.diff" || exit 2
trap 'git -C /repo checkout -- .' EXIT
mkdir -p /tmp/seedchk/ev
for c in "$@"; do
  out=$(VERIF_EVIDENCE_DIR=/tmp/seedchk/ev VERIF_SEED=${VERIF_SEED:-1} /verif/bin/vcheck $c ${SEED_TIER:-quick} 2>&1); rc=$?
  # exit 1 counts as "detected" only with a VIOLATION line (a crashed driver also exits 1)
  if [ $rc -eq 1 ] && ! echo "$out" | grep -q "^VIOLATION property="; then rc=3; fi
  echo "== $c rc=$rc"; echo "$out" | grep -E "VIOLATION|SUMMARY|detail:|INCONCLUSIVE" | head -8
done
