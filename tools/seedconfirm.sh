#!/bin/bash
# seedconfirm.sh <dir with patch.diff demo.c meta.json> : confirm a seeded change in a scratch worktree
# (compiles, 74 test programs pass, demo fails with it and passes without it).  Prints CONFIRMED or REJECTED.
set -u
D=$(readlink -f "$1"); WT=${SEED_WT:-/tmp/seedchk/wt}
LIBS="-lsqlite3 -licuio -licui18n -licuuc -licudata -lm ${SEED_EXTRA_LIBS:-}"
if [ ! -d "$WT" ]; then
  mkdir -p "$(dirname "$WT")"
  git -C /repo worktree add --detach "$WT" >/dev/null 2>&1 || { echo "REJECTED cannot create worktree"; exit 2; }
  (cd "$WT" && ./configure >/dev/null 2>&1 && make -j8 >/dev/null 2>&1)
fi
cd "$WT" || exit 2
git checkout -q -- . ; git checkout -q --detach "$(git -C /repo rev-parse HEAD)" 2>/dev/null
make -j8 >/dev/null 2>&1
gcc -I src -I . "$D/demo.c" -L src/.libs -lcif -Wl,-rpath,$WT/src/.libs $LIBS -o /tmp/seedchk/demo_base_$$ 2>/tmp/seedchk/demo_build_$$.log || { echo "REJECTED demo does not build on baseline"; cat /tmp/seedchk/demo_build_$$.log | head; exit 1; }
timeout 300 ${SEED_RUNNER:-} /tmp/seedchk/demo_base_$$ >/tmp/seedchk/base_$$.out 2>&1; rb=$?
git apply "$D/patch.diff" || { echo "REJECTED patch does not apply"; exit 1; }
errs=$(make -j8 2>&1 | grep -E " error: " | head -3)
if [ -n "$errs" ]; then echo "REJECTED compile error: $errs"; git checkout -q -- .; exit 1; fi
res=$(make -k check 2>&1 | grep -E " error: |^# (PASS|FAIL|ERROR)" | tr '\n' ' ')
gcc -I src -I . "$D/demo.c" -L src/.libs -lcif -Wl,-rpath,$WT/src/.libs $LIBS -o /tmp/seedchk/demo_mut_$$ 2>>/tmp/seedchk/demo_build_$$.log
timeout 300 ${SEED_RUNNER:-} /tmp/seedchk/demo_mut_$$ >/tmp/seedchk/mut_$$.out 2>&1; rm_=$?
git checkout -q -- .
echo "tests: $res"
echo "demo baseline rc=$rb ($(tail -1 /tmp/seedchk/base_$$.out)) ; mutated rc=$rm_ ($(tail -1 /tmp/seedchk/mut_$$.out))"
if echo "$res" | grep -q "# PASS:  *74" && echo "$res" | grep -q "# FAIL:  *0" && echo "$res" | grep -q "# ERROR:  *0" && [ $rb -eq 0 ] && [ $rm_ -ne 0 ]; then echo CONFIRMED; exit 0; fi
echo REJECTED; exit 1
