"""helpers to hand-write replay case files"""
def esc(b):
    o=''
    for c in b:
        if c==0x5c: o+='\\\\'
        elif c==10: o+='\\n'
        elif 0x20<=c<0x7f: o+=chr(c)
        else: o+='\\x%02x'%c
    return o
def write(path, engine, **kv):
    with open(path,'w') as f:
        f.write('_engine=%s\n'%engine)
        for k,v in kv.items():
            if isinstance(v,str): v=v.encode()
            if isinstance(v,int): v=str(v).encode()
            f.write('%s=%s\n'%(k,esc(v)))
def scalar_expected(val, block='a', name='_x'):
    return 'block "%s" {\n loop scalar ["%s"] {\n  row %s\n }\n}\n'%(block,name,val)
