# Per-property check configuration: one file per property under bin/checks/<ID>.py defining CHECK = {...}
import glob, importlib.util, os
CHECKS = {}
for _p in sorted(glob.glob(os.path.join(os.path.dirname(os.path.abspath(__file__)), "checks", "C*.py"))):
    _spec = importlib.util.spec_from_file_location("check_" + os.path.basename(_p)[:-3], _p)
    _m = importlib.util.module_from_spec(_spec); _spec.loader.exec_module(_m)
    CHECKS[os.path.basename(_p)[:-3]] = _m.CHECK
# properties not claimed yet: reason shown in MANIFEST.not_applicable
NOT_YET = {}
