# Per-property check configuration: which engines run, with how many workers/cases per tier.
CHECKS = {
    "C20": {
        "level": "exploration",
        "rule": "exhaustive: every '#define CIF_<NAME> <n>' of cif.h's return_codes group (scraped at run time from the tree "
                "under test, CIF_TRAVERSE_* excluded) is one case; every code is non-trivial; distinct = distinct code names",
        "assumptions": ["the committed stem table (harness/pbt/C20_errlist.cpp) transcribes each code's @brief text",
                        "slots between defined codes are unconstrained"],
        "min_evaluations": 40,
        "technique": "exhaustive enumeration of the generated finite domain (result codes scraped from cif.h) against a stem-table oracle",
        "level_text": "Every result code defined in the header of the tree under test is checked on every run (exhaustive over a finite domain): slot inside the table, non-empty, describes that condition per a committed stem table, pairwise distinct. This is as strong as testing gets for a ~60-element domain; the residual trust is in the stem table.",
        "level_note": "Trusted: the stem table transcribed from the @brief texts in cif.h; the header scrape (comments stripped).",
        "engines": [{"src": "pbt/C20_errlist.cpp", "quick": {"workers": 1, "cases": 1}, "thorough": {"workers": 1, "cases": 1}}],
    },
}
CHECKS["C07"] = {
    "level": "exploration",
    "rule": "rapidcheck generates a value tree (strings over a weighted alphabet incl. any well-formed UTF-16, numbers in all spellings, "
            "NA/UNK, lists/tables to depth 5) x store route (5) x read route (4); non-trivial = composite depth >= 2, or string > 256 units, "
            "or an empty key/list/table, or a number in non-plain spelling; distinct = hash of (value, routes)",
    "assumptions": ["unpaired surrogates are outside 'well-formed Unicode text' and not generated",
                    "digit precision is observed through cif_value_get_number/get_su (bit-exact) and the text, not by reading struct fields"],
    "min_evaluations": 300,
    "technique": "property-based testing (rapidcheck): generated value trees, round-trip oracle through 5 store x 4 read routes, model equality",
    "level_text": "Generated search with an exact model-equality oracle over every store/read route pair, under ASan/UBSan with allocation balance; bounded by depth 5, 700-unit strings. Finds mismatches and aliasing for the shapes generated; proves nothing beyond them.",
    "level_note": "Trusted: my Value model and its to_cif/from_cif bridges (public API only); rapidcheck; sanitizers.",
    "engines": [{"src": "pbt/C07_values.cpp", "quick": {"workers": 8, "cases": 2500, "size": 100}, "thorough": {"workers": 16, "cases": 40000, "size": 200}}],
}
CHECKS["C01"] = {
    "level": "exploration",
    "rule": "rapidcheck generates an abstract document (blocks, frames, scalars, loops, nested lists/tables, CIF 2.0 or CIF 1.1 repertoire) "
            "and an independent layout tape (whitespace, comments, delimiter per value, text-field fold/prefix encodings, keyword case, BOM); "
            "my own printer renders it; non-trivial = >= 3 delimiter kinds, or a folded/prefixed text field, or a composite, or a non-BMP "
            "character; distinct = hash of the document bytes",
    "assumptions": ["the layout printer (harness/common/cifprint.cpp) implements the CIF 2.0/1.1 grammar and the text prefix / line-folding protocols as specified",
                    "loop packets are compared as multisets (order not asserted)"],
    "min_evaluations": 300,
    "technique": "property-based testing (rapidcheck): grammar-based document + layout generation, print/parse round-trip against an abstract model",
    "level_text": "Generated search over content x layout with an exact model-equality oracle (dump through public getters), silent-callback and default-handler checks, under ASan/UBSan. Bounded document sizes (<= ~20 kB quick); finds layout-dependent mis-parses for generated combinations only.",
    "level_note": "Trusted: my printer's reading of the CIF grammar; dump()/model code; rapidcheck; sanitizers.",
    "engines": [{"src": "pbt/C01_parse.cpp", "quick": {"workers": 8, "cases": 250, "size": 100}, "thorough": {"workers": 16, "cases": 10000, "size": 150}}],
}
CHECKS["C02"] = {
    "level": "exploration",
    "rule": "rapidcheck generates a managed CIF through the API (blocks, frames nested to depth 3, scalars, loops; values of all six kinds incl. "
            "NUMB and quoted numbers, nested lists/tables, strings over the CIF 2.0 repertoire without CR, line-length boosters around 2048/4096); "
            "non-trivial = holds a value that cannot be written bare or single-quoted (newline, both quote kinds, > 2040 chars, composite); distinct = hash of the document",
    "assumptions": ["equivalence as stated in the property (NUMB == unquoted CHAR of same text; unquoted ';...' may come back quoted; names/codes matched under case-folded normalisation; table keys under NFC)",
                    "CIF_DISALLOWED_VALUE is accepted only when some table key is not clearly presentable quoted/triple-quoted",
                    "the re-parse uses the library's own parser (validated separately by C01 against an independent printer)"],
    "min_evaluations": 300,
    "technique": "property-based testing (rapidcheck): API-built CIFs, write -> output validity checks -> re-parse -> equivalence oracle",
    "level_text": "Generated search with a round-trip equivalence oracle plus direct checks of the bytes (magic, strict UTF-8, CIF 2.0 repertoire, line length), under ASan/UBSan with allocation balance. Bounded value sizes; no proof.",
    "level_note": "Trusted: my equivalence relation and output validators; the library parser for the re-read (C01 covers it); rapidcheck; sanitizers.",
    "engines": [{"src": "pbt/C02_write.cpp", "quick": {"workers": 8, "cases": 1500, "size": 100}, "thorough": {"workers": 16, "cases": 10000, "size": 150}}],
}
CHECKS["C13"] = {
    "level": "exploration",
    "rule": "as C02 but written in CIF 1.1 mode; 70% of CIFs purely over the CIF 1.1 repertoire (quotes followed/not followed by blanks, ';' after newline, "
            "trailing backslashes, long lines), 10% with lists/tables, 20% with non-1.1 characters in codes, names or strings; non-trivial = holds a value "
            "needing a text field or a refusal case; distinct = hash of the document",
    "assumptions": ["CIF_DISALLOWED_VALUE is accepted only if the CIF holds a list/table or a string containing newline-semicolon; CIF_DISALLOWED_CHAR only if some code, name or string has a character outside 0x20-0x7E, TAB, LF",
                    "re-parse with line_folding_modifier=1, text_prefixing_modifier=1 as the property states"],
    "min_evaluations": 300,
    "technique": "property-based testing (rapidcheck): API-built CIFs, CIF 1.1 write -> purity/line checks -> re-parse -> equivalence or justified refusal",
    "level_text": "Generated search; oracle = refusal-code justification predicate or full round-trip equivalence plus byte-level purity checks, under ASan/UBSan.",
    "level_note": "Trusted: my predicate of CIF 1.1 expressibility, the equivalence relation, the library parser for the re-read.",
    "engines": [{"src": "pbt/C13_write11.cpp", "quick": {"workers": 8, "cases": 1500, "size": 100}, "thorough": {"workers": 16, "cases": 10000, "size": 150}}],
}

# properties not claimed yet: reason shown in MANIFEST.not_applicable
NOT_YET = {}
