# Per-property check configuration: which engines run, with how many workers/cases per tier.
CHECKS = {
    "C20": {
        "level": "exploration",
        "rule": "exhaustive: every '#define CIF_<NAME> <n>' of cif.h's return_codes group (scraped at run time from the tree "
                "under test, CIF_TRAVERSE_* excluded) is one case; every code is non-trivial; distinct = distinct code names",
        "assumptions": ["the committed stem table (harness/pbt/C20_errlist.cpp) transcribes each code's @brief text",
                        "slots between defined codes are unconstrained"],
        "min_evaluations": 40,
        "technique": "exhaustive enumeration of the generated finite domain (result codes scraped from cif.h) against a stem-table oracle",
        "level_text": "Every result code defined in the header of the tree under test is checked on every run (exhaustive over a finite domain): slot inside the table, non-empty, describes that condition per a committed stem table, pairwise distinct. This is as strong as testing gets for a ~60-element domain; the residual trust is in the stem table.",
        "level_note": "Trusted: the stem table transcribed from the @brief texts in cif.h; the header scrape (comments stripped).",
        "engines": [{"src": "pbt/C20_errlist.cpp", "quick": {"workers": 1, "cases": 1}, "thorough": {"workers": 1, "cases": 1}}],
    },
}
CHECKS["C07"] = {
    "level": "exploration",
    "rule": "rapidcheck generates a value tree (strings over a weighted alphabet incl. any well-formed UTF-16, numbers in all spellings, "
            "NA/UNK, lists/tables to depth 5) x store route (5) x read route (4); non-trivial = composite depth >= 2, or string > 256 units, "
            "or an empty key/list/table, or a number in non-plain spelling; distinct = hash of (value, routes)",
    "assumptions": ["unpaired surrogates are outside 'well-formed Unicode text' and not generated",
                    "digit precision is observed through cif_value_get_number/get_su (bit-exact) and the text, not by reading struct fields"],
    "min_evaluations": 300,
    "technique": "property-based testing (rapidcheck): generated value trees, round-trip oracle through 5 store x 4 read routes, model equality",
    "level_text": "Generated search with an exact model-equality oracle over every store/read route pair, under ASan/UBSan with allocation balance; bounded by depth 5, 700-unit strings. Finds mismatches and aliasing for the shapes generated; proves nothing beyond them.",
    "level_note": "Trusted: my Value model and its to_cif/from_cif bridges (public API only); rapidcheck; sanitizers.",
    "engines": [{"src": "pbt/C07_values.cpp", "quick": {"workers": 8, "cases": 2500, "size": 100}, "thorough": {"workers": 16, "cases": 40000, "size": 200}}],
}
CHECKS["C01"] = {
    "level": "exploration",
    "rule": "rapidcheck generates an abstract document (blocks, frames, scalars, loops, nested lists/tables, CIF 2.0 or CIF 1.1 repertoire) "
            "and an independent layout tape (whitespace, comments, delimiter per value, text-field fold/prefix encodings, keyword case, BOM); "
            "my own printer renders it; non-trivial = >= 3 delimiter kinds, or a folded/prefixed text field, or a composite, or a non-BMP "
            "character; distinct = hash of the document bytes",
    "assumptions": ["the layout printer (harness/common/cifprint.cpp) implements the CIF 2.0/1.1 grammar and the text prefix / line-folding protocols as specified",
                    "loop packets are compared as multisets (order not asserted)"],
    "min_evaluations": 300,
    "technique": "property-based testing (rapidcheck): grammar-based document + layout generation, print/parse round-trip against an abstract model",
    "level_text": "Generated search over content x layout with an exact model-equality oracle (dump through public getters), silent-callback and default-handler checks, under ASan/UBSan. Bounded document sizes (<= ~20 kB quick); finds layout-dependent mis-parses for generated combinations only.",
    "level_note": "Trusted: my printer's reading of the CIF grammar; dump()/model code; rapidcheck; sanitizers.",
    "engines": [{"src": "pbt/C01_parse.cpp", "quick": {"workers": 8, "cases": 250, "size": 100}, "thorough": {"workers": 16, "cases": 10000, "size": 150}}],
}

# properties not claimed yet: reason shown in MANIFEST.not_applicable
NOT_YET = {}
