# check configuration for C01 (loaded by bin/vconfig.py)
CHECK = {'level': 'exploration',
 'rule': 'rapidcheck generates an abstract document (blocks, frames, scalars, loops, nested lists/tables, CIF 2.0 or CIF 1.1 repertoire) and an '
         'independent layout tape (whitespace, comments, delimiter per value, text-field fold/prefix encodings, keyword case, BOM); my own printer '
         'renders it; 3% of the CIF 2.0 documents get an extra data block holding one token longer than the whole scan buffer (131200 units: text field, triple-quoted string, or a run of insignificant whitespace) between two marker items; non-trivial = >= 3 delimiter kinds, or a folded/prefixed text field, or a composite, or a non-BMP character; distinct = hash '
         'of the document bytes',
 'assumptions': ['the layout printer (harness/common/cifprint.cpp) implements the CIF 2.0/1.1 grammar and the text prefix / line-folding protocols '
                 'as specified',
                 'loop packets are compared as multisets (order not asserted)'],
 'min_evaluations': 300,
 'technique': 'property-based testing (rapidcheck): grammar-based document + layout generation, print/parse round-trip against an abstract model',
 'level_text': 'Generated search over content x layout with an exact model-equality oracle (dump through public getters), silent-callback and '
               'default-handler checks, under ASan/UBSan. Bounded document sizes (<= ~20 kB quick, plus the 150-400 kB huge-token documents); finds layout-dependent mis-parses for generated '
               'combinations only.',
 'level_note': "Trusted: my printer's reading of the CIF grammar; dump()/model code; rapidcheck; sanitizers.",
 'engines': [{'src': 'pbt/C01_parse.cpp',
              'quick': {'workers': 8, 'cases': 250, 'size': 100},
              'thorough': {'workers': 16, 'cases': 10000, 'size': 150}}]}
