# check configuration for C18 (loaded by bin/vconfig.py)
CHECK = {'level': 'exploration',
 'rule': 'one case = one NUL-free UTF-16 string, checked under all 16 combinations allow_unquoted x allow_triple_quoted x length_limit {8,20,80,2048}; '
         '(i) exhaustive: every string of 0..3 (quick) / 0..4 (thorough) symbols over a 1 SP TAB LF \' " ; \\ # _ $ [ ] { } ? . : data_ save_ loop_ '
         'stop_ global_, plus length 5 over a 10-symbol sub-alphabet (thorough), striped over the workers; (ii) rapidcheck: CIF 2.0 text to 6000 code '
         'points, lines boosted to limit-7..limit+1, triple-delimiter placements, reserved words in mixed case, semicolon runs, protocol-like first '
         'lines, multi-line strings with first/last line near limit-3, any-UTF-16 strings with CR / CR LF / VT for the statistics; non-trivial = the '
         'string contains >= 2 distinct characters of \' " ; \\ LF or its longest line lies within limit-7..limit+1 of a limit; distinct = hash of the string',
 'assumptions': ['has_trailing_ws is unconstrained for blanks at the very end of the string and for VT before a terminator (header and code differ)',
                 'parser agreement is checked only for strings a CIF 2.0 file can contain and without CR (the parser folds CR into LF); such strings '
                 'still get the statistics, delimiter-consistency, permission and fit checks',
                 'a value read back as NUMB kind with the same text and quoted flag counts as "exactly that string"',
                 'text-field recommendations are probed through my own prefix/fold encoder unless the analysis flags say a plain text field works',
                 'cif_value_try_quoted on a string whose only obstacle is a leading [ or ] may return CIF_OK or CIF_ARGUMENT_ERROR (CIF 1.1 forbids it too)',
                 'minimality is demanded only 2 units away from the limit boundary (length <= limit-2 bare, length+2 <= limit-2 quoted)'],
 'min_evaluations': 3000,
 'technique': 'bounded-exhaustive enumeration over the alphabet of syntactically significant characters plus property-based testing (rapidcheck); '
              'naive recomputation of the statistics, grammar predicates written from the CIF 2.0 specification, and a parse round trip of probe '
              'documents as oracles',
 'level_text': 'Every short string over the significant alphabet and tens of thousands of generated strings are analysed under all argument combinations; '
               'each distinct recommendation is presented in a probe document (line start after a blank; mid-line ending exactly at the limit) and read '
               'back through cif_parse and the stored value. Bounded by string length (4-5 symbols exhaustively, 6000 code points randomly) and by the '
               'positions probed; proves nothing beyond them.',
 'level_note': 'Trusted: my naive statistics, the predicates in gens.hpp, my text-field encoder (cifprint.cpp), rapidcheck, the sanitizers.',
 'engines': [{'src': 'pbt/C18_analyze.cpp',
              'args': ['--workers-quick', '8', '--workers-thorough', '16'],
              'quick': {'workers': 8, 'cases': 900, 'size': 100},
              'thorough': {'workers': 16, 'cases': 30000, 'size': 100}}]}
