# check configuration for C14 (loaded by bin/vconfig.py)
CHECK = {'level': 'exploration',
 'rule': 'rapidcheck generates a managed CIF (<= 3 blocks, frames nested to depth 2, <= 3 loops x <= 4 packets x <= 3 items, values of all kinds) and a handler program: '
         '1-3 responses (SKIP_CURRENT, SKIP_SIBLINGS, END, positive error codes) keyed by callback ordinal, and/or one response for every callback of one kind, '
         'or a random set of NULL handler slots with everything continuing; the recorded callback log is validated by a recursive-descent checker against the '
         'content reported by the public getters; non-trivial = a non-CONTINUE response to a start/item callback that was not the last callback; '
         'distinct = hash of (document, program)',
 'assumptions': ['sibling order (blocks, frames, loops, packets, items) is not specified: the log is validated, not predicted',
                 'whether the end callback of an element that skipped itself, or of the parent of an element that asked to skip siblings, is still made is not fixed by the statement: both accepted (the handler answers CONTINUE there)',
                 'handler error codes are drawn from {1, 2, 3, 7, 10, 36, 43, 104, 140, 1000}',
                 'item names are compared under case-folded normalisation (callbacks pass normalised names)'],
 'min_evaluations': 300,
 'technique': 'property-based testing (rapidcheck): generated CIFs x handler programs, callback log validated by a grammar-style checker derived from the property',
 'level_text': 'Generated search; oracle = recursive-descent validation of the complete callback log (each element once, frames before loops, start before end, item '
               'values, suppression after directives, returned code), under ASan/UBSan with allocation balance. Bounded document sizes.',
 'level_note': 'Trusted: the log checker (transcribed from the property statement), dump() for the reference content.',
 'engines': [{'src': 'pbt/C14_walk.cpp',
              'quick': {'workers': 8, 'cases': 600, 'size': 100},
              'thorough': {'workers': 16, 'cases': 30000, 'size': 100}}]}
