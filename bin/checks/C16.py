# check configuration for C16 (loaded by bin/vconfig.py)
_E = lambda src, qc, tc, qw=2, tw=4: {'src': src, 'quick': {'workers': qw, 'cases': qc, 'size': 100}, 'thorough': {'workers': tw, 'cases': tc, 'size': 100}}
CHECK = {'level': 'exploration',
 'mem_only': True,
 'rule': 'C16 quantifies over the call sequences and inputs of the other properties, so it re-runs their generators (documents and layouts, writer inputs, mutated and '
         'fuzzed parser inputs, API histories incl. failing calls, iterator scripts, value trees and value/packet op histories, names, numbers, walk and parse handler '
         'programs, string analysis) with only the memory-safety oracle switched on: ASan/UBSan reports, per-case allocation balance through the forced-include shim, '
         "SQLite heap balance, LC_NUMERIC and rounding-mode preservation, per-case hang watchdog; semantic mismatches are ignored here (they belong to the other "
         'property); non-trivial / distinct as defined by each source engine',
 'assumptions': ['ICU-internal allocations are outside the shim (ICU caches); SQLite-side balance is taken from sqlite3_memory_used()',
                 'error paths are those the source generators reach; the evidence of C03/C04/C05/C13 lists the result codes reached'],
 'min_evaluations': 3000,
 'technique': 'property-based testing and fuzzing with sanitizers: the other properties\' generators re-run under ASan/UBSan with allocation-balance, SQLite-heap, locale and rounding-mode oracles',
 'level_text': 'Generated search (14 engines) where every case is a memory-safety/resource/global-state test: sanitizer abort, leak by exact allocation balance, locale or '
               'rounding-mode change, or a hang fails the case. Coverage of early-exit paths is bounded by what the generators reach.',
 'level_note': 'Trusted: clang ASan/UBSan, the allocation shim, sqlite3_memory_used().',
 'engines': [_E('pbt/C01_parse.cpp', 120, 4000), _E('pbt/C02_write.cpp', 500, 6000), _E('pbt/C13_write11.cpp', 500, 6000), _E('pbt/C03_struct.cpp', 400, 10000),
             _E('pbt/C04_history.cpp', 400, 8000), _E('pbt/C05_failed.cpp', 300, 8000), _E('pbt/C06_pktitr.cpp', 500, 10000), _E('pbt/C07_values.cpp', 1500, 20000),
             _E('pbt/C08_eol.cpp', 500, 8000), _E('pbt/C09_names.cpp', 200, 3000, 1, 2), _E('pbt/C10_numbers.cpp', 8000, 200000, 1, 2), _E('pbt/C14_walk.cpp', 400, 10000),
             _E('pbt/C15_parsecb.cpp', 300, 10000), _E('pbt/C18_analyze.cpp', 300, 10000, 1, 2), _E('pbt/C19_valueops.cpp', 2000, 20000, 1, 2)],
 # uses of uninitialised memory are invisible to ASan/UBSan: a sample of the generated cases of these engines (spread over each
 # worker-0 run) and the committed cases under replay/C16/vg/ are re-run through an uninstrumented build under valgrind memcheck
 'valgrind': {'engines': ['C01_parse.cpp', 'C02_write.cpp', 'C03_struct.cpp', 'C04_history.cpp', 'C06_pktitr.cpp', 'C07_values.cpp', 'C08_eol.cpp',
                          'C14_walk.cpp', 'C15_parsecb.cpp', 'C19_valueops.cpp'],
              'quick': {'keep': 5}, 'thorough': {'keep': 40}}}
