# check configuration for C20 (loaded by bin/vconfig.py)
CHECK = {'level': 'exploration',
 'rule': "exhaustive: every '#define CIF_<NAME> <n>' of cif.h's return_codes group (scraped at run time from the tree under test, CIF_TRAVERSE_* "
         'excluded) is one case; every code is non-trivial; distinct = distinct code names',
 'assumptions': ["the committed stem table (harness/pbt/C20_errlist.cpp) transcribes each code's @brief text",
                 'slots between defined codes are unconstrained',
                 'code literals are read as the C compiler reads them (strtol base 0: 052 is forty-two); two names with one number are a violation'],
 'min_evaluations': 40,
 'technique': 'exhaustive enumeration of the generated finite domain (result codes scraped from cif.h) against a stem-table oracle',
 'level_text': 'Every result code defined in the header of the tree under test is checked on every run (exhaustive over a finite domain): slot '
               'inside the table, non-empty, describes that condition per a committed stem table, pairwise distinct. This is as strong as testing '
               'gets for a ~60-element domain; the residual trust is in the stem table.',
 'level_note': 'Trusted: the stem table transcribed from the @brief texts in cif.h; the header scrape (comments stripped).',
 'engines': [{'src': 'pbt/C20_errlist.cpp', 'quick': {'workers': 1, 'cases': 1}, 'thorough': {'workers': 1, 'cases': 1}}]}
