# check configuration for C09 (loaded by bin/vconfig.py)
_WQ, _WT = 8, 16
CHECK = {'level': 'exploration',
 'rule': 'rapidcheck generates a base spelling over weighted classes aimed at NFD->fold->NFC (ASCII, Latin with decompositions, Greek incl. U+0345 / '
         'final sigma, expanding foldings, Hangul syllables/jamo, marks of many combining classes in arbitrary order, singletons, cased supplementary '
         'letters), a variant (per-character and whole-string case mapping, NFC/NFD per segment, mark swaps; every step certified by the independent '
         'pipeline) and a near miss (look-alike, changed mark, ZWJ, deletion ...), used by four sub-properties: cif_normalize; lookup of block / frame / '
         'scalar item / loop item / packet item; table keys; validity of arbitrary strings (invalid ingredients, lengths 2040..2100). Plus a code point '
         'sweep (quick: 1/8 sample + boundary and class ranges; thorough: every code point U+0001..U+10FFFF incl. lone surrogates). non-trivial = '
         'variant differs from the base in both case and normalisation form, or base has >= 2 combining marks, or the string is invalid/unconstrained '
         'for a reason other than emptiness; distinct = hash of (mode, kind, strings)',
 'assumptions': ['U+FEFF inside a name/code/key and codes of 2044..2048 code points are unconstrained (either outcome accepted)',
                 'C1 controls U+0080..U+009F count as control characters (invalid) per the statement',
                 'codes beginning with U+FEFF are not generated (storage artefact recorded under C07)',
                 'cif_normalize is exercised on well-formed, NUL-free UTF-16 only; srclen cuts fall on code point boundaries',
                 'retrieved spelling is demanded to be the creation spelling for container codes and loop item names; after set_value under an '
                 'equivalent spelling only the value is checked',
                 'expected outcomes of every probe are recomputed in the case runner from cm::norm_name / cm::nfc (ICU unorm2 + u_strFoldCase) and '
                 'cross-checked by a hand-written NFD (raw decompositions + stable sort by combining class) and per-character full case folding'],
 'min_evaluations': 300,
 'technique': 'property-based testing (rapidcheck): generated spelling triples with oracle-certified equivalence, model of normalised names, '
              'validity predicate written from the statement; bounded-exhaustive code point sweep',
 'level_text': 'Generated search plus an exhaustive single-code-point sweep (thorough tier), oracle independent of the library code but sharing the '
               'ICU 72 character data; under ASan/UBSan with allocation balance. Interactions of several unusual characters are sampled, not enumerated.',
 'level_note': 'Trusted: ICU normalisation data and unorm2/u_strFoldCase; my validity predicate; rapidcheck; sanitizers.',
 'engines': [{'src': 'pbt/C09_names.cpp',
              'args': ['--workers-quick', str(_WQ), '--workers-thorough', str(_WT)],
              'quick': {'workers': _WQ, 'cases': 600, 'size': 100},
              'thorough': {'workers': _WT, 'cases': 8000, 'size': 100}}]}
