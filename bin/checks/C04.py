# check configuration for C04 (loaded by bin/vconfig.py)
CHECK = {'level': 'exploration',
 'rule': 'rapidcheck generates a history of up to 45 abstract API operations (create/lookup/destroy blocks and frames, create loops with valid/invalid/duplicate '
         'names in any position, set/get/remove items, add items and packets, set categories, prune, iterate-and-edit with close/abort, parse into the CIF, '
         'stale loop handle) over 1-2 managed CIFs with names drawn from pools of case/normalisation variants; the history is interpreted against the library '
         'and a reference model, comparing the return code and a full dump of every CIF after every operation; non-trivial = >= 6 ops and (a name re-created '
         'after its removal, or both CIFs modified); distinct = hash of the history',
 'assumptions': ['where cif.h does not order several applicable errors, any of them is accepted',
                 'cif_loop_set_category(scalar loop, "") may return CIF_OK (header) or CIF_RESERVED_LOOP (code)',
                 'partial packets (a generated non-empty proper subset of the loop items; the model gives the omitted items the unknown value) are generated; handles are re-acquired for every operation except the documented stale-handle case'],
 'min_evaluations': 200,
 'technique': 'model-based stateful property testing (rapidcheck-generated operation histories interpreted against a reference data model, invariant after every step)',
 'level_text': 'Generated histories with a full-state oracle after every step (return code + dump of every CIF vs the model), under ASan/UBSan with allocation balance. '
               'Histories are bounded (45 ops, 2 CIFs, small name pools chosen to collide); no exhaustiveness.',
 'level_note': 'Trusted: the reference model (transcribed from cif.h), dump() through public getters, my independent name normaliser.',
 'engines': [{'src': 'pbt/C04_history.cpp',
              'quick': {'workers': 8, 'cases': 1500, 'size': 100},
              'thorough': {'workers': 16, 'cases': 40000, 'size': 100}}]}
