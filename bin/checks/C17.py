# check configuration for C17 (loaded by bin/vconfig.py)
CHECK = {'level': 'fault_enumeration',
 'rule': 'rapidcheck draws a scenario = one public API call (88 scenarios covering the value, packet, CIF, container, loop, iterator, parse, write and utility '
         'functions of cif.h) with generated argument shapes (value trees, NULL/non-NULL out-parameters, category/no category ...) on a fixture CIF; the call is '
         'first run fault-free to count the allocations it requests (library side through the forced-include shim, storage-engine side through an SQLite '
         'allocator wrapper), then re-run once per allocation with exactly that allocation failing (at most 400 fault points per case; calls with more allocations -- parse, write -- are sampled evenly over the whole call with a per-case offset, so that many cases cover every point); non-trivial = a '
         'scenario with at least two library allocations (a partially built state to unwind); distinct = hash of (scenario, arguments, allocator side)',
 'assumptions': ['one failure at a time; ICU-internal allocations are not failed (outside the statement)',
                 'a call that survives the failed allocation must return the fault-free code and leave the fault-free state',
                 'after a failed iterator call "the iterator can be aborted and the CIF read" is required; in addition a failed cif_pktitr_next_packet, repeated with memory available, must deliver the packet the fault-free run delivers, and after a library-side failure of a read-only call made during an iteration the iterator must still close and commit its pending update (storage-engine side: SQLite rolls the whole transaction back on out-of-memory, so only the first clause applies there)',
                 'after any failed call on a CIF, creating and destroying an unrelated block must work (a transaction left open makes it fail)',
                 'first-use scenarios take their "before" snapshot from an identical twin fixture, so that the statement is prepared inside the faulted call',
                 'allocation counts vary slightly between runs (prepared-statement caches): a fault index that is not reached is skipped, not failed'],
 'min_evaluations': 100,
 'technique': 'fault injection driven by property-based scenario generation: exhaustive enumeration of single allocation failures inside each generated API call, with a model-free differential oracle (fault-free run vs faulted run vs retry)',
 'level_text': 'Exhaustive single-fault enumeration over the allocation sites reached by generated scenarios for (nearly) every public function, with ASan/UBSan, '
               'allocation balance, state-unchanged and retry oracles. Sites not reached by the scenarios are not covered; evidence reports fault points injected.',
 'level_note': 'Trusted: the allocation shim (forced include), the SQLite allocator hook, snapshot() through public getters.',
 'engines': [{'src': 'pbt/C17_oom.cpp',
              'quick': {'workers': 8, 'cases': 160, 'size': 100},
              'thorough': {'workers': 16, 'cases': 3000, 'size': 100}}]}
