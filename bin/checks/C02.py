# check configuration for C02 (loaded by bin/vconfig.py)
CHECK = {'level': 'exploration',
 'rule': 'rapidcheck generates a managed CIF through the API (blocks, frames nested to depth 3, scalars, loops; values of all six kinds incl. NUMB '
         'and quoted numbers, nested lists/tables, strings over the CIF 2.0 repertoire without CR, line-length boosters around 2048/4096); '
         'non-trivial = holds a value that cannot be written bare or single-quoted (newline, both quote kinds, > 2040 chars, composite); distinct = '
         'hash of the document',
 'assumptions': ["equivalence as stated in the property (NUMB == unquoted CHAR of same text; unquoted ';...' may come back quoted; names/codes "
                 'matched under case-folded normalisation; table keys under NFC)',
                 'CIF_DISALLOWED_VALUE is accepted only when some table key is not clearly presentable quoted/triple-quoted',
                 "the re-parse uses the library's own parser (validated separately by C01 against an independent printer)"],
 'min_evaluations': 300,
 'technique': 'property-based testing (rapidcheck): API-built CIFs, write -> output validity checks -> re-parse -> equivalence oracle',
 'level_text': 'Generated search with a round-trip equivalence oracle plus direct checks of the bytes (magic, strict UTF-8, CIF 2.0 repertoire, line '
               'length), under ASan/UBSan with allocation balance. Bounded value sizes; no proof.',
 'level_note': 'Trusted: my equivalence relation and output validators; the library parser for the re-read (C01 covers it); rapidcheck; sanitizers.',
 'engines': [{'src': 'pbt/C02_write.cpp',
              'quick': {'workers': 8, 'cases': 1500, 'size': 100},
              'thorough': {'workers': 16, 'cases': 10000, 'size': 150}}]}
