# check configuration for C19 (loaded by bin/vconfig.py)
CHECK = {'level': 'exploration',
 'rule': 'rapidcheck generates a history of <= 60 (thorough: 80) abstract value/list/table/packet operations that is interpreted against the real '
         'objects and a C++ model written from cif.h; after every operation the result code and the full structure of every live root value, '
         'packet and borrowed member reference are compared, and every number reachable in them must have the value and su (bit for bit) of a number freshly parsed from its own text.  non-trivial = the history contains a clone or copy-in whose source or copy is '
         'later mutated / re-initialised / removed / freed, or a removed member that is later mutated or freed, or the documented aliasing '
         'case (a member passed back into its own slot); distinct = hash of the op text',
 'assumptions': ['member pointers obtained from get_element_at / get_item_by_key / packet_get_item are taken to stay valid across operations that do '
                 'not discard that member (insert/remove of other elements, set of other keys), as cif.h describes them as pointers to the contained objects',
                 'not generated (cif.h is silent): a container put into itself or into one of its own descendants, a value from inside the member being '
                 'replaced, clone onto the own container, duplicate names in cif_packet_create, strings with characters no CIF may contain as value text',
                 'accepted either way: spelling of names from cif_packet_get_names (compared under name equivalence), key spelling after the aliasing '
                 'set_item_by_key with a re-spelled key, set_quoted(NOT_QUOTED) on text starting with a semicolon, whether set_quoted(QUOTED) turns UNK/NA into CHAR',
                 'text of numbers made by create/init(NUMB)/init_numb/autoinit_numb is read back, not predicted (C10 checks it)',
                 'LC_NUMERIC is re-pinned after number formatting (finding F-LOCALE belongs to C16)'],
 'min_evaluations': 1000,
 'technique': 'property-based testing (rapidcheck): model-based stateful test over generated operation histories, full read-back after every step',
 'level_text': 'Generated search with an exact reference model (result code + structural equality after every operation) under ASan/UBSan with '
               'allocation balance; bounded by 60/80 operations, 8 roots, 4 packets, lists <= 30 elements, trees <= 400 nodes. Finds contract and '
               'ownership violations on the histories generated; proves nothing beyond them.',
 'level_note': 'Trusted: my Value model and interpreter, the to_cif/from_cif bridges (public API only), rapidcheck, sanitizers.',
 'engines': [{'src': 'pbt/C19_valueops.cpp',
              'quick': {'workers': 8, 'cases': 6000, 'size': 60},
              'thorough': {'workers': 16, 'cases': 20000, 'size': 80}}]}
