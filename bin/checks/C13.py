# check configuration for C13 (loaded by bin/vconfig.py)
CHECK = {'level': 'exploration',
 'rule': "as C02 but written in CIF 1.1 mode; 70% of CIFs purely over the CIF 1.1 repertoire (quotes followed/not followed by blanks, ';' after "
         'newline, trailing backslashes, long lines), 10% with lists/tables, 20% with non-1.1 characters in codes, names or strings; non-trivial = '
         'holds a value needing a text field or a refusal case; distinct = hash of the document',
 'assumptions': ['CIF_DISALLOWED_VALUE is accepted only if the CIF holds a list/table or a string containing newline-semicolon; CIF_DISALLOWED_CHAR '
                 'only if some code, name or string has a character outside 0x20-0x7E, TAB, LF',
                 're-parse with line_folding_modifier=1, text_prefixing_modifier=1 as the property states'],
 'min_evaluations': 300,
 'technique': 'property-based testing (rapidcheck): API-built CIFs, CIF 1.1 write -> purity/line checks -> re-parse -> equivalence or justified '
              'refusal',
 'level_text': 'Generated search; oracle = refusal-code justification predicate or full round-trip equivalence plus byte-level purity checks, under '
               'ASan/UBSan.',
 'level_note': 'Trusted: my predicate of CIF 1.1 expressibility, the equivalence relation, the library parser for the re-read.',
 'engines': [{'src': 'pbt/C13_write11.cpp',
              'quick': {'workers': 8, 'cases': 1500, 'size': 100},
              'thorough': {'workers': 16, 'cases': 10000, 'size': 150}}]}
