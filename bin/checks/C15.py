# check configuration for C15 (loaded by bin/vconfig.py)
CHECK = {'level': 'exploration',
 'rule': 'rapidcheck generates a well-formed CIF 2.0 document (abstract content x layout tape; the printer records the document order of blocks, frames, items and '
         'loops) and a handler program (1-3 responses SKIP_CURRENT / SKIP_SIBLINGS / END / positive codes keyed by callback ordinal, or one response for every callback '
         'of one kind, or all-continue); it is parsed in storing mode and again in syntax-only mode with handler, data-name, keyword, whitespace and error callbacks '
         'installed; non-trivial = a non-CONTINUE response before the last callback, or a loop inside a save frame; distinct = hash of (bytes, program)',
 'assumptions': ['whether the end callback of an element that skipped itself, or of the parent of an element that asked to skip siblings, is still made is not fixed: both accepted',
                 'the element that answers SKIP_CURRENT/SKIP_SIBLINGS may itself be stored or not (cif.h: "the current element itself if possible"); its descendants and the bypassed later siblings must not be',
                 'SKIP_SIBLINGS from an item/loop must bypass later items/loops of the container (later frames: either), from a frame later frames (later items/loops: either)',
                 'an item answering SKIP_CURRENT inside a packet leaves that cell unconstrained; SKIP_SIBLINGS inside a packet leaves the packet unconstrained',
                 'whitespace callbacks are only checked for carrying nothing but blanks, terminators and comments, and for equal coverage in both modes'],
 'min_evaluations': 300,
 'technique': 'property-based testing (rapidcheck): generated documents x handler programs; ordered recursive-descent validation of the callback log; storage derived from the responses compared with the dump; storing vs syntax-only differential',
 'level_text': 'Generated search; oracle = ordered log validation + callbacks-vs-storage consistency + storing/syntax-only differential, under ASan/UBSan with allocation balance.',
 'level_note': 'Trusted: my printer (document order), the log checker, dump().',
 'engines': [{'src': 'pbt/C15_parsecb.cpp',
              'quick': {'workers': 8, 'cases': 500, 'size': 100},
              'thorough': {'workers': 16, 'cases': 30000, 'size': 100}}]}
