# check configuration for C05 (loaded by bin/vconfig.py)
CHECK = {'level': 'exploration',
 'rule': 'histories as C04 (engine C05_failed) plus packet-iterator histories as C06 (engine C06_pktitr): as C04, with an operation mix dominated by calls that must fail: the offending name/item at a generated position of a multi-element argument, '
         'duplicate/invalid codes, empty packet, second scalar packet, reserved category, stale loop handle -- stand-alone, from inside a parse-time handler '
         'callback, and while an iterator is open on another managed CIF; after every call the dump of every CIF must equal the model (unchanged by the failed call) '
         'and the following valid calls must behave as the model predicts; non-trivial = a failing call whose offender is not the first element or that ran '
         'in a nested context; distinct = hash of the history',
 'assumptions': ['transaction state is observed only through the behaviour of subsequent calls (no hook reads sqlite3_get_autocommit)',
                 'where several documented error codes apply to one call, any of them is accepted'],
 'min_evaluations': 200,
 'technique': 'model-based stateful property testing (rapidcheck histories with synthesised failing calls; state-unchanged invariant checked by full dump after every call)',
 'level_text': 'Generated histories; oracle = documented error code + full dump equality with the unchanged model after each failing call, and model-conformant '
               'behaviour of the rest of the history. Bounded histories; finds partial effects for generated call shapes only.',
 'level_note': 'Trusted: the reference model, dump() through public getters.',
 'engines': [{'src': 'pbt/C05_failed.cpp',
              'quick': {'workers': 8, 'cases': 1500, 'size': 100},
              'thorough': {'workers': 16, 'cases': 40000, 'size': 100}},
             # calls made through an open packet iterator that must fail (update with a packet naming a foreign item at a generated
             # position, update/remove without a current packet, second iterator): the C06 state machine checks after close/abort that
             # the failed call left nothing behind
             {'src': 'pbt/C06_pktitr.cpp',
              'quick': {'workers': 4, 'cases': 800, 'size': 100},
              'thorough': {'workers': 8, 'cases': 20000, 'size': 100}}]}
