# check configuration for C11 (loaded by bin/vconfig.py)
CHECK = {'level': 'exploration',
 'rule': 'the configuration table magic {none, 1.0, 1.1, 2.0, 2.0 after LF / SP / BOM SP, 2.0x, 3.0} x BOM {no, own} x prefer_cif2 {-5,-1,0,1,19,20,25} x '
         'encoding {UTF-8, UTF-16LE/BE, UTF-32LE/BE, named ISO-8859-1, system default pinned to US-ASCII / to UTF-8, UTF-8 bytes with named '
         'ISO-8859-1} x force_default_encoding {0,1} is enumerated (1638 cells inside the property, striped over the workers; every worker runs '
         'its whole stripe for every generated probe); one case = one cell x one rapidcheck-generated probe document (block code, names, five '
         'dialect indicators: quote-in-quoted-string, list, table, bracket in a bare value, folded text field; a non-ASCII value of 1-3 characters '
         'from Latin-1 / Greek / CJK / supplementary plane; optional U+FEFF inside a value; item order, separators, heading terminator); '
         'non-trivial = any cell other than the four the test-suite executes (defaults x {ver1, ver2, bom, bom_ver2}); distinct = hash of '
         '(cell, probe); coverage.cells_covered / cells_total report the enumeration, coverage.exhaustive is set when every worker ran its whole stripe',
 'assumptions': ["'system default encoding' is pinned with ucnv_setDefaultName (US-ASCII or UTF-8); behaviour under real locales is not explored",
                 'UTF-16/32 without a byte-order mark is generated only together with force_default_encoding (cif.h promises BOM-less detection only "in most cases")',
                 'a forced or named encoding is always the real encoding of the bytes, except the cell class "UTF-8 bytes, default_encoding_name=ISO-8859-1, force=0" used to show which decoder ran',
                 'unconstrained U1: "#\\#CIF_2.0x" (no whitespace after the magic code) with prefer_cif2 in 0..19 - either dialect accepted',
                 'unconstrained U2: "#\\#CIF_2.0" not at the very start (after LF / SP / BOM SP) with prefer_cif2 in 1..19 - either dialect accepted (is it "no comment" or "a comment for another version"?)',
                 'unconstrained U3: under CIF 1.1 the diagnostics for a leading BOM and for non-ASCII characters (CIF_DISALLOWED_CHAR) are accepted but not demanded',
                 'unconstrained U4: when the documented decoder does not match the bytes only "the non-ASCII value is not read back intact" is demanded (plus dialect and CIF_WRONG_ENCODING); the return code is free',
                 'unconstrained U5: no diagnostic other than CIF_WRONG_ENCODING and the BOM-related CIF_DISALLOWED_CHAR / CIF_DISALLOWED_INITIAL_CHAR is demanded or forbidden',
                 'in open cells the decoder / CIF_WRONG_ENCODING / BOM rules are applied to the dialect that was observed; the five indicators must agree in every cell',
                 'a plain comment or a blank line before the data block counts as "no version comment"',
                 'the observed dialect is read off the stored values (list / table kinds, texts), the decoder off the stored non-ASCII value'],
 'min_evaluations': 3000,
 'technique': 'exhaustive enumeration of the option / first-bytes configuration table crossed with property-based testing (rapidcheck) of probe documents; '
              'a ~40-line decision function transcribed from the property statement and cif.h as oracle; own UTF-8/16/32/Latin-1 encoders; metamorphic '
              'comparison of every Unicode encoding against the UTF-8 rendering of the same text',
 'level_text': 'Every cell of the table is executed with several generated dialect-sensitive probes; dialect, decoder, CIF_WRONG_ENCODING and the '
               'byte-order-mark rules are compared with the documented selection, stored content is compared across encodings, all under ASan/UBSan with '
               'the allocation-balance guard. Bounded by the enumerated option values and encodings and by the probe family; first-byte cascades outside '
               'the table (other magic-like prefixes, other converters) are not explored.',
 'level_note': 'Trusted: my reading of the statement / cif.h (decision function in harness/pbt/C11_version.cpp), my encoders, dump() through the public getters, '
               'ICU honouring ucnv_setDefaultName, rapidcheck, the sanitizers.',
 'engines': [{'src': 'pbt/C11_version.cpp',
              'args': ['--workers-quick', '8', '--workers-thorough', '16'],
              'quick': {'workers': 8, 'cases': 8, 'size': 100},
              'thorough': {'workers': 16, 'cases': 200, 'size': 100}}]}
