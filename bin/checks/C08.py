# check configuration for C08 (loaded by bin/vconfig.py)
CHECK = {'level': 'exploration',
 'rule': 'rapidcheck generates an LF-terminated base document (well-formed CIF 2.0 from the document generator; 30% with an appended text field of 6-160 long lines so the '
         'input exceeds the 4096-byte read buffer / the 133120-unit scan buffer; 35% mutated by 1-3 byte edits so that it contains errors) and a variant: all LF->CR LF, '
         'all LF->CR, a generated per-terminator mixture, optionally re-encoded as UTF-16LE, optionally read through a stream that returns generated short reads, and '
         'padded (inside three leading comment lines) so that a chosen line terminator / multi-byte character / delimiter lands at offset -4..+4 of a 4096-byte fill '
         'boundary; non-trivial = a terminator inside a value with input > 4096 bytes, or a CR LF pair straddling a fill boundary, or a padded non-LF variant; '
         'distinct = hash of the variant bytes',
 'assumptions': ['columns are not compared (the property speaks of codes and line numbers)',
                 'for the UTF-16 variant of a CIF 2.0 document the CIF_WRONG_ENCODING diagnostic is filtered out on both sides'],
 'min_evaluations': 300,
 'technique': 'metamorphic property-based testing (rapidcheck): observe(T(x)) == observe(x) for terminator / encoding / chunking / padding transformations',
 'level_text': 'Generated search with a metamorphic oracle (identical dump, identical (code, line) error sequence), constructs aimed at the fill boundaries, under ASan/UBSan.',
 'level_note': 'Trusted: the transformations preserve the denotation by the property statement itself; dump().',
 'engines': [{'src': 'pbt/C08_eol.cpp',
              'quick': {'workers': 8, 'cases': 1500, 'size': 100},
              'thorough': {'workers': 16, 'cases': 20000, 'size': 100}}]}
