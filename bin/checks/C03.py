# check configuration for C03 (loaded by bin/vconfig.py)
CHECK = {'level': 'exploration',
 'rule': 'two generators feed one in-target oracle: (1) libFuzzer (coverage-guided, dictionary of CIF keywords/delimiters/BOMs/malformed UTF-8, seeded with /repo/test-data) '
         'mutating bytes whose last 12 bytes decode the parse options and the accept/reject tape of the error callback; (2) rapidcheck: grammar-generated documents damaged '
         'by 1-4 byte/token edits, truncated repository test files, random bytes, re-encoded as UTF-16/32 with or without BOM, huge tokens (66 000-270 000 units), tokens ending exactly on a 4096-byte read boundary followed by undecodable bytes or a lone surrogate (forced CESU-8), with generated options; '
         'non-trivial = at least one error was reported and the parse went on to return CIF_OK; distinct = hash of (input, options)',
 'assumptions': ['valid options only: encoding names known to ICU, extra whitespace/eol characters from the documented set',
                 'cif_walk of a CIF holding packet-less loops may return CIF_EMPTY_LOOP until cif_container_prune has run',
                 'libFuzzer runs are pinned with -seed/-runs/-entropic=0 but are only approximately reproducible; the saved artifact, replayed 3x through the plain replay path, decides',
                 'timeout-/oom-/slow-unit- artifacts are load noise; an in-target bound of 16 x input length + 256 error callbacks detects a parser that does not advance'],
 'min_evaluations': 2000,
 'technique': 'coverage-guided fuzzing (libFuzzer, in-target semantic oracle) plus property-based testing (rapidcheck structured mutation) of cif_parse',
 'level_text': 'Generated search over bytes x options x callback policies with a semantic oracle in the target (return-code rules, abort-handler equals first error, rejection '
               'value returned verbatim, callback arguments readable, resulting CIF walkable/writable/modifiable/destroyable, pre-existing content intact) under ASan/UBSan '
               'with allocation balance. No exhaustiveness; depth of reached parser states is reported through the first-error-code histogram.',
 'level_note': 'Trusted: the oracle transcription of the property; sanitizers; libFuzzer.',
 'engines': [{'src': 'pbt/C03_struct.cpp',
              'quick': {'workers': 6, 'cases': 700, 'size': 100},
              'thorough': {'workers': 8, 'cases': 30000, 'size': 100}},
             {'src': 'fuzz/fuzz_parse.cpp', 'kind': 'fuzz', 'replay_engine': 'pbt/C03_struct.cpp', 'seed_dirs': ['{REPO}/test-data'],
              'quick': {'workers': 6, 'cases': 2500, 'max_len': 8192, 'timeout': 1500},
              'thorough': {'workers': 8, 'cases': 50000, 'max_len': 16384, 'timeout': 7000}}]}
