# check configuration for C06 (loaded by bin/vconfig.py)
CHECK = {'level': 'exploration',
 'rule': 'rapidcheck generates a loop (1-5 items, 40% spelled with capitals, x 0-8 packets, 25% the scalar loop, 15% with identical packets, 4% already destroyed through a second handle) and a '
         'script of up to 25 iterator calls drawn from next(new packet | reused packet holding extra items | NULL), update(subset of items), update(packet with '
         'a foreign item at a generated position: an item of another loop, a name in no loop, or a name differing from one of the loop items in its last character only), update(empty packet), remove, and a failing call on another part of the CIF (8 kinds, among them cif_loop_get_packets through a handle on a loop that no longer exists) -- in any order, including life-cycle violations -- ended by close or abort and '
         'followed by ordinary operations; non-trivial = at least one successful update/remove and two next calls, or at least one life-cycle violation; '
         'distinct = hash of (loop, script, ending)',
 'assumptions': ['delivery order is unspecified: delivered packets are matched to undelivered model packets by content',
                 'update/remove after CIF_FINISHED: both "acts on the last delivered packet" and CIF_MISUSE are accepted (cif.h calls it an error, the property only fixes the no-packet case)',
                 'after a next() with a NULL packet pointer the delivered packet is unidentified, so update/remove are not issued until the next visible delivery',
                 'update with an empty packet may return CIF_OK or CIF_INVALID_PACKET; either way nothing may change'],
 'min_evaluations': 300,
 'technique': 'model-based property testing (rapidcheck-generated iterator scripts against an iterator state-machine model; final loop content compared after close/abort)',
 'level_text': 'Generated scripts with an exact state-machine oracle for every call (codes, delivered contents) and for the loop content after close/abort, plus follow-up '
               'operations, under ASan/UBSan with allocation balance. Bounded: <= 5 items, <= 8 packets, <= 25 calls.',
 'level_note': 'Trusted: the iterator model transcribed from cif.h, dump_loop() through public getters.',
 'engines': [{'src': 'pbt/C06_pktitr.cpp',
              'quick': {'workers': 8, 'cases': 2500, 'size': 100},
              'thorough': {'workers': 16, 'cases': 30000, 'size': 100}}]}
