# check configuration for C10 (loaded by bin/vconfig.py)
CHECK = {'level': 'exploration',
 'rule': 'three rapidcheck properties: (a) strings = valid CIF numbers, their single-edit neighbours and a noise list x 7 prior value states; '
         '(b) valid number texts from families (random digit strings of 1..2000 digits incl. lengths = 0,1,8 mod 9, exact midpoints of adjacent '
         'doubles and their +-1 neighbours, binade boundaries, DBL_MAX/DBL_MIN neighbours, printf renderings, powers of ten) x layout (point '
         'anywhere, exponent -400..400, leading/trailing zeros, su of 1..60 digits) x route (parse_numb / CHAR coercion); (c) finite doubles '
         '(literals, random bits, exact ties at the rounding digit and their neighbours, runs of nines, 10^9 group boundaries, powers) x su x '
         'scale -300..300 x max_leading_zeroes 0..10 x su_rule 2..999999999; non-trivial = (a) a refused single-edit neighbour of a valid number, '
         '(b) a text aimed at a rounding boundary (midpoint, binade, range extreme and neighbours) or >= 17 significant digits with |exponent| > 30, '
         '(c) an exact tie at the rounding digit or its +-1 ulp neighbour, a run of nines, a 10^9 group boundary, or a non-zero su with |scale| > 8; '
         'distinct = hash of the case',
 'assumptions': ['glibc strtod is correctly rounded in every rounding mode and printf("%.1100f") prints the exact binary value (the trusted arithmetic)',
                 'results whose exact magnitude is non-zero and outside [DBL_MIN, DBL_MAX] are only required to terminate cleanly (labelled, not compared)',
                 'only FE_TONEAREST is checked',
                 'exponents whose value exceeds INT_MAX are excluded (known finding F-EXPOVF, witness replay/C10/known-F-EXPOVF.case)',
                 'notation (decimal/scientific) is only demanded where the leading-zero count of the exact and of the rounded value agree on the side of max_leading_zeroes',
                 'an su that rounds to zero at the scale may be printed as (0) or omitted; the sign of a zero result is not compared',
                 'autoinit with su == 0: the text must be the correct rendering at the scale it exhibits and either denote val exactly or carry >= 15 significant digits; '
                 'a refusal is tolerated when the exact rendering needs more than 300 decimals',
                 'VERIF_TOLERATE_LOCALE=1 re-establishes LC_NUMERIC after each init_numb/autoinit_numb call so the search can continue behind F-LOCALE'],
 'min_evaluations': 30000,
 'technique': 'property-based testing (rapidcheck): grammar-plus-noise strings against a hand-written recogniser; boundary-aimed decimal strings against '
              'glibc strtod (bit-exact); generated doubles against exact decimal expansion with half-even rounding on digit strings; parse round trip',
 'level_text': 'Generated search with exact-arithmetic oracles over acceptance, text->double and double->text, under ASan/UBSan with allocation balance '
               'and global-state guard; aimed at exact ties, binade and 10^9 digit-group boundaries, range extremes, long digit strings. '
               'Finds mis-rounding on the inputs generated; proves nothing beyond them.',
 'level_note': 'Trusted: glibc strtod/printf exactness; my recogniser and decimal rounding routines; rapidcheck; sanitizers.',
 'engines': [{'src': 'pbt/C10_numbers.cpp',
              'quick': {'workers': 8, 'cases': 24000, 'size': 100},
              'thorough': {'workers': 16, 'cases': 1000000, 'size': 100, 'timeout': 7200}}]}
