# check configuration for C12 (loaded by bin/vconfig.py)
CHECK = {'level': 'exploration',
 'rule': 'rapidcheck generates a well-formed host document (abstract cm::Doc: blocks, frames, scalars, loops, nested lists/tables; CIF 2.0, CIF 1.1 for the 1.1 row), a '
         'hand-rolled renderer turns it into a token list (joined by newlines, blanks, tabs, empty lines, comments) whose line numbers are known from the bytes, and one '
         'row of the planting table (37 rows covering every defect class of the statement) plants exactly one defect at a generated position (two rows plant a container code that is invalid AND repeated: one header to which two recovery rows apply); non-trivial = the defect '
         'sits in a loop header/body, a list/table, a save frame, or at a middle/last item; distinct = hash of the document bytes',
 'assumptions': ['line window = [line of the defect, last line of the token that follows it] (the line on which the input ends when nothing follows)',
                 'CIF_EMPTY_LOOP: the packet-less loop may be absent or present without packets (table: "accept"; code comment: may be pruned)',
                 'CIF_NULL_KEY: the key-less entry may be dropped or kept under some key (entries holding the marker value are removed before comparing)',
                 'CIF_DISALLOWED_CHAR: whether the stored text / code keeps the character or a replacement is not constrained (that one value or code is masked)',
                 'invalid block/frame code: the only lexable invalid codes are over-long ones (CIF_OVERLENGTH_LINE allowed as follow-up) and ones holding a disallowed '
                 'character (CIF_DISALLOWED_CHAR or the invalid-code error may come first, both allowed, the invalid-code error is required)',
                 'CIF_UNCLOSED_TEXT for a text field whose content ends with a line terminator right before the end of input: value with or without that terminator',
                 'a defect may be reported more than once with the same code: "abc[" (bare word + bracket) gives CIF_MISSING_SPACE twice, U+0080 under CIF 1.1 gives '
                 'CIF_DISALLOWED_CHAR twice (two rules); accepted',
                 'frame-not-allowed: the negative control is parsed with the default max_frame_depth; the CIF 1.1 row is parsed with default_encoding_name=UTF-8 forced',
                 'callbacks after the first one are not constrained by the property: codes outside the expected follow-up set are labelled (unlisted-follow-up:<code>), '
                 'not failed (e.g. ":v" gives CIF_MISSING_SPACE after the accepted CIF_NULL_KEY)',
                 'one defect per document; LF line terminators only; loop packets compared as multisets'],
 'min_evaluations': 3000,
 'technique': 'property-based testing (rapidcheck): well-formed host x planting table (defect class x position); oracle from the recovery table: first code, line window, '
              'recovered dump, default-handler result, silent negative control',
 'level_text': 'Generated search over host documents x defect classes x positions under ASan/UBSan with allocation balance; every case also parses the un-planted host '
               '(must be silent) and re-parses the planted bytes with the default abort handler. Bounded document sizes (<= ~3 blocks, values <= ~10 characters, composites '
               '<= depth 3).',
 'level_note': 'Trusted: my renderer and planters (their reading of the recovery table), dump()/model code, rapidcheck, sanitizers.',
 'engines': [{'src': 'pbt/C12_defects.cpp',
              'quick': {'workers': 8, 'cases': 1100, 'size': 100},
              'thorough': {'workers': 16, 'cases': 40000, 'size': 120}}]}
