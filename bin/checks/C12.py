# check configuration for C12 (loaded by bin/vconfig.py)
CHECK = {'level': 'exploration',
 'rule': 'rapidcheck generates a well-formed host document (abstract cm::Doc: blocks, frames, scalars, loops, nested lists/tables; CIF 2.0, CIF 1.1 for the 1.1 row), a '
         'hand-rolled renderer turns it into a token list whose line numbers are known, and one row of the planting table (one per defect class of the statement) '
         'plants exactly one defect at a generated position; non-trivial = the defect sits in a loop header/body, a list/table, a save frame, or at a middle/last '
         'item; distinct = hash of the document bytes',
 'assumptions': [],
 'min_evaluations': 1500,
 'technique': 'property-based testing (rapidcheck): well-formed host x planting table (defect class x position); oracle from the recovery table: first code, line window, '
              'follow-up set, recovered dump, default-handler result, silent negative control',
 'level_text': 'Generated search over host documents x defect classes x positions under ASan/UBSan with allocation balance; every case also parses the un-planted host '
               '(must be silent). One defect per document; LF line terminators only.',
 'level_note': 'Trusted: my renderer and planters (their reading of the recovery table), dump()/model code, rapidcheck, sanitizers.',
 'engines': [{'src': 'pbt/C12_defects.cpp',
              'quick': {'workers': 8, 'cases': 700, 'size': 100},
              'thorough': {'workers': 16, 'cases': 25000, 'size': 120}}]}
