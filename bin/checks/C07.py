# check configuration for C07 (loaded by bin/vconfig.py)
CHECK = {'level': 'exploration',
 'rule': 'rapidcheck generates a value tree (strings over a weighted alphabet incl. any well-formed UTF-16, numbers in all spellings, NA/UNK, '
         'lists/tables to depth 5) x store route (5) x read route (4); non-trivial = composite depth >= 2, or string > 256 units, or an empty '
         'key/list/table, or a number in non-plain spelling; distinct = hash of (value, routes)',
 'assumptions': ["unpaired surrogates are outside 'well-formed Unicode text' and not generated",
                 'digit precision is observed through cif_value_get_number/get_su (bit-exact) and the text, not by reading struct fields'],
 'min_evaluations': 300,
 'technique': 'property-based testing (rapidcheck): generated value trees, round-trip oracle through 5 store x 4 read routes, model equality',
 'level_text': 'Generated search with an exact model-equality oracle over every store/read route pair, under ASan/UBSan with allocation balance; '
               'bounded by depth 5, 700-unit strings. Finds mismatches and aliasing for the shapes generated; proves nothing beyond them.',
 'level_note': 'Trusted: my Value model and its to_cif/from_cif bridges (public API only); rapidcheck; sanitizers.',
 'engines': [{'src': 'pbt/C07_values.cpp',
              'quick': {'workers': 8, 'cases': 2500, 'size': 100},
              'thorough': {'workers': 16, 'cases': 40000, 'size': 200}}]}
